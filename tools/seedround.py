#!/usr/bin/env python3
"""Confirm and store one round of seeded changes written by sub-agents.
usage: tools/seedround.py <round-number> <scratch-root> [descriptions.json]
  <scratch-root>/<Cnn>/wt   scratch git worktree of /repo the agent worked in (clean)
  <scratch-root>/<Cnn>/out  C.diff, C_demo_test.go, REPORT.md
For every property: copy the demo into the worktree, run it without the change (must pass), apply
C.diff, run it again (must fail), run the repository's suite with the change (only the journald
baseline failure allowed) and the binary_log root tests; a demo that passes both ways is retried
with -tags binary_log. Confirmed changes are stored as seeded/<Cnn>-<round>C/{patch.diff,
C_demo_test.go, REPORT.md, meta.json}; the worktrees are removed afterwards.
descriptions.json: {"C01": ["change", "needs to manifest"], ...} (else meta points to REPORT.md)."""
import json, os, re, shutil, subprocess, sys
from concurrent.futures import ThreadPoolExecutor

rnd, root = sys.argv[1], sys.argv[2]
desc = json.load(open(sys.argv[3])) if len(sys.argv) > 3 else {}
ENV = dict(os.environ, GOFLAGS="-mod=mod", GOPROXY="off", GOSUMDB="off", GOTOOLCHAIN="local")
PKGDIR = {"zerolog": ".", "zerolog_test": ".", "hlog": "hlog", "hlog_test": "hlog", "cbor": "internal/cbor", "json": "internal/json",
          "diode": "diode", "diode_test": "diode", "diodes": "diode/internal/diodes", "diodes_test": "diode/internal/diodes",
          "log": "log", "log_test": "log", "mutil": "hlog/internal/mutil", "journald": "journald", "journald_test": "journald", "pkgerrors": "pkgerrors", "pkgerrors_test": "pkgerrors"}


def sh(cmd, cwd, env=None):
    return subprocess.run(cmd, shell=True, cwd=cwd, env=dict(ENV, **(env or {})), stdout=subprocess.PIPE, stderr=subprocess.STDOUT, text=True)


def confirm(pid):
    wt, out = f"{root}/{pid}/wt", f"{root}/{pid}/out"
    demo = f"{out}/C_demo_test.go"
    if not os.path.isdir(wt):
        return pid, None, "no worktree (already processed)"
    if not (os.path.exists(demo) and os.path.exists(f"{out}/C.diff")):
        return pid, None, "no deliverables"
    sh("git checkout -q -- . && git clean -fdq", wt)
    pkg = re.search(r"^package (\w+)", open(demo).read(), re.M).group(1)
    d = PKGDIR.get(pkg)
    if d is None:
        return pid, None, "unknown package " + pkg
    names = re.findall(r"^func (Test\w+)\(", open(demo).read(), re.M)
    only = "-run '^(%s)$'" % "|".join(names) if names else ""  # the demonstration's tests, not the package's own (journald's fail without a daemon)
    res = {}
    for tags, genv in (("", None), ("-tags binary_log", None), ("", {"GOARCH": "386", "CGO_ENABLED": "0"}), ("-tags binary_log", {"GOARCH": "386", "CGO_ENABLED": "0"})):
        if tags == "" and re.search(r"^//go:build (?!.*!binary_log).*binary_log", open(demo).read(), re.M):
            continue
        if tags != "" and re.search(r"^//go:build .*!binary_log", open(demo).read(), re.M):
            continue
        shutil.copy(demo, f"{wt}/{d}/zz_C_demo_test.go")
        base = sh(f"go test -vet=off -count=1 {only} {tags} ./{d}", wt, genv).stdout.strip().splitlines()[-1]
        if sh(f"git apply {out}/C.diff", wt).returncode != 0:
            sh("git checkout -q -- . && git clean -fdq", wt)
            return pid, None, "patch does not apply"
        withc = sh(f"go test -vet=off -count=1 {only} {tags} ./{d}", wt, genv).stdout.strip().splitlines()[-1]
        os.remove(f"{wt}/{d}/zz_C_demo_test.go")
        res = {"tags": tags + (" GOARCH=386" if genv else ""), "demo_without": base[:60], "demo_with": withc[:60]}
        if base.startswith("ok") and not withc.startswith("ok"):
            break
        sh("git checkout -q -- . && git clean -fdq", wt)
    else:
        return pid, res, "demo does not separate the trees"
    suite = [l for l in sh("go test -vet=off -count=1 ./...", wt).stdout.splitlines() if re.match(r"^(FAIL|---)", l) and "journald" not in l and "TestWriteReturnsNoOfWrittenBytes" not in l and l.strip() != "FAIL"]
    if suite:  # the pinned suite has one probabilistic test (RandomSampler bound in TestSamplers): retry once
        suite = [l for l in sh("go test -vet=off -count=1 ./...", wt).stdout.splitlines() if re.match(r"^(FAIL|---)", l) and "journald" not in l and "TestWriteReturnsNoOfWrittenBytes" not in l and l.strip() != "FAIL"]
    binl = sh("go test -vet=off -count=1 -tags binary_log .", wt).stdout.strip().splitlines()[-1]
    sh("git checkout -q -- . && git clean -fdq", wt)
    res.update({"suite_failures_with_change": suite, "binary_log_root": binl[:40]})
    ok = not suite and binl.startswith("ok")
    return pid, res, "confirmed" if ok else "suite differs"


pids = ["C%02d" % i for i in range(1, 20) if os.path.isdir(f"{root}/C%02d" % i)]
with ThreadPoolExecutor(8) as ex:
    results = list(ex.map(confirm, pids))
here = os.path.dirname(os.path.dirname(os.path.abspath(__file__)))
for pid, res, verdict in results:
    print(pid, verdict, json.dumps(res))
    if verdict != "confirmed":
        continue
    dst = f"{here}/seeded/{pid}-{rnd}C"
    os.makedirs(dst, exist_ok=True)
    shutil.copy(f"{root}/{pid}/out/C.diff", f"{dst}/patch.diff")
    shutil.copy(f"{root}/{pid}/out/C_demo_test.go", f"{dst}/C_demo_test.go")
    if os.path.exists(f"{root}/{pid}/out/REPORT.md"):
        shutil.copy(f"{root}/{pid}/out/REPORT.md", f"{dst}/REPORT.md")
    ch, need = desc.get(pid, ["see REPORT.md (the agent's own description)", "see REPORT.md"])
    meta = {"id": f"{pid}-{rnd}C", "round": int(rnd), "property": pid,
            "origin": "independent sub-agent given only the property text and a scratch worktree of /repo HEAD; prompt kept in DESIGN.md section 10.4 (ideas of all earlier rounds excluded by name)",
            "change": ch, "needs_to_manifest": need,
            "confirmed": {"how": "tools/seedround.py in the agent's scratch worktree: demo passes without the change and fails with it (" + (res["tags"] or "default build") + "); `go test ./...` with the change shows only the baseline journald failure; `go test -tags binary_log .` passes", "result": "confirmed", "detail": res},
            "patch": "patch.diff applies to /repo HEAD with `git -C /repo apply`"}
    json.dump(meta, open(f"{dst}/meta.json", "w"), indent=1)
    if subprocess.run(f"git -C /repo apply --check {dst}/patch.diff", shell=True).returncode != 0:
        print(pid, "WARNING: patch does not apply to /repo")
done = {pid for pid, res, verdict in results if verdict in ("confirmed", "suite differs")}  # anything else may need a closer look, or its agent may still be working
for pid in sorted(done):
    subprocess.run(f"git -C /repo worktree remove --force {root}/{pid}/wt", shell=True, stdout=subprocess.DEVNULL, stderr=subprocess.DEVNULL)
subprocess.run("git -C /repo worktree prune", shell=True)
