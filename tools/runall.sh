#!/bin/sh
# usage: tools/runall.sh <tier> <seed> [ids...] — run checks, print one line per check
TIER=${1:-quick}; SEED=${2:-1}; shift 2 2>/dev/null
IDS="$@"; [ -z "$IDS" ] && IDS="C01 C02 C03 C04 C05 C06 C07 C08 C09 C10 C11 C12 C13 C14 C15 C16 C17 C18 C19"
cd "$(dirname "$0")/.."
for id in $IDS; do
  s=$(date +%s)
  out=$(VERIF_SEED=$SEED ./check $id --tier $TIER 2>&1); rc=$?
  e=$(date +%s)
  echo "$id tier=$TIER seed=$SEED rc=$rc t=$((e-s))s $(echo "$out" | grep -E '^(VIOLATION|INCONCLUSIVE|KNOWN-FINDING)' | cut -c1-120 | tr '\n' ' ') $(echo "$out" | grep -E '^\[' | sed 's/.*evaluations/evaluations/')"
done
