#!/bin/sh
# usage: tools/mut.sh <patch.diff> <ID> [<ID>...]   — apply patch to /repo, run quick checks, revert.
# env ONLY=<job regex> restricts the jobs; TIER, VERBOSE=<n lines>.
P="$1"; shift
export VERIF_EVIDENCE_DIR=/tmp/verif-mut-evidence   # never clobber the committed evidence with runs on a broken tree
cd /repo || exit 2
if ! git diff --quiet; then echo "repo dirty"; exit 2; fi
git apply "$P" || { echo "patch does not apply: $P"; exit 2; }
for id in "$@"; do
  if [ -n "$ONLY" ]; then out=$(cd /verif && ./check "$id" --tier "${TIER:-quick}" --only "$ONLY" 2>&1); else out=$(cd /verif && ./check "$id" --tier "${TIER:-quick}" 2>&1); fi; rc=$?
  echo "$id rc=$rc $(echo "$out" | grep -E '^(VIOLATION|INCONCLUSIVE|KNOWN)' | head -3 | tr '\n' ' ')"
  [ -n "$VERBOSE" ] && echo "$out" | grep -v 'rapid\] draw' | tail -${VERBOSE}
done
git -C /repo checkout -- . 
