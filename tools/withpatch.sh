#!/bin/sh
# usage: tools/withpatch.sh <patch.diff> <command...> — run a command (e.g. ./check C11 --tier thorough)
# against a scratch copy of /repo's working tree with the patch applied (VERIF_REPO), so that /repo itself
# is never touched while other checks build from it; evidence goes to a scratch directory.
P=$(readlink -f "$1"); shift
D=/tmp/verif-wp-$$
rm -rf $D && mkdir -p $D && rsync -a --exclude .git --exclude cmd /repo/ $D/ && (cd $D && git init -q . && git add -A && git -c user.email=a@b -c user.name=x commit -qm base && git apply "$P") || { echo "patch does not apply"; rm -rf $D; exit 2; }
VERIF_REPO=$D VERIF_EVIDENCE_DIR=/tmp/verif-wp-ev-$$ "$@"; rc=$?
rm -rf $D /tmp/verif-wp-ev-$$
exit $rc
