#!/usr/bin/env python3
"""Regenerate MANIFEST.json from checks_config.PROPS (claims) + properties.jsonl."""
import json, os, sys
ROOT = os.path.dirname(os.path.dirname(os.path.abspath(__file__)))
sys.path.insert(0, ROOT)
from checks_config import PROPS, NOT_APPLICABLE, HOOK_COMMITS

props = [json.loads(l)["id"] for l in open(os.path.join(ROOT, "properties.jsonl"))]
m = {
    "version": 1,
    "setup_cmd": "./setup.sh",
    "hooks": {
        "guard": "verif",
        "enable": "go test -tags verif[,binary_log] in the harness module (replace github.com/rs/zerolog => /repo); the only guarded file is /repo/verif_hooks.go",
        "baseline_off_cmd": "cd /repo && GOFLAGS=-mod=mod go test -vet=off -count=1 ./... ; cd /repo/cmd/lint && GOFLAGS=-mod=mod go test -vet=off -count=1 ./...",
        "source_commits": HOOK_COMMITS,
        "add_only": True,
    },
    "engines": [
        {"name": "harness", "path": "harness/", "serves_properties": [p for p in props if p in PROPS and not any(j.get("sched") for j in PROPS[p]["jobs"])],
         "kind_free_text": "property-based testing (pgregory.net/rapid v1.3.0), bounded-exhaustive enumeration and native go fuzzing against reference models / validators; driver ./check"},
        {"name": "sched", "path": "sched/ + harness/tools/instrument", "serves_properties": [p for p in props if p in PROPS and any(j.get("sched") for j in PROPS[p]["jobs"])],
         "kind_free_text": "generated schedules (rapid byte strings, PCT priorities, bounded-preemption DFS) driving the real diode sources rewritten onto a cooperative scheduler"},
    ],
    "checks": [],
    "not_applicable": [],
    "notes": "All checks are generated-input search against explicit oracles (DESIGN.md). exit 0 held / 1 VIOLATION / 2 inconclusive.",
}
for p in props:
    if p in PROPS and PROPS[p].get("claim"):
        c = PROPS[p]["claim"]
        m["checks"].append({
            "property_id": p,
            "quick_cmd": "./check %s --tier quick" % p,
            "thorough_cmd": "./check %s --tier thorough" % p,
            "evidence_file": "evidence/%s.json" % p,
            "replay_cmd_template": "./check %s --replay {path}" % p,
            "engine": "sched" if any(j.get("sched") for j in PROPS[p]["jobs"]) else "harness",
            "level_claimed": {"category": "exploration", "text": c["text"], "design_ref": c["ref"]},
            "level_note": c["note"],
            "technique": c["technique"],
        })
    else:
        m["not_applicable"].append({"property_id": p, "reason": NOT_APPLICABLE.get(p, "check under construction (planned in DESIGN.md); not claimed yet")})
json.dump(m, open(os.path.join(ROOT, "MANIFEST.json"), "w"), indent=1)
print("checks:", [c["property_id"] for c in m["checks"]])
