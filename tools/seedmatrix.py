#!/usr/bin/env python3
"""Apply every seeded/<id>/patch.diff to /repo in turn, run the quick check of its own
property (and of the properties listed in EXTRA), record the outcome in meta.json, revert.
usage: tools/seedmatrix.py [--copy] [--seeds 1,2,3] [--own] [id-prefix ...]
  --copy   work on a scratch copy of /repo (VERIF_REPO) instead of /repo itself, so that other
           checks can run meanwhile; single-seed runs record the outcome in meta.json either way
  --seeds  run each check at several VERIF_SEED values
  --own    only the seeded change's own property"""
import json, os, subprocess, sys, glob
ROOT = os.path.dirname(os.path.dirname(os.path.abspath(__file__)))
EXTRA = {"C01-2A": ["C03", "C06"], "C02-2A": ["C01", "C06"], "C03-2A": ["C01", "C06"], "C04-2A": ["C13"], "C13-2B": ["C04"], "C05-2A": ["C01"], "C05-2B": ["C01"], "C06-2A": ["C02", "C01"], "C06-2B": ["C15"], "C07-2A": [], "C08-2A": ["C17"], "C17-2A": ["C08"], "C11-2A": ["C10", "C12"], "C12-2B": ["C10", "C11"], "C01-B": ["C05", "C03"], "C03-A": ["C05"], "C05-A": ["C03"], "C05-B": ["C03"], "C09-A": ["C08"], "C09-B": ["C08"], "C08-A": ["C17"], "C08-B": ["C09"], "C10-B": ["C11"], "C11-B": ["C10", "C12"], "C12-A": ["C11"], "C12-B": ["C11"], "C05-5C": ["C18"], "C09-5C": ["C01"], "C02-5C": ["C01"], "C03-4C": ["C05"], "C06-4C": ["C05"], "C06-6C": ["C15"], "C13-6C": ["C04"], "C04-6C": ["C13"], "C03-7C": ["C05"], "C03-9C": ["C01"], "C05-9C": ["C03"], "C06-10C": ["C14"], "C13-10C": ["C04"], "C05-11C": ["C18"], "C10-7C": ["C11"]}
def sh(cmd, **kw):
    return subprocess.run(cmd, shell=True, stdout=subprocess.PIPE, stderr=subprocess.STDOUT, text=True, **kw)
os.environ["VERIF_EVIDENCE_DIR"] = "/tmp/verif-mut-evidence"  # never clobber the committed evidence
args = sys.argv[1:]
COPY = "--copy" in args
OWN = "--own" in args
seeds = ["1"]
if "--seeds" in args:
    seeds = args[args.index("--seeds") + 1].split(",")
    del args[args.index("--seeds"):args.index("--seeds") + 2]
sel = [a for a in args if not a.startswith("--")]
REPO = "/repo"
if COPY:
    REPO = "/tmp/verif-mut-repo-%d" % os.getpid()
    sh("rm -rf %s && mkdir -p %s && rsync -a --exclude .git --exclude cmd /repo/ %s/ && cd %s && git init -q . && git add -A && git -c user.email=a@b -c user.name=x commit -qm base" % (REPO, REPO, REPO, REPO))
    os.environ["VERIF_REPO"] = REPO
elif sh("git -C /repo diff --quiet").returncode != 0:
    print("repo dirty"); sys.exit(2)
rows = []
for d in sorted(glob.glob(os.path.join(ROOT, "seeded", "*"))):
    k = os.path.basename(d)
    if sel and not any(k.startswith(s) for s in sel):
        continue
    meta = json.load(open(d + "/meta.json"))
    if sh("git -C %s apply %s/patch.diff" % (REPO, d)).returncode != 0:
        print(k, "PATCH DOES NOT APPLY"); continue
    try:
        res = {}
        for pid in [meta["property"]] + ([] if OWN else EXTRA.get(k, [])):
            for sd in seeds:
                r = sh("cd %s && VERIF_SEED=%s ./check %s --tier quick" % (ROOT, sd, pid))
                viol = [l for l in r.stdout.splitlines() if l.startswith("VIOLATION")]
                key = pid if len(seeds) == 1 else "%s@seed%s" % (pid, sd)
                res[key] = {"exit": r.returncode, "violation_lines": len(viol)}
        if len(seeds) == 1:
            meta["detected_by"] = res
            meta["ran"] = "git -C /repo apply seeded/%s/patch.diff; ./check <id> --tier quick (VERIF_SEED=1); git -C /repo checkout -- ." % k
            if COPY:
                meta["ran"] = "rsync copy of /repo's working tree -> scratch dir; git apply seeded/%s/patch.diff there; VERIF_REPO=<scratch> ./check <id> --tier quick (VERIF_SEED=%s); scratch dir removed" % (k, seeds[0])
            json.dump(meta, open(d + "/meta.json", "w"), indent=1)
        print(k, {p: v["exit"] for p, v in res.items()}, flush=True)
    finally:
        sh("git -C %s checkout -- ." % REPO)
if COPY:
    sh("rm -rf %s" % REPO)
