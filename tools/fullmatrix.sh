#!/bin/sh
# usage: tools/fullmatrix.sh [seed] — every seeded change against its own property's quick check, in
# three parallel partitions (each on its own scratch copy of /repo); prints the changes that stay silent
cd "$(dirname "$0")/.."
SEED=${1:-1}
python3 tools/seedmatrix.py --copy --own --seeds $SEED C01 C02 C03 C04 C05 C06 > /tmp/fullmatrix.$$.a 2>&1 &
python3 tools/seedmatrix.py --copy --own --seeds $SEED C07 C08 C09 C10 C11 C12 > /tmp/fullmatrix.$$.b 2>&1 &
python3 tools/seedmatrix.py --copy --own --seeds $SEED C13 C14 C15 C16 C17 C18 C19 > /tmp/fullmatrix.$$.c 2>&1 &
wait
cat /tmp/fullmatrix.$$.a /tmp/fullmatrix.$$.b /tmp/fullmatrix.$$.c | grep "^C" > /tmp/fullmatrix.$$.all
echo "changes run: $(wc -l < /tmp/fullmatrix.$$.all)"
echo "silent:"
grep -v "': 1}" /tmp/fullmatrix.$$.all
rm -f /tmp/fullmatrix.$$.*
