// Package jsonref is an independent, strict RFC 8259 recogniser and an
// order-preserving parser. It shares no code with zerolog's encoder.
package jsonref

import (
	"encoding/json"
	"fmt"
	"strconv"
	"unicode/utf16"
	"unicode/utf8"
)

type Kind int

const (
	Null Kind = iota
	Bool
	Num
	Str
	Arr
	Obj
)

func (k Kind) String() string {
	return [...]string{"null", "bool", "number", "string", "array", "object"}[k]
}

type Member struct {
	Key string
	Val *Node
}

// Node is a parsed JSON value. Numbers keep their raw text; strings are
// decoded; objects keep member order and duplicates.
type Node struct {
	Kind Kind
	B    bool
	Raw  string // number text
	S    string // decoded string
	A    []*Node
	O    []Member
	Pos  int // byte offsets of the value in the parsed input
	End  int
}

type parser struct {
	b   []byte
	pos int
}

func (p *parser) errf(f string, a ...interface{}) error {
	return fmt.Errorf("offset %d: %s", p.pos, fmt.Sprintf(f, a...))
}

// ValidateLine checks that line is exactly one JSON object, in valid UTF-8,
// followed by exactly one '\n', with no insignificant whitespace containing
// raw newlines or control bytes anywhere (zerolog emits none).
func ValidateLine(line []byte) (*Node, error) {
	if len(line) == 0 {
		return nil, fmt.Errorf("empty write")
	}
	if line[len(line)-1] != '\n' {
		return nil, fmt.Errorf("does not end with newline")
	}
	body := line[:len(line)-1]
	for i, c := range body {
		if c < 0x20 {
			return nil, fmt.Errorf("raw control byte 0x%02x at offset %d", c, i)
		}
	}
	if !utf8.Valid(body) {
		return nil, fmt.Errorf("invalid UTF-8")
	}
	p := &parser{b: body}
	if p.pos >= len(p.b) || p.b[p.pos] != '{' {
		return nil, p.errf("top-level value is not an object")
	}
	n, err := p.value(0)
	if err != nil {
		return nil, err
	}
	if p.pos != len(p.b) {
		return nil, p.errf("trailing bytes after object")
	}
	// cross-check with encoding/json (harness self-check)
	if !json.Valid(body) {
		return nil, fmt.Errorf("HARNESS-DISAGREEMENT: jsonref accepted, encoding/json rejects")
	}
	return n, nil
}

// Parse parses one JSON value (whitespace allowed around tokens).
func Parse(b []byte) (*Node, error) {
	p := &parser{b: b}
	p.ws()
	n, err := p.value(0)
	if err != nil {
		return nil, err
	}
	p.ws()
	if p.pos != len(p.b) {
		return nil, p.errf("trailing bytes")
	}
	return n, nil
}

func (p *parser) ws() {
	for p.pos < len(p.b) {
		switch p.b[p.pos] {
		case ' ', '\t', '\n', '\r':
			p.pos++
		default:
			return
		}
	}
}

func (p *parser) value(depth int) (*Node, error) {
	st := p.pos
	n, err := p.value1(depth)
	if n != nil {
		n.Pos, n.End = st, p.pos
	}
	return n, err
}

func (p *parser) value1(depth int) (*Node, error) {
	if depth > 2000 {
		return nil, p.errf("nesting too deep")
	}
	if p.pos >= len(p.b) {
		return nil, p.errf("unexpected end, value expected")
	}
	switch c := p.b[p.pos]; {
	case c == '{':
		p.pos++
		n := &Node{Kind: Obj}
		p.ws()
		if p.pos < len(p.b) && p.b[p.pos] == '}' {
			p.pos++
			return n, nil
		}
		for {
			p.ws()
			if p.pos >= len(p.b) || p.b[p.pos] != '"' {
				return nil, p.errf("object key expected")
			}
			k, err := p.str()
			if err != nil {
				return nil, err
			}
			p.ws()
			if p.pos >= len(p.b) || p.b[p.pos] != ':' {
				return nil, p.errf("':' expected")
			}
			p.pos++
			p.ws()
			v, err := p.value(depth + 1)
			if err != nil {
				return nil, err
			}
			n.O = append(n.O, Member{k, v})
			p.ws()
			if p.pos >= len(p.b) {
				return nil, p.errf("unterminated object")
			}
			if p.b[p.pos] == ',' {
				p.pos++
				continue
			}
			if p.b[p.pos] == '}' {
				p.pos++
				return n, nil
			}
			return nil, p.errf("',' or '}' expected, got %q", p.b[p.pos])
		}
	case c == '[':
		p.pos++
		n := &Node{Kind: Arr}
		p.ws()
		if p.pos < len(p.b) && p.b[p.pos] == ']' {
			p.pos++
			return n, nil
		}
		for {
			p.ws()
			v, err := p.value(depth + 1)
			if err != nil {
				return nil, err
			}
			n.A = append(n.A, v)
			p.ws()
			if p.pos >= len(p.b) {
				return nil, p.errf("unterminated array")
			}
			if p.b[p.pos] == ',' {
				p.pos++
				continue
			}
			if p.b[p.pos] == ']' {
				p.pos++
				return n, nil
			}
			return nil, p.errf("',' or ']' expected, got %q", p.b[p.pos])
		}
	case c == '"':
		s, err := p.str()
		if err != nil {
			return nil, err
		}
		return &Node{Kind: Str, S: s}, nil
	case c == 't':
		return p.lit("true", &Node{Kind: Bool, B: true})
	case c == 'f':
		return p.lit("false", &Node{Kind: Bool})
	case c == 'n':
		return p.lit("null", &Node{Kind: Null})
	case c == '-' || (c >= '0' && c <= '9'):
		return p.num()
	default:
		return nil, p.errf("unexpected byte %q", c)
	}
}

func (p *parser) lit(s string, n *Node) (*Node, error) {
	if p.pos+len(s) > len(p.b) || string(p.b[p.pos:p.pos+len(s)]) != s {
		return nil, p.errf("bad literal")
	}
	p.pos += len(s)
	return n, nil
}

func (p *parser) num() (*Node, error) {
	st := p.pos
	if p.b[p.pos] == '-' {
		p.pos++
	}
	if p.pos >= len(p.b) {
		return nil, p.errf("bad number")
	}
	if p.b[p.pos] == '0' {
		p.pos++
	} else if p.b[p.pos] >= '1' && p.b[p.pos] <= '9' {
		for p.pos < len(p.b) && p.b[p.pos] >= '0' && p.b[p.pos] <= '9' {
			p.pos++
		}
	} else {
		return nil, p.errf("bad number")
	}
	if p.pos < len(p.b) && p.b[p.pos] == '.' {
		p.pos++
		d := 0
		for p.pos < len(p.b) && p.b[p.pos] >= '0' && p.b[p.pos] <= '9' {
			p.pos++
			d++
		}
		if d == 0 {
			return nil, p.errf("bad number: no digits after '.'")
		}
	}
	if p.pos < len(p.b) && (p.b[p.pos] == 'e' || p.b[p.pos] == 'E') {
		p.pos++
		if p.pos < len(p.b) && (p.b[p.pos] == '+' || p.b[p.pos] == '-') {
			p.pos++
		}
		d := 0
		for p.pos < len(p.b) && p.b[p.pos] >= '0' && p.b[p.pos] <= '9' {
			p.pos++
			d++
		}
		if d == 0 {
			return nil, p.errf("bad number: no exponent digits")
		}
	}
	return &Node{Kind: Num, Raw: string(p.b[st:p.pos])}, nil
}

func hexv(c byte) int {
	switch {
	case c >= '0' && c <= '9':
		return int(c - '0')
	case c >= 'a' && c <= 'f':
		return int(c-'a') + 10
	case c >= 'A' && c <= 'F':
		return int(c-'A') + 10
	}
	return -1
}

func (p *parser) u4() (rune, error) {
	if p.pos+4 > len(p.b) {
		return 0, p.errf("short \\u escape")
	}
	var r rune
	for i := 0; i < 4; i++ {
		h := hexv(p.b[p.pos+i])
		if h < 0 {
			return 0, p.errf("bad hex digit in \\u escape")
		}
		r = r<<4 | rune(h)
	}
	p.pos += 4
	return r, nil
}

func (p *parser) str() (string, error) {
	p.pos++ // opening quote
	var out []byte
	for {
		if p.pos >= len(p.b) {
			return "", p.errf("unterminated string")
		}
		c := p.b[p.pos]
		switch {
		case c == '"':
			p.pos++
			return string(out), nil
		case c < 0x20:
			return "", p.errf("raw control byte 0x%02x in string", c)
		case c == '\\':
			p.pos++
			if p.pos >= len(p.b) {
				return "", p.errf("unterminated escape")
			}
			e := p.b[p.pos]
			p.pos++
			switch e {
			case '"', '\\', '/':
				out = append(out, e)
			case 'b':
				out = append(out, '\b')
			case 'f':
				out = append(out, '\f')
			case 'n':
				out = append(out, '\n')
			case 'r':
				out = append(out, '\r')
			case 't':
				out = append(out, '\t')
			case 'u':
				r, err := p.u4()
				if err != nil {
					return "", err
				}
				if utf16.IsSurrogate(r) {
					// a valid pair, else U+FFFD as encoding/json does
					if p.pos+6 <= len(p.b) && p.b[p.pos] == '\\' && p.b[p.pos+1] == 'u' {
						save := p.pos
						p.pos += 2
						r2, err := p.u4()
						if err != nil {
							return "", err
						}
						if dec := utf16.DecodeRune(r, r2); dec != utf8.RuneError {
							r = dec
						} else {
							p.pos = save
							r = utf8.RuneError
						}
					} else {
						r = utf8.RuneError
					}
				}
				out = utf8.AppendRune(out, r)
			default:
				return "", p.errf("illegal escape \\%c", e)
			}
		case c < utf8.RuneSelf:
			out = append(out, c)
			p.pos++
		default:
			r, sz := utf8.DecodeRune(p.b[p.pos:])
			if r == utf8.RuneError && sz == 1 {
				return "", p.errf("invalid UTF-8 in string")
			}
			out = append(out, p.b[p.pos:p.pos+sz]...)
			p.pos += sz
		}
	}
}

// Equal compares two nodes as decoded values: object member order and
// duplicates matter, numbers are compared as numbers (exact text equality,
// or equal float64 and equal big-int when both are integers).
func Equal(a, b *Node) bool {
	if a.Kind != b.Kind {
		return false
	}
	switch a.Kind {
	case Null:
		return true
	case Bool:
		return a.B == b.B
	case Num:
		return NumEqual(a.Raw, b.Raw)
	case Str:
		return a.S == b.S
	case Arr:
		if len(a.A) != len(b.A) {
			return false
		}
		for i := range a.A {
			if !Equal(a.A[i], b.A[i]) {
				return false
			}
		}
		return true
	case Obj:
		if len(a.O) != len(b.O) {
			return false
		}
		for i := range a.O {
			if a.O[i].Key != b.O[i].Key || !Equal(a.O[i].Val, b.O[i].Val) {
				return false
			}
		}
		return true
	}
	return false
}

func isIntText(s string) bool {
	for i, c := range s {
		if c == '-' && i == 0 {
			continue
		}
		if c < '0' || c > '9' {
			return false
		}
	}
	return true
}

// NumEqual: numeric equality of two JSON number texts.
func NumEqual(a, b string) bool {
	if a == b {
		return true
	}
	if isIntText(a) && isIntText(b) {
		return false // different canonical integer texts (no leading zeros possible)
	}
	fa, ea := strconv.ParseFloat(a, 64)
	fb, eb := strconv.ParseFloat(b, 64)
	return ea == nil && eb == nil && fa == fb
}

// String renders a node compactly (for diagnostics).
func (n *Node) String() string {
	switch n.Kind {
	case Null:
		return "null"
	case Bool:
		return strconv.FormatBool(n.B)
	case Num:
		return n.Raw
	case Str:
		return strconv.Quote(n.S)
	case Arr:
		s := "["
		for i, e := range n.A {
			if i > 0 {
				s += ","
			}
			s += e.String()
		}
		return s + "]"
	case Obj:
		s := "{"
		for i, m := range n.O {
			if i > 0 {
				s += ","
			}
			s += strconv.Quote(m.Key) + ":" + m.Val.String()
		}
		return s + "}"
	}
	return "?"
}
