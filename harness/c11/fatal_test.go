// C11 (real-runtime part) — the Fatal path: Logger.Fatal closes the diode writer, which must
// deliver everything still in the ring before the process exits with status 1. The schedule
// search over the instrumented diode lives in /verif/sched/diodecheck.
package c11

import (
	"bytes"
	"fmt"
	"io"
	"os"
	"os/exec"
	"strings"
	"testing"
	"time"

	"github.com/rs/zerolog"
	"github.com/rs/zerolog/diode"
	"verif/harness/ev"
)

var rec = ev.New("C11", "real-runtime Fatal path: a re-executed child logs N messages through a diode.Writer (waiter or poller mode, optionally behind a FilteredLevelWriter, MultiLevelWriter, SyncWriter, LevelWriterAdapter, a ConsoleWriter passed by value or a nest of these, also beside a second diode whose destination rejects every message) and then calls Logger.Fatal (the fatal event written, or filtered out by a child logger's level, the global level or a rejecting sampler); also with a wrapped writer so slow that draining takes ~6 s, and with a second Fatal call from another goroutine while the first one drains; the parent requires exit status 1 and all N messages plus the fatal message on the child's stdout, in order")

func TestMain(m *testing.M) {
	if c := os.Getenv("VERIF_C11_CHILD"); c != "" {
		child(c)
		return
	}
	code := m.Run()
	rec.Flush()
	os.Exit(code)
}

func child(c string) {
	var n int
	var mode, wrap string
	fmt.Sscanf(c, "%d %s %s", &n, &mode, &wrap)
	poll := time.Duration(0)
	if mode == "poller" {
		poll = 2 * time.Millisecond
	}
	var dst io.Writer = os.Stdout
	if ms := os.Getenv("VERIF_C11_SLOW_MS"); ms != "" {
		d, _ := time.ParseDuration(ms + "ms")
		dst = slowWriter{os.Stdout, d}
	}
	dw := diode.NewWriter(dst, 4096, poll, func(missed int) { fmt.Printf("MISSED %d\n", missed) })
	var l zerolog.Logger
	switch wrap {
	case "filtered":
		l = zerolog.New(&zerolog.FilteredLevelWriter{Writer: zerolog.LevelWriterAdapter{Writer: dw}, Level: zerolog.TraceLevel})
	case "multi":
		l = zerolog.New(zerolog.MultiLevelWriter(dw))
	case "console":
		// a ConsoleWriter handed to New by value, printing to the diode
		l = zerolog.New(zerolog.ConsoleWriter{Out: dw, NoColor: true, PartsExclude: []string{zerolog.TimestampFieldName}})
	case "sync":
		l = zerolog.New(zerolog.SyncWriter(dw))
	case "adapter":
		l = zerolog.New(zerolog.LevelWriterAdapter{Writer: dw})
	case "nested":
		l = zerolog.New(zerolog.MultiLevelWriter(zerolog.SyncWriter(&zerolog.FilteredLevelWriter{Writer: zerolog.LevelWriterAdapter{Writer: dw}, Level: zerolog.TraceLevel})))
	case "multi2fail":
		// two diodes behind one fan-out; the first one's destination rejects every message: the second
		// diode must still be drained when Fatal closes the fan-out
		zerolog.ErrorHandler = func(error) {}
		bad := diode.NewWriter(failingSink{}, 4096, poll, func(int) {})
		l = zerolog.New(zerolog.MultiLevelWriter(bad, dw))
	default:
		l = zerolog.New(dw)
	}
	for i := 0; i < n; i++ {
		l.Info().Int("i", i).Msg("pending")
	}
	switch os.Getenv("VERIF_C11_FATAL") {
	case "child-disabled":
		// the fatal event itself is filtered out: Fatal still exits, and still drains the ring first
		q := l.Level(zerolog.Disabled)
		q.Fatal().Msg("fatal")
	case "global-disabled":
		zerolog.SetGlobalLevel(zerolog.Disabled)
		l.Fatal().Msg("fatal")
	case "sampled-out":
		q := l.Sample(&zerolog.BasicSampler{N: 0})
		q.Fatal().Msg("fatal")
	case "two-fatals":
		// a second Fatal, on another logger that shares the writer, from another goroutine, while the first one
		// is still draining the ring: whichever of them ends the process, everything logged before is out first
		go func() {
			time.Sleep(100 * time.Millisecond)
			q := l.With().Str("who", "second").Logger()
			q.Fatal().Msg("fatal2")
		}()
		l.Fatal().Msg("fatal")
	default:
		l.Fatal().Msg("fatal")
	}
	fmt.Println("SURVIVED")
}

// failingSink rejects everything.
type failingSink struct{}

func (failingSink) Write(p []byte) (int, error) { return 0, fmt.Errorf("sink is down") }

// slowWriter takes its time over every line (a terminal, a pipe to a slow consumer, a network sink).
type slowWriter struct {
	w io.Writer
	d time.Duration
}

func (s slowWriter) Write(p []byte) (int, error) { time.Sleep(s.d); return s.w.Write(p) }

// runChild re-executes the test binary as a logging child and returns its exit code and output.
func runChild(t *testing.T, spec string, env ...string) (int, string) {
	cmd := exec.Command(os.Args[0], "-test.run=^$")
	cmd.Env = append(append(os.Environ(), "VERIF_C11_CHILD="+spec, "VERIF_EV_OUT="), env...)
	var out bytes.Buffer
	cmd.Stdout = &out
	cmd.Stderr = &out
	err := cmd.Run()
	code := 0
	if ee, ok := err.(*exec.ExitError); ok {
		code = ee.ExitCode()
	} else if err != nil {
		t.Fatalf("HARNESS-ERROR: cannot re-execute test binary: %v", err)
	}
	return code, out.String()
}

func TestFatalDrains(t *testing.T) {
	// a backlog that takes several seconds to drain (130 lines at 45 ms): Fatal exits only after the
	// last of them reached the wrapped writer, however long that takes; runs beside the other cases
	type slowRes struct {
		code int
		out  string
	}
	slowDone := make(chan slowRes, 1)
	go func() {
		code, out := runChild(t, "130 waiter plain", "VERIF_C11_SLOW_MS=45", "VERIF_C11_FATAL=written")
		slowDone <- slowRes{code, out}
	}()
	defer func() {
		r := <-slowDone
		lines := strings.Split(strings.TrimSpace(r.out), "\n")
		rec.Case([]byte("slow drain 130 x 45ms"), true, "fatal-path", "slow-drain")
		if r.code != 1 || len(lines) != 131 || !strings.Contains(lines[130], `"level":"fatal"`) || strings.Contains(r.out, "MISSED") {
			ev.SaveReplay("C11-fatal", map[string]interface{}{"mode": "waiter", "wrap": "plain", "n": 130, "slow_ms": 45})
			fmt.Printf("VERIF-FAIL: Fatal path [slow drain]: exit %d, %d of 131 lines delivered before the process exited\n", r.code, len(lines))
			t.Errorf("slow drain: exit %d, %d of 131 lines; tail %q", r.code, len(lines), tailStr(r.out))
		}
	}()
	// two Fatal calls overlapping: 60 lines at 20 ms are still draining when the second one comes
	twoDone := make(chan [2]slowRes, 1)
	go func() {
		var r [2]slowRes
		for i, mode := range []string{"waiter", "poller"} {
			r[i].code, r[i].out = runChild(t, "60 "+mode+" plain", "VERIF_C11_SLOW_MS=20", "VERIF_C11_FATAL=two-fatals")
		}
		twoDone <- r
	}()
	defer func() {
		for i, r := range <-twoDone {
			mode := []string{"waiter", "poller"}[i]
			lines := strings.Split(strings.TrimSpace(r.out), "\n")
			rec.Case([]byte("two fatals "+mode), true, "fatal-path", "two-fatals")
			bad := ""
			switch {
			case r.code != 1:
				bad = fmt.Sprintf("exit status %d, want 1", r.code)
			case strings.Contains(r.out, "MISSED"):
				bad = "messages reported dropped although fewer than the ring size were outstanding"
			case len(lines) < 61:
				bad = fmt.Sprintf("%d lines delivered before the process exited, want the 60 pending ones and the first fatal message", len(lines))
			default:
				for j := 0; j < 60; j++ {
					if !strings.Contains(lines[j], fmt.Sprintf(`"i":%d,`, j)) {
						bad = fmt.Sprintf("line %d is %q", j, lines[j])
						break
					}
				}
				if bad == "" && !strings.Contains(lines[60], `"message":"fatal"`) {
					bad = fmt.Sprintf("line 60 is %q, want the first fatal message", lines[60])
				}
			}
			if bad != "" {
				ev.SaveReplay("C11-fatal", map[string]interface{}{"mode": mode, "wrap": "plain", "n": 60, "slow_ms": 20, "fatal": "two-fatals"})
				fmt.Printf("VERIF-FAIL: Fatal path [two overlapping Fatal calls, %s]: %s\n", mode, bad)
				t.Errorf("two fatals (%s): %s; tail %q", mode, bad, tailStr(r.out))
			}
		}
	}()
	for _, mode := range []string{"waiter", "poller"} {
		for _, wrap := range []string{"plain", "filtered", "multi", "multi2fail", "console", "sync", "adapter", "nested"} {
			for _, n := range []int{0, 1, 7, 500, 3000} {
				for rep := 0; rep < 3; rep++ {
					// the third repetition of the small cases filters the fatal event out (by a child
					// logger's level, the global level, a rejecting sampler): nothing is written for
					// it, but what is already in the ring must still come out before the exit
					fatalKind := "written"
					if rep == 2 && n > 0 && n <= 500 {
						fatalKind = []string{"child-disabled", "global-disabled", "sampled-out"}[(n+len(wrap))%3]
					}
					cmd := exec.Command(os.Args[0], "-test.run=^$")
					cmd.Env = append(os.Environ(), fmt.Sprintf("VERIF_C11_CHILD=%d %s %s", n, mode, wrap), "VERIF_EV_OUT=", "VERIF_C11_FATAL="+fatalKind)
					var out bytes.Buffer
					cmd.Stdout = &out
					cmd.Stderr = &out
					err := cmd.Run()
					code := 0
					if ee, ok := err.(*exec.ExitError); ok {
						code = ee.ExitCode()
					} else if err != nil {
						t.Fatalf("HARNESS-ERROR: cannot re-execute test binary: %v", err)
					}
					key := fmt.Sprintf("%s %s n=%d fatal=%s", mode, wrap, n, fatalKind)
					wantLines := n + 1
					if fatalKind != "written" {
						wantLines = n
					}
					rec.Case([]byte(key), n > 0, "fatal-path")
					lines := strings.Split(strings.TrimSpace(out.String()), "\n")
					bad := ""
					switch {
					case code != 1:
						bad = fmt.Sprintf("exit status %d, want 1", code)
					case strings.Contains(out.String(), "SURVIVED"):
						bad = "Fatal did not exit"
					case strings.Contains(out.String(), "MISSED"):
						bad = "messages reported dropped although fewer than the ring size were outstanding"
					case len(lines) != wantLines:
						bad = fmt.Sprintf("%d lines on stdout, want %d pending (+ the fatal message unless it is filtered)", len(lines), n)
					default:
						for i := 0; i < n; i++ {
							tok := fmt.Sprintf(`"i":%d,`, i)
							if wrap == "console" {
								tok = fmt.Sprintf(" i=%d ", i)
							}
							if !strings.Contains(lines[i]+" ", tok) {
								bad = fmt.Sprintf("line %d is %q", i, lines[i])
								break
							}
						}
						if bad == "" && fatalKind == "written" && !strings.Contains(lines[n], `"level":"fatal"`) && !(wrap == "console" && strings.Contains(lines[n], "FTL")) {
							bad = fmt.Sprintf("last line is %q, want the fatal message", lines[n])
						}
					}
					if bad != "" {
						ev.SaveReplay("C11-fatal", map[string]interface{}{"mode": mode, "wrap": wrap, "n": n, "fatal": fatalKind})
						fmt.Printf("VERIF-FAIL: Fatal path [%s]: %s\n", key, bad)
						t.Fatalf("[%s] %s; output tail %q", key, bad, tailStr(out.String()))
					}
				}
			}
		}
	}
	rec.Sample(map[string]interface{}{"campaign": "Fatal path in a re-executed child", "modes": []string{"waiter", "poller"}, "wraps": []string{"plain", "filtered", "multi", "multi2fail", "console", "sync", "adapter", "nested"}, "pending": []int{0, 1, 7, 500, 3000}})
}

func tailStr(s string) string {
	if len(s) > 300 {
		return s[len(s)-300:]
	}
	return s
}
