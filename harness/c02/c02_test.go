// C02 — logged values decode back to what was logged, through every entry point.
package c02

import (
	"bytes"
	"encoding/json"
	"fmt"
	"math"
	"os"
	"strconv"
	"testing"

	"github.com/rs/zerolog"
	"pgregory.net/rapid"
	"verif/harness/ev"
	"verif/harness/jsonref"
	"verif/harness/lp"
)

const rule = "cases = (type, value, entry point, settings) tuples: exhaustive float32 sweep, integer boundary neighbourhoods (all values for 8/16-bit widths), Sigma-strings, time-format x time-class and duration-unit x class grids, and random logging programs; oracle = expected-value model (encoding/json float text at precision -1 and the documented strconv 'f' text with FloatingPointPrecision digits at the generated precisions 0,1,2,3,17,-2; exact integers, U+FFFD text) + raw-byte identity across entry points; non-trivial = value is not the type's zero value and not plain lower-case ASCII; distinct = FNV-64 of (type,value,entry point,settings) serialisation, enumerated spaces counted by construction"

var rec = ev.New("C02", rule)

func TestMain(m *testing.M) {
	code := m.Run()
	rec.Flush()
	os.Exit(code)
}

func fail(t interface{ Fatalf(string, ...interface{}) }, name string, p *lp.Program, msg string) {
	if p != nil {
		ev.SaveReplay("C02-"+name, p)
	}
	fmt.Printf("VERIF-FAIL: %s\n", msg)
	t.Fatalf("%s", msg)
}

func nontrivialVal(v lp.Val) bool {
	switch v.T {
	case "str", "bytes", "stringer", "anerr", "hex":
		for _, c := range v.S {
			if c < 'a' || c > 'z' {
				return true
			}
		}
		return false
	case "bool":
		return v.B
	case "int", "int8", "int16", "int32", "int64", "dur":
		return v.I != 0
	case "time":
		return !v.Zero
	default:
		return v.U != 0 || len(v.S) > 0 || v.If != nil || len(v.L) > 0
	}
}

// ---------------------------------------------------------------- float32 sweep

// checkF32Chunk pushes fs through Floats32 and compares each element with encoding/json.
func checkF32Chunk(fs []float32) string {
	var buf bytes.Buffer
	l := zerolog.New(&buf)
	l.Log().Floats32("f", fs).Send()
	n, err := jsonref.ValidateLine(buf.Bytes())
	if err != nil {
		return fmt.Sprintf("invalid JSON from Floats32: %v", err)
	}
	if len(n.O) != 1 || n.O[0].Key != "f" || n.O[0].Val.Kind != jsonref.Arr || len(n.O[0].Val.A) != len(fs) {
		return fmt.Sprintf("unexpected shape from Floats32: %.200s", buf.String())
	}
	// reference: encoding/json on the finite subset
	fin := make([]float32, 0, len(fs))
	for _, f := range fs {
		if !math.IsNaN(float64(f)) && !math.IsInf(float64(f), 0) {
			fin = append(fin, f)
		}
	}
	ref, err := json.Marshal(fin)
	if err != nil {
		return "HARNESS-ERROR: " + err.Error()
	}
	refs := bytes.Split(ref[1:len(ref)-1], []byte(","))
	ri := 0
	for i, f := range fs {
		e := n.O[0].Val.A[i]
		f64 := float64(f)
		switch {
		case math.IsNaN(f64):
			if e.Kind != jsonref.Str || e.S != "NaN" {
				return fmt.Sprintf("float32 0x%08x: want \"NaN\", got %s", math.Float32bits(f), e)
			}
		case math.IsInf(f64, 1):
			if e.Kind != jsonref.Str || e.S != "+Inf" {
				return fmt.Sprintf("float32 0x%08x: want \"+Inf\", got %s", math.Float32bits(f), e)
			}
		case math.IsInf(f64, -1):
			if e.Kind != jsonref.Str || e.S != "-Inf" {
				return fmt.Sprintf("float32 0x%08x: want \"-Inf\", got %s", math.Float32bits(f), e)
			}
		default:
			want := string(refs[ri])
			ri++
			if e.Kind != jsonref.Num || e.Raw != want {
				return fmt.Sprintf("float32 0x%08x: want %s (encoding/json), got %s", math.Float32bits(f), want, e)
			}
			back, perr := strconv.ParseFloat(e.Raw, 32)
			if perr != nil || float32(back) != f {
				return fmt.Sprintf("float32 0x%08x: %s does not parse back to the same float32", math.Float32bits(f), e.Raw)
			}
		}
	}
	return ""
}

func TestFloat32Sweep(t *testing.T) {
	sh, nsh := ev.Shard()
	const chunk = 4096
	fs := make([]float32, 0, chunk)
	var n, nt int64
	flush := func() {
		if len(fs) == 0 {
			return
		}
		if msg := checkF32Chunk(fs); msg != "" {
			p := lp.P(lp.DefaultSettings(), nil, lp.Ev(lp.KV("f", lp.Val{T: "floats32", L: f32Vals(fs)})))
			fail(t, "float32", p, msg)
		}
		fs = fs[:0]
	}
	add := func(bits uint32) {
		fs = append(fs, math.Float32frombits(bits))
		n++
		if bits&0x7fffffff != 0 {
			nt++
		}
		if len(fs) == chunk {
			flush()
		}
	}
	if ev.Thorough() {
		lo := uint64(sh) << 32 / uint64(nsh)
		hi := uint64(sh+1) << 32 / uint64(nsh)
		for b := lo; b < hi; b++ {
			add(uint32(b))
		}
		flush()
		rec.Bulk(n, nt, "float32-exhaustive")
		if nsh >= 1 {
			rec.Exhaustive(fmt.Sprintf("float32 bit patterns [%d,%d) of 2^32 through Floats32 (shard %d/%d)", lo, hi, sh, nsh))
		}
	} else {
		// stratified: every sign x exponent, 2048 mantissas each (boundaries + stride), plus ulp neighbourhoods of the format cut-offs
		seed := uint32(ev.Seed())
		for se := uint32(0); se < 512; se++ {
			for k := uint32(0); k < 2048; k++ {
				var mant uint32
				switch {
				case k < 16:
					mant = k
				case k < 32:
					mant = 0x7fffff - (k - 16)
				default:
					mant = (k*4099 + seed*2654435761) & 0x7fffff
				}
				add(se<<23 | mant)
			}
		}
		for _, c := range []float32{1e-6, 1e21, 1e-7, 1e20, 1e-5, 1e22, 16777216, 0.1, 1e-9, 1e-10} {
			b := math.Float32bits(c)
			for d := -64; d <= 64; d++ {
				add(uint32(int64(b) + int64(d)))
				add(uint32(int64(b)+int64(d)) | 0x80000000)
			}
		}
		flush()
		rec.Bulk(n, nt, "float32-stratified")
	}
	rec.Sample(map[string]interface{}{"campaign": "float32 sweep through Floats32 in 4096-element chunks", "count": n, "example_bits": []string{"0x00000001", "0x358637bd (1e-6)", "0x60ad78ec (1e21)", "0x7fc00000 (NaN)"}})
}

// checkF64Chunk: as checkF32Chunk for float64 through Floats64.
func checkF64Chunk(fs []float64) string {
	var buf bytes.Buffer
	l := zerolog.New(&buf)
	l.Log().Floats64("f", fs).Send()
	n, err := jsonref.ValidateLine(buf.Bytes())
	if err != nil {
		return fmt.Sprintf("invalid JSON from Floats64: %v", err)
	}
	if len(n.O) != 1 || n.O[0].Val.Kind != jsonref.Arr || len(n.O[0].Val.A) != len(fs) {
		return fmt.Sprintf("unexpected shape from Floats64: %.200s", buf.String())
	}
	ref, err := json.Marshal(fs)
	if err != nil {
		return "HARNESS-ERROR: " + err.Error()
	}
	refs := bytes.Split(ref[1:len(ref)-1], []byte(","))
	for i, f := range fs {
		e := n.O[0].Val.A[i]
		if e.Kind != jsonref.Num || e.Raw != string(refs[i]) {
			return fmt.Sprintf("float64 0x%016x: want %s (encoding/json), got %s", math.Float64bits(f), refs[i], e)
		}
		back, perr := strconv.ParseFloat(e.Raw, 64)
		if perr != nil || back != f {
			return fmt.Sprintf("float64 0x%016x: %s does not parse back to the same float64", math.Float64bits(f), e.Raw)
		}
	}
	return ""
}

// TestFloat64Stratified: every sign x exponent of float64 with boundary and strided mantissas,
// plus ulp neighbourhoods of the format cut-offs.
func TestFloat64Stratified(t *testing.T) {
	const chunk = 4096
	fs := make([]float64, 0, chunk)
	var n int64
	flush := func() {
		if len(fs) == 0 {
			return
		}
		if msg := checkF64Chunk(fs); msg != "" {
			l := make([]lp.Val, len(fs))
			for i, f := range fs {
				l[i] = lp.Val{T: "float64", U: math.Float64bits(f)}
			}
			fail(t, "float64", lp.P(lp.DefaultSettings(), nil, lp.Ev(lp.KV("f", lp.Val{T: "floats64", L: l}))), msg)
		}
		fs = fs[:0]
	}
	add := func(bits uint64) {
		f := math.Float64frombits(bits)
		if math.IsNaN(f) || math.IsInf(f, 0) {
			return
		}
		fs = append(fs, f)
		n++
		if len(fs) == chunk {
			flush()
		}
	}
	per := uint64(128)
	if ev.Thorough() {
		per = 2048
	}
	seed := uint64(ev.Seed())
	for se := uint64(0); se < 4096; se++ {
		for k := uint64(0); k < per; k++ {
			var mant uint64
			switch {
			case k < 8:
				mant = k
			case k < 16:
				mant = 1<<52 - 1 - (k - 8)
			default:
				mant = (k*0x9E3779B97F4A7C15 + seed*0xD1B54A32D192ED03) & (1<<52 - 1)
			}
			add(se<<52 | mant)
		}
	}
	for _, c := range []float64{1e-6, 1e21, 1e-7, 1e20, 1e-5, 1e22, 9007199254740992, 0.1, 1e-9, 1e-10, 1e100, 1e-100, 123456789.125} {
		b := math.Float64bits(c)
		for d := -256; d <= 256; d++ {
			add(uint64(int64(b) + int64(d)))
			add(uint64(int64(b)+int64(d)) | 1<<63)
		}
	}
	flush()
	rec.Bulk(n, n-2, "float64-stratified")
	rec.Sample(map[string]interface{}{"campaign": "float64 stratified sweep through Floats64", "count": n})
}

func f32Vals(fs []float32) []lp.Val {
	o := make([]lp.Val, len(fs))
	for i, f := range fs {
		o[i] = lp.Val{T: "float32", U: uint64(math.Float32bits(f))}
	}
	return o
}

// ---------------------------------------------------------------- entry-point equivalence + absolute value

// checkEntryPoints logs v through every entry point; all occurrences must carry identical
// raw bytes and match the expected-value model.
func checkEntryPoints(set lp.Settings, v lp.Val) (*lp.Program, string) {
	p := lp.AllEntryPoints(set, v)
	res := lp.Run(p)
	if is := lp.CheckResult(p, res, "full"); len(is) > 0 {
		return p, is[0].String()
	}
	if len(res.Dests[0]) != 1 {
		return p, fmt.Sprintf("expected 1 write, got %d", len(res.Dests[0]))
	}
	line := res.Dests[0][0].Data
	n, _ := jsonref.ValidateLine(line)
	var raws []string
	var names []string
	add := func(name string, x *jsonref.Node) {
		raws = append(raws, string(line[x.Pos:x.End]))
		names = append(names, name)
	}
	for _, m := range n.O {
		switch m.Key {
		case "ep:event", "ep:ctx", "ep:embed", "ep:func", "ep:fmap", "ep:fslice", "ep:fptr":
			add(m.Key, m.Val)
		case "ep:dict", "ep:obj":
			if m.Val.Kind == jsonref.Obj && len(m.Val.O) == 1 {
				add(m.Key, m.Val.O[0].Val)
			}
		case "ep:arr", "ep:arrm", "ep:slice", "ep:fsl":
			if m.Val.Kind == jsonref.Arr {
				for _, e := range m.Val.A {
					add(m.Key, e)
				}
			}
		}
	}
	if stateful(v) {
		// a marshaler that calls Stack() or Ctx() changes the state of the event it runs on, and with
		// it how a later occurrence of the same value on the same event is encoded (documented: Stack
		// applies to the errors logged after it). The value model above accounts for that; byte
		// equality between the occurrences on this one event is not implied.
		rec.Excluded("equivalence skipped: value changes the event's stack/ctx state")
		return p, ""
	}
	for i := 1; i < len(raws); i++ {
		if raws[i] != raws[0] {
			return p, fmt.Sprintf("type %s: entry point %s encodes %s but %s encodes %s; line %q", v.T, names[0], raws[0], names[i], raws[i], line)
		}
	}
	return p, ""
}

// stateful: does logging v run Stack() or Ctx() on the enclosing event (through an object marshaler)?
func stateful(v lp.Val) bool {
	var ops func([]lp.Op) bool
	var val func(lp.Val) bool
	var ifc func(*lp.Iface) bool
	ops = func(os []lp.Op) bool {
		for _, o := range os {
			if val(o.V) {
				return true
			}
		}
		return false
	}
	ifc = func(i *lp.Iface) bool {
		if i == nil {
			return false
		}
		if ops(i.Ops) {
			return true
		}
		for k := range i.L {
			if ifc(&i.L[k]) {
				return true
			}
		}
		return false
	}
	val = func(x lp.Val) bool {
		if x.T == "stack" || x.T == "ctx" {
			return true
		}
		for _, e := range x.L {
			if val(e) {
				return true
			}
		}
		return ops(x.Ops) || ifc(x.If)
	}
	return val(v)
}

func recVal(set lp.Settings, v lp.Val, class string) {
	b, _ := json.Marshal(struct {
		S lp.Settings
		V lp.Val
	}{set, v})
	rec.Case(b, nontrivialVal(v), class, "type:"+v.T)
}

var intWidths = []struct {
	t    string
	bits int
}{{"int", 64}, {"int8", 8}, {"int16", 16}, {"int32", 32}, {"int64", 64}}
var uintWidths = []struct {
	t    string
	bits int
}{{"uint", 64}, {"uint8", 8}, {"uint16", 16}, {"uint32", 32}, {"uint64", 64}}

func TestIntegerBoundaries(t *testing.T) {
	set := lp.DefaultSettings()
	var n int
	try := func(v lp.Val) {
		n++
		recVal(set, v, "int-boundary")
		if p, msg := checkEntryPoints(set, v); msg != "" {
			fail(t, "int", p, msg)
		}
	}
	bounds := []int64{math.MinInt64, -1 << 31, -65536, -32768, -256, -128, -24, -1, 0, 23, 24, 127, 128, 255, 256, 32767, 32768, 65535, 65536, 1<<31 - 1, 1 << 31, 1<<32 - 1, 1 << 32, 1<<53 - 1, 1 << 53, math.MaxInt64}
	for _, w := range intWidths {
		seen := map[int64]bool{}
		for _, b := range bounds {
			for d := int64(-3); d <= 3; d++ {
				x := b + d
				switch w.bits {
				case 8:
					x = int64(int8(x))
				case 16:
					x = int64(int16(x))
				case 32:
					x = int64(int32(x))
				}
				if !seen[x] {
					seen[x] = true
					try(lp.Val{T: w.t, I: x})
				}
			}
		}
	}
	ub := []uint64{0, 23, 24, 255, 256, 65535, 65536, 1<<32 - 1, 1 << 32, 1<<53 - 1, 1 << 53, 1<<63 - 1, 1 << 63, math.MaxUint64}
	for _, w := range uintWidths {
		seen := map[uint64]bool{}
		for _, b := range ub {
			for d := int64(-3); d <= 3; d++ {
				x := b + uint64(d)
				switch w.bits {
				case 8:
					x = uint64(uint8(x))
				case 16:
					x = uint64(uint16(x))
				case 32:
					x = uint64(uint32(x))
				}
				if !seen[x] {
					seen[x] = true
					try(lp.Val{T: w.t, U: x})
				}
			}
		}
	}
	// all 8-bit values through every entry point; all 16-bit values through the slice variant (one event each)
	for x := -128; x <= 127; x++ {
		try(lp.Val{T: "int8", I: int64(x)})
		try(lp.Val{T: "uint8", U: uint64(uint8(x))})
	}
	var l16, lu16 []lp.Val
	for x := -32768; x <= 32767; x++ {
		l16 = append(l16, lp.Val{T: "int16", I: int64(x)})
		lu16 = append(lu16, lp.Val{T: "uint16", U: uint64(uint16(x))})
	}
	for _, pv := range []lp.Val{{T: "ints16", L: l16}, {T: "uints16", L: lu16}} {
		p := lp.P(set, nil, lp.Ev(lp.KV("all16", pv)))
		if is := lp.Check(p, "full"); len(is) > 0 {
			fail(t, "int16", nil, is[0].String())
		}
		rec.Bulk(65536, 65535, "int16-exhaustive")
	}
	rec.Exhaustive("all int8/uint8 values through every entry point; all int16/uint16 values through Ints16/Uints16")
	rec.Sample(map[string]interface{}{"campaign": "integer boundaries", "count": n, "example": lp.AllEntryPoints(set, lp.Val{T: "uint64", U: 1 << 63})})
}

// sigmaStrings enumerates all Sigma-strings up to length maxLen.
func sigmaStrings(maxLen int, f func([]byte)) {
	var rec func(prefix []byte, l int)
	rec = func(prefix []byte, l int) {
		f(prefix)
		if l == maxLen {
			return
		}
		for _, s := range lp.Sigma {
			rec(append(append([]byte{}, prefix...), s...), l+1)
		}
	}
	rec(nil, 0)
}

func TestSigmaStrings(t *testing.T) {
	set := lp.DefaultSettings()
	maxLen := 2
	if ev.Thorough() {
		maxLen = 3
	}
	sh, nsh := ev.Shard()
	i := 0
	var n, nt int64
	sigmaStrings(maxLen, func(s []byte) {
		i++
		if i%nsh != sh {
			return
		}
		for _, typ := range []string{"str", "bytes", "anerr", "stringer"} {
			v := lp.Val{T: typ, S: s, EK: "plain"}
			if typ != "anerr" {
				v.EK = ""
			}
			n++
			if nontrivialVal(v) {
				nt++
			}
			if p, msg := checkEntryPoints(set, v); msg != "" {
				fail(t, "sigma", p, msg)
			}
		}
		// as key
		p := lp.P(set, []lp.Step{lp.With(lp.Op{K: s, V: lp.Val{T: "bool", B: true}})}, lp.Ev(lp.Op{K: s, V: lp.Val{T: "int", I: 1}},
			lp.Op{V: lp.Val{T: "fieldsmap", Ops: []lp.Op{{K: s, V: lp.Val{T: "int", I: 2}}}}}, lp.KV("d", lp.Val{T: "dict", Ops: []lp.Op{{K: s, V: lp.Val{T: "int", I: 3}}}})))
		n++
		nt++
		if is := lp.Check(p, "full"); len(is) > 0 {
			fail(t, "sigma-key", p, is[0].String())
		}
	})
	rec.Bulk(n, nt, "sigma-strings")
	rec.Exhaustive(fmt.Sprintf("all strings over the %d-symbol class alphabet up to length %d as Str/Bytes/AnErr/Stringer value through every entry point and as key", len(lp.Sigma), maxLen))
	rec.Sample(map[string]interface{}{"campaign": "sigma strings", "max_len": maxLen, "example": lp.AllEntryPoints(set, lp.Val{T: "bytes", S: []byte("\xc3\"\n")})})
}

func TestTimeAndDurationGrid(t *testing.T) {
	formats := []string{"RFC3339", "RFC3339Nano", "UNIX", "UNIXMS", "UNIXMICRO", "UNIXNANO", "Mon, 02 Jan 2006 15:04:05 MST", "2006-01-02", "é 2006 €", "15:04:05.000000000Z07:00"}
	secs := []int64{0, 1, -1, 1700000000, -86400, 4102444800, 2147483647, 2147483648, -2147483649, 4294967296, -9223372036, 9223372035, -62135596800, 253402300799}
	nsecs := []int64{0, 1, 999, 1000, 999999, 1000000, 500000000, 999999999}
	zones := []int{0, 3600, -28800, 19800, 1}
	for _, f := range formats {
		set := lp.DefaultSettings()
		set.TimeFormat = f
		nano := f == "UNIXMS" || f == "UNIXMICRO" || f == "UNIXNANO"
		for _, s := range secs {
			if nano && (s < -9223372036 || s > 9223372035) {
				continue
			}
			for _, ns := range nsecs {
				for _, z := range zones {
					if s+int64(z) < -62135596800 || s+int64(z) > 253402300799 {
						continue
					}
					v := lp.Val{T: "time", Sec: s, Nsec: ns, Zone: z}
					recVal(set, v, "time-grid")
					if p, msg := checkEntryPoints(set, v); msg != "" {
						fail(t, "time", p, msg)
					}
				}
			}
		}
		if nano {
			// the two ends of what UnixNano can express, to the nanosecond (the first and the last second of the
			// range are partial seconds)
			for _, e := range [][2]int64{{-9223372037, 145224192}, {-9223372037, 145224193}, {-9223372037, 500000000}, {-9223372037, 999999999}, {-9223372036, 0},
				{9223372036, 0}, {9223372036, 1}, {9223372036, 854775806}, {9223372036, 854775807}, {9223372035, 999999999}} {
				for _, z := range zones {
					v := lp.Val{T: "time", Sec: e[0], Nsec: e[1], Zone: z}
					recVal(set, v, "time-grid")
					if p, msg := checkEntryPoints(set, v); msg != "" {
						fail(t, "time", p, msg)
					}
				}
			}
		}
		if !nano {
			v := lp.Val{T: "time", Zero: true}
			recVal(set, v, "time-grid")
			if p, msg := checkEntryPoints(set, v); msg != "" {
				fail(t, "time", p, msg)
			}
		}
		// Timestamp() and TimeDiff under this format
		p := lp.P(set, []lp.Step{lp.With(lp.Op{V: lp.Val{T: "timestamp"}})}, lp.Ev(lp.Op{V: lp.Val{T: "timestamp"}}, lp.KV("td", lp.Val{T: "timediff", Sec: 10, Nsec: 5, Sec2: 3, Nse2: 7})))
		if is := lp.Check(p, "full"); len(is) > 0 {
			fail(t, "timestamp", p, is[0].String())
		}
	}
	units := []int64{1, 7, 1000, 1000000, 1000000000, 60000000000, 3600000000000}
	for _, u := range units {
		for _, di := range []bool{false, true} {
			set := lp.DefaultSettings()
			set.DurUnit, set.DurInt = u, di
			ds := []int64{0, 1, -1, u - 1, u, u + 1, -u, -u - 1, 3 * u / 2, 5, 1500000, 1000000007, math.MaxInt64, math.MinInt64, math.MinInt64 + 1, 123456789012345, 1140000000, 68400000000, 4104000000000}
			// 60 arbitrary values of growing magnitude (a fixed multiplicative sequence): how a quotient
			// rounds depends on all the digits, so a handful of round numbers says little
			x := uint64(0x9E3779B97F4A7C15)
			for k := 0; k < 60; k++ {
				x = x*6364136223846793005 + 1442695040888963407
				ds = append(ds, int64(x>>(63-uint(k)))*(1-2*int64(k%2)))
			}
			for _, d := range ds {
				v := lp.Val{T: "dur", I: d}
				recVal(set, v, "dur-grid")
				if p, msg := checkEntryPoints(set, v); msg != "" {
					fail(t, "dur", p, msg)
				}
			}
			for _, td := range [][4]int64{{10, 0, 3, 0}, {3, 0, 10, 0}, {5, 1, 5, 0}, {5, 0, 5, 1}, {9223372035, 0, -9223372036, 0}, {0, 999999999, 0, 0}} {
				v := lp.Val{T: "timediff", Sec: td[0], Nsec: td[1], Sec2: td[2], Nse2: td[3]}
				recVal(set, v, "timediff-grid")
				p := lp.P(set, nil, lp.Ev(lp.KV("td", v)))
				if is := lp.Check(p, "full"); len(is) > 0 {
					fail(t, "timediff", p, is[0].String())
				}
			}
		}
	}
	rec.Exhaustive("grid: 10 time formats x 14 seconds x 8 nanoseconds x 5 zones; 7 units x 2 integer flags x 79 durations")
}

// ---------------------------------------------------------------- random

func c02cfg() lp.Cfg {
	c := lp.DefaultCfg()
	c.NoHooks = true
	return c
}

func TestRapidValues(t *testing.T) {
	rapid.Check(t, func(rt *rapid.T) {
		g := lp.NewG(rt, c02cfg())
		set := g.Settings()
		set.ErrMarshal = ""
		if set.StackMarshal != "" && set.StackMarshal != "string" {
			set.StackMarshal = ""
		}
		typ := rapid.SampledFrom(valueTypes).Draw(rt, "typ")
		v := g.ValOf(typ, "event", 2, "v")
		recVal(set, v, "rapid-entrypoints")
		if p, msg := checkEntryPoints(set, v); msg != "" {
			fail(rt, "rapid-value", p, msg)
		}
	})
}

var valueTypes = []string{"str", "stringer", "bytes", "hex", "rawjson", "rawcbor", "bool", "int", "int8", "int16", "int32", "int64", "uint", "uint8", "uint16", "uint32", "uint64",
	"float32", "float64", "float32", "float64", "time", "dur", "timediff", "anerr", "iface", "type", "ip", "ipnet", "mac"}

func TestRapidPrograms(t *testing.T) {
	rapid.Check(t, func(rt *rapid.T) {
		g := lp.NewG(rt, c02cfg())
		p := g.Program(3, 2)
		p.Set.ErrMarshal = ""
		if p.Set.StackMarshal != "" && p.Set.StackMarshal != "string" {
			p.Set.StackMarshal = ""
		}
		b, _ := json.Marshal(p)
		cl := lp.Classify(p)
		rec.Case(b, cl.NonTrivial(), "rapid-program")
		rec.Sample(json.RawMessage(b))
		if is := lp.Check(p, "values"); len(is) > 0 {
			fail(rt, "rapid-program", p, is[0].String())
		}
	})
}

func TestReplay(t *testing.T) {
	f := os.Getenv("VERIF_REPLAY")
	if f == "" {
		t.Skip("no VERIF_REPLAY")
	}
	replayFile(t, f)
}

func replayFile(t *testing.T, f string) {
	b, err := os.ReadFile(f)
	if err != nil {
		t.Fatal(err)
	}
	var p lp.Program
	if err := json.Unmarshal(b, &p); err != nil {
		t.Fatal(err)
	}
	rec.Case(b, true, "replay")
	rec.Case(append(b, 1), true, "replay")
	rec.Sample(json.RawMessage(b))
	if is := lp.Check(&p, "values"); len(is) > 0 {
		fail(t, "replay", &p, is[0].String())
	}
}

func TestRegress(t *testing.T) {
	fs, _ := os.ReadDir(os.Getenv("VERIF_ROOT") + "/known/regress/C02")
	for _, e := range fs {
		replayFile(t, os.Getenv("VERIF_ROOT")+"/known/regress/C02/"+e.Name())
	}
}
