module verif/harness

go 1.23

toolchain go1.23.5

require (
	github.com/pkg/errors v0.9.1
	github.com/rs/xid v1.6.0
	github.com/rs/zerolog v0.0.0
	pgregory.net/rapid v1.3.0
)

require (
	github.com/coreos/go-systemd/v22 v22.5.0 // indirect
	github.com/mattn/go-colorable v0.1.13 // indirect
	github.com/mattn/go-isatty v0.0.19 // indirect
	golang.org/x/sys v0.12.0 // indirect
)

replace github.com/rs/zerolog => /repo
