//go:build !binary_log

// C16 — ConsoleWriter renders every event losslessly and deterministically.
package c16

import (
	"bytes"
	"encoding/json"
	"fmt"
	"io"
	"os"
	"path/filepath"
	"regexp"
	"sort"
	"strconv"
	"strings"
	"testing"
	"time"
	"unicode/utf8"

	"github.com/rs/zerolog"
	"pgregory.net/rapid"
	"verif/harness/ev"
	"verif/harness/jsonref"
	"verif/harness/lp"
)

const rule = "cases = (event emitted by the JSON logger for a generated logging program: every value type, nesting, duplicate keys, keys equal to part names, the empty key) x ConsoleWriter options (PartsOrder = permutation of a subset of the four standard parts, PartsExclude, FieldsOrder, FieldsExclude, TimeFormat, TimeLocation, TimeFieldFormat), NoColor, default formatters. oracle = reference renderer: fields section exact (error first then lexical; with FieldsOrder the named fields first, rest lexical, error anywhere once), parts prefix exact when every configured part is present with its usual type; Write returns (len, nil); same event twice gives the same bytes. non-trivial = event with >=3 extra fields including one that needs quoting or is non-scalar, under a non-default option; distinct = FNV-64 of (event line, options)"

var rec = ev.New("C16", rule)

func TestMain(m *testing.M) {
	os.Unsetenv("NO_COLOR")
	code := m.Run()
	rec.Flush()
	os.Exit(code)
}

type Opts struct {
	PartsOrder    []string `json:"parts_order"` // nil = default
	PartsExclude  []string `json:"parts_exclude,omitempty"`
	FieldsOrder   []string `json:"fields_order,omitempty"`
	FieldsExclude []string `json:"fields_exclude,omitempty"`
	TimeFormat    string   `json:"time_format,omitempty"`
	Zone          *int     `json:"zone,omitempty"` // nil = TimeLocation nil (time.Local)
	// CustomFmt: FormatFieldName/Value and FormatErrFieldName/Value are set to marker-adding functions
	// (<name>: [value] for fields, !name= {value} for the error field): every field still appears
	// exactly once, through the formatter pair that belongs to it
	CustomFmt bool `json:"custom_field_formatters,omitempty"`
	// ViaNew: the writer comes from NewConsoleWriter (configured with decoy options) and gets its real
	// options assigned afterwards
	ViaNew bool `json:"via_new_console_writer,omitempty"`
	// CustomParts: FormatTimestamp/Level/Caller/Message are marker-adding functions (T(v) L(v) C(v) M(v)
	// with v the decoded value, <nil> when the event lacks the part): every configured part appears,
	// in PartsOrder, through the formatter that belongs to it
	CustomParts bool `json:"custom_part_formatters,omitempty"`
	// Prepare: FormatPrepare adds the field prepared=yes to the decoded event; Extra: FormatExtra
	// appends " EXTRA" after the last field
	Prepare bool `json:"format_prepare,omitempty"`
	Extra   bool `json:"format_extra,omitempty"`
}

type Case struct {
	Set  lp.Settings `json:"settings"`
	Line []byte      `json:"line"`
	Opts Opts        `json:"opts"`
	// Chdirs: working directories entered one after the other, the event rendered before each move
	Chdirs []string `json:"chdirs,omitempty"`
}

func wrapIf(w bool, s string) string {
	if w {
		return `{"w":` + s + "}"
	}
	return s
}

// failingOut accepts room bytes, then fails.
type failingOut struct{ room int }

func (f *failingOut) Write(p []byte) (int, error) {
	if len(p) <= f.room {
		f.room -= len(p)
		return len(p), nil
	}
	n := f.room
	f.room = 0
	return n, fmt.Errorf("out is full")
}

func needsQuote(s string) bool {
	for i := 0; i < len(s); i++ {
		c := s[i]
		if c < 0x20 || c > 0x7e || c == ' ' || c == '\\' || c == '"' {
			return true
		}
	}
	return false
}

// refMarshal: compact JSON of a decoded value as encoding/json renders it.
func refMarshal(v interface{}, std bool) string {
	if std {
		b, err := json.Marshal(v)
		if err != nil {
			return "<marshal error>"
		}
		return string(b)
	}
	var buf bytes.Buffer
	enc := json.NewEncoder(&buf)
	enc.SetEscapeHTML(false)
	if err := enc.Encode(v); err != nil {
		return "<marshal error>"
	}
	return strings.TrimSuffix(buf.String(), "\n")
}

func fieldNames(set lp.Settings) (level, ts, msg, caller, errf string) {
	name := func(p *[]byte, def string) string {
		if p == nil {
			return def
		}
		return lp.ValidText(*p)
	}
	return name(set.LevelField, "level"), name(set.TimeField, "time"), name(set.MessageField, "message"), name(set.CallerField, "caller"), name(set.ErrorField, "error")
}

func newDecoyWriter() zerolog.ConsoleWriter {
	return zerolog.NewConsoleWriter(func(x *zerolog.ConsoleWriter) {
		x.Out, x.NoColor = io.Discard, true
		x.FieldsOrder = []string{"zz", "absent", "b", "a"}
		x.FieldsExclude = []string{"nothing"}
		x.PartsExclude = []string{"none"}
	})
}

// check renders c and compares with the reference. Returns "", fullyChecked, nontrivial.
func check(c *Case) (msg string, full bool, nontrivial bool) {
	// a writer built by NewConsoleWriter at start-up, before the application sets its globals (every other
	// case): whatever the constructor looks at then must not stick
	var early *zerolog.ConsoleWriter
	if c.Opts.ViaNew && len(c.Line)%2 == 0 && c.Set.LevelField == nil && c.Set.TimeField == nil && c.Set.MessageField == nil && c.Set.CallerField == nil {
		// (NewConsoleWriter fills PartsOrder with the part names of the moment: with field names customised
		// later, those entries name ordinary fields, which is what PartsOrder then says)
		e := newDecoyWriter()
		early = &e
	}
	restore := c.Set.Apply()
	defer restore()
	// decode with the references (last duplicate wins)
	node, err := jsonref.ValidateLine(c.Line)
	if err != nil {
		return "", false, false // not an event the JSON logger can emit (C01's domain)
	}
	var evt map[string]interface{}
	d := json.NewDecoder(bytes.NewReader(c.Line))
	d.UseNumber()
	if err := d.Decode(&evt); err != nil {
		return "HARNESS-ERROR: encoding/json cannot decode a valid line: " + err.Error(), false, false
	}
	_ = node
	var out bytes.Buffer
	w := zerolog.ConsoleWriter{Out: &out, NoColor: true, PartsOrder: c.Opts.PartsOrder, PartsExclude: c.Opts.PartsExclude, FieldsOrder: c.Opts.FieldsOrder,
		FieldsExclude: c.Opts.FieldsExclude, TimeFormat: c.Opts.TimeFormat}
	if c.Opts.ViaNew {
		// built by NewConsoleWriter with other options first, reconfigured afterwards (an application
		// applying its configuration to a writer it was handed): the fields set last are what counts
		w = newDecoyWriter()
		if early != nil {
			w = *early
		}
		w.Out = &out
		w.FieldsOrder, w.FieldsExclude, w.PartsExclude, w.TimeFormat = c.Opts.FieldsOrder, c.Opts.FieldsExclude, c.Opts.PartsExclude, c.Opts.TimeFormat
		if c.Opts.PartsOrder != nil {
			w.PartsOrder = c.Opts.PartsOrder
		}
	}
	if len(c.Line)%3 == 1 {
		// the option slices as an application may well hold them: views of one array (a parsed configuration
		// line split in place), the first with room to spare behind it -- the room is the next option's
		ex, ord, pe := c.Opts.FieldsExclude, c.Opts.FieldsOrder, w.PartsExclude
		backing := make([]string, 0, len(ex)+len(ord)+len(pe)+8)
		backing = append(append(append(backing, ex...), ord...), pe...)
		if ex != nil {
			w.FieldsExclude = backing[:len(ex)]
		}
		if ord != nil {
			w.FieldsOrder = backing[len(ex) : len(ex)+len(ord)]
		}
		if pe != nil {
			w.PartsExclude = backing[len(ex)+len(ord) : len(ex)+len(ord)+len(pe)]
		}
	}
	if c.Opts.CustomFmt {
		w.FormatFieldName = func(i interface{}) string { return fmt.Sprintf("<%s>:", i) }
		w.FormatFieldValue = func(i interface{}) string { return fmt.Sprintf("[%s]", i) }
		w.FormatErrFieldName = func(i interface{}) string { return fmt.Sprintf("!%s=", i) }
		w.FormatErrFieldValue = func(i interface{}) string { return fmt.Sprintf("{%s}", i) }
	}
	if c.Opts.CustomParts {
		w.FormatTimestamp = func(i interface{}) string { return fmt.Sprintf("T(%v)", i) }
		w.FormatLevel = func(i interface{}) string { return fmt.Sprintf("L(%v)", i) }
		w.FormatCaller = func(i interface{}) string { return fmt.Sprintf("C(%v)", i) }
		w.FormatMessage = func(i interface{}) string { return fmt.Sprintf("M(%v)", i) }
	}
	if c.Opts.Prepare {
		w.FormatPrepare = func(m map[string]interface{}) error { m["prepared"] = "yes"; return nil }
		evt["prepared"] = "yes"
	}
	if c.Opts.Extra {
		w.FormatExtra = func(m map[string]interface{}, b *bytes.Buffer) error { b.WriteString(" EXTRA"); return nil }
	}
	loc := time.Local
	if c.Opts.Zone != nil {
		loc = time.FixedZone("Z", *c.Opts.Zone)
		if *c.Opts.Zone == 0 {
			loc = time.UTC
		}
		w.TimeLocation = loc
	}
	if len(c.Chdirs) > 0 {
		// environment history: the event is rendered in other working directories first (the default
		// caller formatter shortens paths against the directory of the moment), the check itself
		// then happens in the last one
		if orig, err := os.Getwd(); err == nil {
			defer os.Chdir(orig)
			for _, d := range c.Chdirs {
				w.Write(c.Line)
				os.Chdir(d)
			}
			out.Reset()
		}
	}
	n, werr := w.Write(c.Line)
	if werr != nil || n != len(c.Line) {
		return fmt.Sprintf("Write returned (%d, %v) for a %d-byte event", n, werr, len(c.Line)), false, false
	}
	got := out.String()
	// history independence: an event whose output could not be delivered (failing or short
	// Out) must not leak into later renderings
	for _, room := range []int{0, 3} {
		fw := w
		fw.Out = &failingOut{room: room}
		fw.Write(c.Line)
		fw.Write([]byte("{\"level\":\"warn\",\"lost\":\"" + strings.Repeat("x", 40) + "\"}\n"))
	}
	// ... and neither must events that were delivered: differently shaped lines (every part
	// present, none present, many fields, nested values, another level/time/caller, a broken
	// line) go through the same writer before the event is rendered again
	for _, other := range historyLines {
		w.Write([]byte(other))
	}
	// ... nor, last thing before the event is rendered again, one that a callback of the program refused (FormatPrepare / FormatExtra returning an error)
	{
		fw := w
		fw.Out = io.Discard
		fw.FormatPrepare = func(map[string]interface{}) error { return fmt.Errorf("not this one") }
		fw.Write([]byte(`{"level":"warn","refused":"by FormatPrepare","zz":1,"aa":[1,2]}` + "\n"))
		fw.FormatPrepare = nil
		fw.FormatExtra = func(map[string]interface{}, *bytes.Buffer) error { return fmt.Errorf("nor this one") }
		fw.Write([]byte(`{"level":"warn","refused":"by FormatExtra","yy":2,"error":"e"}` + "\n"))
	}
	out.Reset()
	w.Write(c.Line)
	if out.String() != got {
		return fmt.Sprintf("same event rendered twice gives different bytes: %q vs %q", got, out.String()), false, false
	}
	// names and the message part are printed verbatim (they may themselves contain a newline);
	// the line must end with exactly one newline after the last field
	if !strings.HasSuffix(got, "\n") {
		return fmt.Sprintf("output does not end with a newline: %q", got), false, false
	}
	lvlF, tsF, msgF, callerF, errF := fieldNames(c.Set)
	// ---- fields section
	excluded := map[string]bool{}
	for _, e := range c.Opts.FieldsExclude {
		excluded[e] = true
	}
	var names []string
	for k := range evt {
		if excluded[k] || k == lvlF || k == tsF || k == msgF || k == callerF {
			continue
		}
		names = append(names, k)
	}
	hasErr := false
	var rest []string
	for _, k := range names {
		if k == errF {
			hasErr = true
		} else {
			rest = append(rest, k)
		}
	}
	sort.Strings(rest)
	if len(c.Opts.FieldsOrder) > 0 {
		pos := map[string]int{}
		for i, f := range c.Opts.FieldsOrder {
			pos[f] = i
		}
		var ordered, others []string
		for _, k := range rest {
			if _, ok := pos[k]; ok {
				ordered = append(ordered, k)
			} else {
				others = append(others, k)
			}
		}
		sort.Slice(ordered, func(i, j int) bool { return pos[ordered[i]] < pos[ordered[j]] })
		rest = append(ordered, others...)
	}
	render := func(k string) string {
		name, val := k+"=", func(v string) string { return v }
		if c.Opts.CustomFmt {
			name, val = "<"+k+">:", func(v string) string { return "[" + v + "]" }
			if k == errF {
				name, val = "!"+k+"=", func(v string) string { return "{" + v + "}" }
			}
		}
		switch v := evt[k].(type) {
		case string:
			if needsQuote(v) {
				return name + val(strconv.Quote(v))
			}
			return name + val(v)
		case json.Number:
			return name + val(v.String())
		default:
			if c.Set.IfaceMarshal == "fail" && v != nil {
				// the program's InterfaceMarshalFunc gives up: the field is still there, once, with the error text
				return name + "[error: " + c.Set.IfaceErr + "]"
			}
			return name + val(wrapIf(c.Set.IfaceMarshal == "wrap" && v != nil, refMarshal(v, c.Set.IfaceMarshal != "")))
		}
	}
	var candidates []string
	toks := make([]string, len(rest))
	nQuoted, nComposite := 0, 0
	for i, k := range rest {
		toks[i] = render(k)
		switch v := evt[k].(type) {
		case string:
			if needsQuote(v) {
				nQuoted++
			}
		case json.Number:
		default:
			nComposite++
		}
	}
	if !hasErr {
		candidates = []string{strings.Join(toks, " ")}
	} else if len(c.Opts.FieldsOrder) == 0 {
		candidates = []string{strings.Join(append([]string{render(errF)}, toks...), " ")}
	} else {
		for p := 0; p <= len(toks); p++ {
			x := append(append(append([]string{}, toks[:p]...), render(errF)), toks[p:]...)
			candidates = append(candidates, strings.Join(x, " "))
		}
	}
	nontrivial = len(rest) >= 3 && (nQuoted+nComposite) > 0 && (c.Opts.PartsOrder != nil || len(c.Opts.PartsExclude) > 0 || len(c.Opts.FieldsOrder) > 0 || len(c.Opts.FieldsExclude) > 0 || c.Opts.TimeFormat != "" || c.Opts.Zone != nil)
	body := strings.TrimSuffix(got, "\n")
	if c.Opts.Extra {
		if !strings.HasSuffix(body, " EXTRA") {
			return fmt.Sprintf("FormatExtra's text is not at the end of the line: %q", got), false, nontrivial
		}
		body = strings.TrimSuffix(body, " EXTRA")
	}
	var prefix string
	matched := false
	for _, cand := range candidates {
		if strings.HasSuffix(body, cand) {
			p := body[:len(body)-len(cand)]
			if cand != "" && p != "" {
				if !strings.HasSuffix(p, " ") {
					continue
				}
				p = p[:len(p)-1]
			}
			prefix, matched = p, true
			break
		}
	}
	if !matched {
		return fmt.Sprintf("fields section: output %q does not end with the expected fields %q (event %q)", body, candidates[0], c.Line), false, nontrivial
	}
	// ---- parts prefix (only when every configured part is present with its usual type)
	parts := c.Opts.PartsOrder
	if parts == nil {
		parts = []string{tsF, lvlF, callerF, msgF}
	}
	pex := map[string]bool{}
	for _, e := range c.Opts.PartsExclude {
		pex[e] = true
	}
	full = true
	var ps []string
	for _, p := range parts {
		if pex[p] {
			continue
		}
		s := ""
		if c.Opts.CustomParts {
			switch p {
			case lvlF:
				s = fmt.Sprintf("L(%v)", evt[p])
			case tsF:
				s = fmt.Sprintf("T(%v)", evt[p])
			case msgF:
				s = fmt.Sprintf("M(%v)", evt[p])
			case callerF:
				s = fmt.Sprintf("C(%v)", evt[p])
			default:
				full = false
			}
			ps = append(ps, s)
			continue
		}
		// a name can stand for several parts when field names were configured equal: first match in
		// the writer's switch order (level, timestamp, message, caller)
		switch p {
		case lvlF:
			v, ok := evt[p].(string)
			lv, perr := zerolog.ParseLevel(v)
			fl, known := zerolog.FormattedLevels[lv]
			if !ok || perr != nil || !known || v == "" {
				full = false
			}
			s = fl
		case tsF:
			switch v := evt[p].(type) {
			case string:
				t, err := time.ParseInLocation(zerolog.TimeFieldFormat, v, loc)
				if err != nil {
					full = false
				}
				tf := c.Opts.TimeFormat
				if tf == "" {
					tf = time.Kitchen
				}
				s = t.In(loc).Format(tf)
			case json.Number:
				i, err := v.Int64()
				if err != nil {
					full = false
				}
				var t time.Time
				switch zerolog.TimeFieldFormat {
				case zerolog.TimeFormatUnixNano:
					t = time.Unix(0, i)
				case zerolog.TimeFormatUnixMicro:
					t = time.Unix(0, int64(time.Duration(i)*time.Microsecond))
				case zerolog.TimeFormatUnixMs:
					t = time.Unix(0, int64(time.Duration(i)*time.Millisecond))
				default:
					t = time.Unix(i, 0)
				}
				tf := c.Opts.TimeFormat
				if tf == "" {
					tf = time.Kitchen
				}
				s = t.In(loc).Format(tf)
			default:
				full = false
			}
		case msgF:
			v, ok := evt[p].(string)
			if _, present := evt[p]; present && !ok {
				full = false
			}
			s = v
		case callerF:
			v, ok := evt[p].(string)
			if _, present := evt[p]; present && !ok {
				full = false
			} else if v != "" {
				if cwd, err := os.Getwd(); err == nil {
					if rel, err := filepath.Rel(cwd, v); err == nil {
						v = rel
					}
				}
				s = v + " >"
			}
		default:
			full = false
		}
		if s != "" {
			ps = append(ps, s)
		}
	}
	// field names configured equal to each other make the part switch ambiguous
	if lvlF == tsF || lvlF == msgF || lvlF == callerF || tsF == msgF || tsF == callerF || msgF == callerF {
		full = false
	}
	if full {
		if want := strings.Join(ps, " "); prefix != want {
			return fmt.Sprintf("parts: output %q starts with %q, want %q (event %q)", body, prefix, want, c.Line), true, nontrivial
		}
	}
	// colour: NO_COLOR in the environment switches it off whatever the writer says, so the bytes are
	// those checked above; with colour on, the same parts and fields appear, each wrapped in SGR
	// sequences (judged only for events that carry no escape character themselves)
	wc := w
	wc.NoColor = false
	oldEnv, hadEnv := os.LookupEnv("NO_COLOR")
	defer func() {
		if hadEnv {
			os.Setenv("NO_COLOR", oldEnv)
		} else {
			os.Unsetenv("NO_COLOR")
		}
	}()
	os.Setenv("NO_COLOR", "1")
	out.Reset()
	wc.Write(c.Line)
	if out.String() != got {
		return fmt.Sprintf("NO_COLOR is set, yet a writer with NoColor=false renders %q, a writer with NoColor=true %q", out.String(), got), full, nontrivial
	}
	if !bytes.Contains(c.Line, []byte{0x1b}) && !bytes.Contains(bytes.ToLower(c.Line), []byte(`\u001b`)) {
		os.Unsetenv("NO_COLOR")
		out.Reset()
		wc.Write(c.Line)
		// a part that is empty apart from its colour codes still takes a separator: spacing is not compared
		if plain := sgr.ReplaceAllString(out.String(), ""); squeeze(plain) != squeeze(got) {
			return fmt.Sprintf("with colour on the line reads %q once the SGR sequences are removed, with colour off %q: parts or fields differ", plain, got), full, nontrivial
		}
	}
	return "", full, nontrivial
}

var spaces = regexp.MustCompile(" +")

func squeeze(s string) string {
	return strings.ReplaceAll(strings.TrimLeft(spaces.ReplaceAllString(s, " "), " "), " \n", "\n")
}

var sgr = regexp.MustCompile("\x1b\\[[0-9;]*m")

func fail(t interface{ Fatalf(string, ...interface{}) }, name string, c *Case, msg string) {
	ev.SaveReplay("C16-"+name, c)
	fmt.Printf("VERIF-FAIL: %s\n", msg)
	t.Fatalf("%s", msg)
}

func subsetPerm(rt *rapid.T, items []string, label string) []string {
	p := rapid.Permutation(items).Draw(rt, label+".perm")
	return append([]string{}, p[:rapid.IntRange(0, len(p)).Draw(rt, label+".n")]...)
}

func genOpts(rt *rapid.T, set lp.Settings, keys []string) Opts {
	lvlF, tsF, msgF, callerF, _ := fieldNames(set)
	std := []string{tsF, lvlF, callerF, msgF}
	var o Opts
	if rapid.IntRange(0, 2).Draw(rt, "po") != 0 {
		// nil = default order; an empty, non-nil PartsOrder configures no parts at all (fields only)
		o.PartsOrder = subsetPerm(rt, std, "parts")
	}
	if rapid.IntRange(0, 3).Draw(rt, "pe") == 0 {
		o.PartsExclude = subsetPerm(rt, std, "pex")
	}
	pool := append([]string{"absent", "zz"}, keys...)
	if rapid.IntRange(0, 2).Draw(rt, "fo") == 0 {
		o.FieldsOrder = subsetPerm(rt, pool, "fo")
	}
	if rapid.IntRange(0, 2).Draw(rt, "fe") == 0 {
		o.FieldsExclude = subsetPerm(rt, pool, "fe")
	}
	o.CustomFmt = rapid.IntRange(0, 3).Draw(rt, "customfmt") == 0
	o.ViaNew = rapid.IntRange(0, 2).Draw(rt, "vianew") == 0
	o.CustomParts = rapid.IntRange(0, 4).Draw(rt, "customparts") == 0
	o.Prepare = rapid.IntRange(0, 5).Draw(rt, "prepare") == 0
	o.Extra = rapid.IntRange(0, 5).Draw(rt, "extra") == 0
	o.TimeFormat = rapid.SampledFrom([]string{"", "", time.RFC3339, time.RFC3339Nano, "15:04:05.000", "2006-01-02"}).Draw(rt, "tf")
	if rapid.IntRange(0, 3).Draw(rt, "zone") != 0 {
		z := rapid.SampledFrom([]int{0, 3600, -28800, 19800}).Draw(rt, "z")
		o.Zone = &z
	}
	return o
}

func seq(n int) []int {
	o := make([]int, n)
	for i := range o {
		o[i] = i
	}
	return o
}

// historyLines are written through a ConsoleWriter between two renderings of the event under test.
var historyLines = []string{
	`{"level":"error","time":"2001-02-03T04:05:06Z","caller":"/a/b/c.go:12","message":"earlier event","error":"boom","a":1,"b":"two words","c":[1,{"d":"<&>"}],"e":{"f":null},"g":true,"h":1.5e300}` + "\n",
	"{}\n",
	`{"level":"trace","time":1234567890.123456,"message":"","z":"` + strings.Repeat("z", 3000) + `"}` + "\n",
	`{"level":"panic","time":"not a time","caller":12,"message":["x"],"error":{"k":"v"},"k1":1,"k2":2,"k3":3,"k4":4,"k5":5,"k6":6,"k7":7,"k8":8,"k9":9}` + "\n",
	`{"level":"warn","broken":` + "\n",
	`{"level":"-3","time":"2038-01-19T03:14:08.999999999+14:00","message":"multi\nline","error":null}` + "\n",
}

func TestRapidEvents(t *testing.T) {
	var nFull, nAll int64
	rapid.Check(t, func(rt *rapid.T) {
		cfg := lp.DefaultCfg()
		cfg.NoLong = true
		cfg.NoScale = true // wide events are generated below; every event of a program is a case of its own here
		cfg.NoSettings = rapid.IntRange(0, 3).Draw(rt, "defaults") != 0
		cfg.MaxOps = 5
		g := lp.NewG(rt, cfg)
		p := g.Program(3, 2)
		if cfg.NoSettings {
			p.Set.TimeFormat = rapid.SampledFrom([]string{"RFC3339", "RFC3339", "UNIX", "UNIXMS", "UNIXMICRO", "UNIXNANO", "RFC3339Nano"}).Draw(rt, "tff")
		}
		// the clock behind Timestamp(): sometimes far from the present (the zero time, year 9999, beyond the
		// range of int64 nanoseconds); the sub-second integer formats cannot express such instants
		if tf := p.Set.TimeFormat; tf != "UNIXMS" && tf != "UNIXMICRO" && tf != "UNIXNANO" && rapid.IntRange(0, 3).Draw(rt, "farclock") == 0 {
			p.Set.ClockSec = rapid.SampledFrom([]int64{-62135596800, 253402300799, 9223372037, -9223372037, 1 << 33, -(1 << 33), 0, -1}).Draw(rt, "clocksec")
			p.Set.ClockNsec = rapid.SampledFrom([]int64{0, 999999999, 500000000}).Draw(rt, "clocknsec")
		}
		// most events should have the usual parts: add a timestamp, sometimes a caller
		for i := range p.Events {
			if p.Events[i].Method == "log" || p.Events[i].Method == "withlevel" {
				if rapid.IntRange(0, 3).Draw(rt, "keeplvl") != 0 {
					p.Events[i].Method = rapid.SampledFrom([]string{"info", "warn", "error", "debug"}).Draw(rt, "lvlm")
				}
			}
		}
		if rapid.IntRange(0, 5).Draw(rt, "wide") == 0 {
			// a wide event: 13..40 more fields with short distinct keys in random order (sorting code
			// paths change behaviour with the number of elements)
			nf := rapid.IntRange(13, 40).Draw(rt, "nwide")
			var ops []lp.Op
			for _, i := range rapid.Permutation(seq(nf)).Draw(rt, "wideorder") {
				k := fmt.Sprintf("%c%c", 'a'+byte(i%26), 'a'+byte(i/26))
				ops = append(ops, lp.Op{K: []byte(k), V: lp.Val{T: "int", I: int64(i)}})
			}
			p.Steps = append(p.Steps, lp.Step{Kind: "with", Ops: ops})
		}
		if rapid.IntRange(0, 7).Draw(rt, "ts") != 0 {
			p.Steps = append(p.Steps, lp.Step{Kind: "with", Ops: []lp.Op{{V: lp.Val{T: "timestamp"}}}})
		}
		if rapid.IntRange(0, 3).Draw(rt, "caller") == 0 {
			p.Steps = append(p.Steps, lp.Step{Kind: "with", Ops: []lp.Op{{V: lp.Val{T: "caller"}}}})
		}
		// a field name that is not valid UTF-8 can never equal a decoded key: ConsoleWriter is
		// configured by the same globals, so such names are outside its domain
		for _, f := range []**[]byte{&p.Set.LevelField, &p.Set.MessageField, &p.Set.TimeField, &p.Set.ErrorField, &p.Set.CallerField} {
			if *f != nil && !utf8.Valid(**f) {
				*f = nil
			}
		}
		res := lp.Run(p)
		for _, dst := range res.Dests {
			for _, w := range dst {
				n, err := jsonref.ValidateLine(w.Data)
				if err != nil {
					rec.Excluded("unparseable-line (C01's domain)")
					continue
				}
				var keys []string
				for _, m := range n.O {
					keys = append(keys, m.Key)
				}
				c := &Case{Set: p.Set, Line: w.Data, Opts: genOpts(rt, p.Set, keys)}
				if rapid.IntRange(0, 7).Draw(rt, "chdir") == 0 {
					c.Chdirs = rapid.SampledFrom([][]string{{".."}, {"/"}, {"..", "lp"}, {"../.."}}).Draw(rt, "chdirs")
				}
				msg, full, nt := check(c)
				b, _ := json.Marshal(c)
				cls := "parts-unchecked"
				nAll++
				if full {
					cls = "parts-checked"
					nFull++
				}
				rec.Case(b, nt, cls)
				if len(b) < 3000 {
					rec.Sample(json.RawMessage(b))
				}
				if msg != "" {
					fail(rt, "event", c, msg)
				}
			}
		}
	})
	rec.Note(fmt.Sprintf("fully checked (parts prefix compared exactly): %d of %d events", nFull, nAll))
}

// directed: field named "" together with the error field; DEL and other boundary bytes
func TestDirected(t *testing.T) {
	set := lp.DefaultSettings()
	lines := []string{
		`{"level":"info","":"empty-key","error":"boom","a":1,"message":"m"}`,
		`{"level":"warn","error":"boom","":"x"}`,
		`{"level":"info","k":"\u007f","message":"m"}`,
		`{"level":"info","k":"~","j":"\u001f","i":" ","h":"é","message":"m"}`,
		`{"level":"debug","a":1,"a":2,"b":{"z":1,"y":[1.50,"x"]},"c":null,"d":true,"e":1e-7,"f":18446744073709551615}`,
		`{"level":"error","error":{"msg":"obj"},"zz":"last","aa":"first","message":"with space"}`,
		`{"time":"2023-11-14T22:13:20Z","level":"info","caller":"/verif/harness/lp/run.go:276","message":"hello"}`,
		`{}`,
	}
	z := 0
	optss := []Opts{{}, {Zone: &z}, {Zone: &z, FieldsOrder: []string{"zz", "b"}}, {Zone: &z, PartsOrder: []string{"message", "level"}}, {Zone: &z, FieldsExclude: []string{"a", ""}}, {Zone: &z, PartsExclude: []string{"time"}, TimeFormat: time.RFC3339}}
	for _, l := range lines {
		for _, o := range optss {
			c := &Case{Set: set, Line: []byte(l + "\n"), Opts: o}
			msg, full, _ := check(c)
			b, _ := json.Marshal(c)
			cls := "directed"
			if full {
				cls = "directed-parts-checked"
			}
			rec.Case(b, true, cls)
			if msg != "" {
				fail(t, "directed", c, msg)
			}
		}
	}
	// a caller below, beside and above a working directory that changes between renderings
	cwd, err := os.Getwd()
	if err != nil {
		t.Fatalf("HARNESS-ERROR: %v", err)
	}
	for _, caller := range []string{cwd + "/x.go:12", filepath.Dir(cwd) + "/lp/run.go:276", "/elsewhere/y.go:1", "relative/z.go:3",
		cwd + "-v2/y.go:3", cwd + "x/y.go:3", filepath.Dir(cwd) + "-old/c16/y.go:4", cwd + "/../c16/./z.go:5", cwd + ":7", "/:1"} {
		for _, dirs := range [][]string{{".."}, {"/", cwd}, {"..", "..", "/"}, {cwd}} {
			line, _ := json.Marshal(map[string]string{"time": "2023-11-14T22:13:20Z", "level": "info", "caller": caller, "message": "m"})
			c := &Case{Set: set, Line: append(line, '\n'), Opts: Opts{Zone: &z}, Chdirs: dirs}
			msg, full, _ := check(c)
			if !full && msg == "" {
				msg = "HARNESS-ERROR: the parts of a directed working-directory case were not compared"
			}
			b, _ := json.Marshal(c)
			rec.Case(b, true, "directed-chdir")
			if msg != "" {
				fail(t, "directed", c, msg)
			}
		}
	}
}

func replayFile(t *testing.T, f string) {
	b, err := os.ReadFile(f)
	if err != nil {
		t.Fatal(err)
	}
	var c Case
	if err := json.Unmarshal(b, &c); err != nil {
		t.Fatal(err)
	}
	rec.Case(b, true, "replay")
	rec.Case(append(b, 1), true, "replay")
	rec.Sample(json.RawMessage(b))
	if msg, _, _ := check(&c); msg != "" {
		fail(t, "replay", &c, msg)
	}
}

func TestReplay(t *testing.T) {
	f := os.Getenv("VERIF_REPLAY")
	if f == "" {
		t.Skip("no VERIF_REPLAY")
	}
	replayFile(t, f)
}

func TestRegress(t *testing.T) {
	dir := os.Getenv("VERIF_ROOT") + "/known/regress/C16"
	fs, _ := os.ReadDir(dir)
	for _, e := range fs {
		replayFile(t, dir+"/"+e.Name())
	}
}
