// C10 (real-runtime part) — the diode under the Go scheduler itself, natively and as a 32-bit
// build (GOARCH=386, run on this machine): P producers x W writes through a diode.Writer into a
// recording destination. The schedule is whatever the runtime produces; the oracle is made of the
// schedule-independent invariants of C10 only. The schedule search over the instrumented diode
// lives in /verif/sched/diodecheck.
package c10rt

import (
	"encoding/json"
	"fmt"
	"os"
	"runtime"
	"strconv"
	"strings"
	"sync"
	"testing"
	"time"

	"github.com/rs/zerolog/diode"
	"pgregory.net/rapid"
	"verif/harness/ev"
)

var rec = ev.New("C10", "real-runtime cases = (P 1..6 producers x W 1..60 writes x ring size 1..64 x mode {waiter, poller} x message sizes on both sides of the 500-byte pooled buffer) run on the Go scheduler, natively and as a GOARCH=386 build (32-bit alignment and int width). oracle = every Write returns len(p), nil without panicking; every delivered buffer equals exactly one written message; no duplicate; each producer's messages arrive in its program order; alerter counts are positive and, for a single producer (no collisions), sum to at most the number of positions claimed; Close returns. non-trivial = at least two producers or a ring smaller than P*W")

func TestMain(m *testing.M) {
	code := m.Run()
	rec.Flush()
	os.Exit(code)
}

type Case struct {
	P      int   `json:"producers"`
	W      int   `json:"writes"`
	Size   int   `json:"ring_size"`
	Poller bool  `json:"poller"`
	Lens   []int `json:"message_lengths"` // cycled through
	Slow   bool  `json:"slow_destination"`
}

type sink struct {
	mu   sync.Mutex
	got  []string
	slow bool
}

func (s *sink) Write(p []byte) (int, error) {
	if s.slow {
		runtime.Gosched()
	}
	s.mu.Lock()
	s.got = append(s.got, string(p))
	s.mu.Unlock()
	return len(p), nil
}

func message(p, k, n int) string {
	head := "p" + strconv.Itoa(p) + "-" + strconv.Itoa(k) + "|"
	if n < len(head) {
		n = len(head)
	}
	return head + strings.Repeat("m", n-len(head))
}

func run(c *Case) string {
	dst := &sink{slow: c.Slow}
	var amu sync.Mutex
	var alerts []int
	poll := time.Duration(0)
	if c.Poller {
		poll = 200 * time.Microsecond
	}
	dw := diode.NewWriter(dst, c.Size, poll, func(missed int) {
		amu.Lock()
		alerts = append(alerts, missed)
		amu.Unlock()
	})
	sent := map[string]bool{}
	for p := 0; p < c.P; p++ {
		for k := 0; k < c.W; k++ {
			sent[message(p, k, c.Lens[(p*c.W+k)%len(c.Lens)])] = true
		}
	}
	var wg sync.WaitGroup
	errs := make([]string, c.P)
	for p := 0; p < c.P; p++ {
		p := p
		wg.Add(1)
		go func() {
			defer wg.Done()
			defer func() {
				if r := recover(); r != nil {
					errs[p] = fmt.Sprintf("Write panicked instead of returning: %v", r)
				}
			}()
			buf := make([]byte, 0, 1024)
			for k := 0; k < c.W; k++ {
				buf = append(buf[:0], message(p, k, c.Lens[(p*c.W+k)%len(c.Lens)])...)
				n, err := dw.Write(buf)
				if err != nil || n != len(buf) {
					errs[p] = fmt.Sprintf("Write returned (%d, %v) for a %d-byte message", n, err, len(buf))
					return
				}
				for i := range buf { // the caller reuses its buffer, as zerolog does
					buf[i] = '#'
				}
			}
		}()
	}
	wg.Wait()
	for _, e := range errs {
		if e != "" {
			return e
		}
	}
	closed := make(chan struct{})
	go func() { dw.Close(); close(closed) }()
	select {
	case <-closed:
	case <-time.After(20 * time.Second):
		return "INCONCLUSIVE: Close did not return within 20 s (C12's subject)"
	}
	dst.mu.Lock()
	defer dst.mu.Unlock()
	seen := map[string]bool{}
	last := make([]int, c.P)
	for i := range last {
		last[i] = -1
	}
	for _, m := range dst.got {
		if !sent[m] {
			return fmt.Sprintf("destination received %.60q, which is not the argument of any Write", m)
		}
		if seen[m] {
			return fmt.Sprintf("message %.60q delivered twice", m)
		}
		seen[m] = true
		var p, k int
		fmt.Sscanf(m, "p%d-%d|", &p, &k)
		if k <= last[p] {
			return fmt.Sprintf("producer %d: message %d delivered after message %d", p, k, last[p])
		}
		last[p] = k
	}
	sum := 0
	amu.Lock()
	defer amu.Unlock()
	for _, a := range alerts {
		if a <= 0 {
			return fmt.Sprintf("alerter called with %d", a)
		}
		sum += a
	}
	// every Write claims one position, plus one for each collision it retries after; a single producer
	// never collides, so there the bound of the statement is exact
	if c.P == 1 && sum > c.W {
		return fmt.Sprintf("alerter reported %d missed messages but only %d ring positions were claimed", sum, c.W)
	}
	return ""
}

func TestRapidRealRuntime(t *testing.T) {
	rapid.Check(t, func(rt *rapid.T) {
		c := &Case{P: rapid.IntRange(1, 6).Draw(rt, "P"), W: rapid.IntRange(1, 60).Draw(rt, "W"), Size: rapid.SampledFrom([]int{1, 2, 3, 4, 7, 8, 16, 64}).Draw(rt, "size"),
			Poller: rapid.Bool().Draw(rt, "poller"), Slow: rapid.Bool().Draw(rt, "slow"),
			Lens: rapid.SliceOfN(rapid.SampledFrom([]int{8, 20, 100, 499, 500, 501, 900, 3000}), 1, 4).Draw(rt, "lens")}
		b, _ := json.Marshal(c)
		rec.Case(b, c.P >= 2 || c.Size < c.P*c.W, "real-runtime:"+runtime.GOARCH)
		if rapid.IntRange(0, 40).Draw(rt, "sample") == 0 {
			rec.Sample(json.RawMessage(b))
		}
		if msg := run(c); msg != "" {
			if strings.HasPrefix(msg, "INCONCLUSIVE") {
				rt.Skip(msg)
			}
			ev.SaveReplay("C10-realrt-"+runtime.GOARCH, c)
			fmt.Printf("VERIF-FAIL: [%s real runtime, %+v] %s\n", runtime.GOARCH, *c, msg)
			rt.Fatalf("%s", msg)
		}
	})
}

func TestReplay(t *testing.T) {
	f := os.Getenv("VERIF_REPLAY")
	if f == "" {
		t.Skip("no VERIF_REPLAY")
	}
	b, err := os.ReadFile(f)
	if err != nil {
		t.Fatal(err)
	}
	var c Case
	if err := json.Unmarshal(b, &c); err != nil {
		t.Fatal(err)
	}
	rec.Case(b, true, "replay")
	rec.Case(append(b, 1), true, "replay")
	rec.Sample(json.RawMessage(b))
	for i := 0; i < 20; i++ { // the schedule is the runtime's: a few repetitions
		if msg := run(&c); msg != "" && !strings.HasPrefix(msg, "INCONCLUSIVE") {
			ev.SaveReplay("C10-realrt-"+runtime.GOARCH, &c)
			fmt.Printf("VERIF-FAIL: [%s real runtime] %s\n", runtime.GOARCH, msg)
			t.Fatalf("%s", msg)
		}
	}
}
