// C10 (real-runtime part) — the diode under the Go scheduler itself, natively and as a 32-bit
// build (GOARCH=386, run on this machine): P producers x W writes through a diode.Writer into a
// recording destination. The schedule is whatever the runtime produces; the oracle is made of the
// schedule-independent invariants of C10 only. The schedule search over the instrumented diode
// lives in /verif/sched/diodecheck.
package c10rt

import (
	"bytes"
	"encoding/json"
	"fmt"
	"github.com/rs/zerolog"
	stdlog "log"
	"os"
	"reflect"
	"runtime"
	"strconv"
	"strings"
	"sync"
	"sync/atomic"
	"testing"
	"time"
	"unsafe"
	"verif/harness/watch"

	"github.com/rs/zerolog/diode"
	"pgregory.net/rapid"
	"verif/harness/ev"
)

var rec = ev.New("C10", "real-runtime cases = (P 1..6 producers x W 1..60 writes x ring size 1..64 x mode {waiter, poller} x message sizes on both sides of the 500-byte pooled buffer) run on the Go scheduler, natively and as a GOARCH=386 build (32-bit alignment and int width). oracle = every Write returns len(p), nil without panicking; every delivered buffer equals exactly one written message; no duplicate; each producer's messages arrive in its program order; alerter counts are positive and, for a single producer (no collisions), sum to at most the number of positions claimed; Close returns. non-trivial = at least two producers or a ring smaller than P*W")

func TestMain(m *testing.M) {
	code := m.Run()
	rec.Flush()
	os.Exit(code)
}

type Case struct {
	P      int   `json:"producers"`
	W      int   `json:"writes"`
	Size   int   `json:"ring_size"`
	Poller bool  `json:"poller"`
	Lens   []int `json:"message_lengths"` // cycled through
	Slow   bool  `json:"slow_destination"`
}

type sink struct {
	mu   sync.Mutex
	got  []string
	slow bool
}

func (s *sink) Write(p []byte) (int, error) {
	if s.slow {
		runtime.Gosched()
	}
	s.mu.Lock()
	s.got = append(s.got, string(p))
	s.mu.Unlock()
	return len(p), nil
}

func message(p, k, n int) string {
	head := "p" + strconv.Itoa(p) + "-" + strconv.Itoa(k) + "|"
	if n < len(head) {
		n = len(head)
	}
	return head + strings.Repeat("m", n-len(head))
}

func run(c *Case) string {
	dst := &sink{slow: c.Slow}
	var amu sync.Mutex
	var alerts []int
	poll := time.Duration(0)
	if c.Poller {
		poll = 200 * time.Microsecond
	}
	dw := diode.NewWriter(dst, c.Size, poll, func(missed int) {
		amu.Lock()
		alerts = append(alerts, missed)
		amu.Unlock()
	})
	sent := map[string]bool{}
	for p := 0; p < c.P; p++ {
		for k := 0; k < c.W; k++ {
			sent[message(p, k, c.Lens[(p*c.W+k)%len(c.Lens)])] = true
		}
	}
	var wg sync.WaitGroup
	errs := make([]string, c.P)
	for p := 0; p < c.P; p++ {
		p := p
		wg.Add(1)
		go func() {
			defer wg.Done()
			defer func() {
				if r := recover(); r != nil {
					errs[p] = fmt.Sprintf("Write panicked instead of returning: %v", r)
				}
			}()
			buf := make([]byte, 0, 1024)
			for k := 0; k < c.W; k++ {
				buf = append(buf[:0], message(p, k, c.Lens[(p*c.W+k)%len(c.Lens)])...)
				n, err := dw.Write(buf)
				if err != nil || n != len(buf) {
					errs[p] = fmt.Sprintf("Write returned (%d, %v) for a %d-byte message", n, err, len(buf))
					return
				}
				for i := range buf { // the caller reuses its buffer, as zerolog does
					buf[i] = '#'
				}
			}
		}()
	}
	wg.Wait()
	for _, e := range errs {
		if e != "" {
			return e
		}
	}
	closed := make(chan struct{})
	go func() { dw.Close(); close(closed) }()
	select {
	case <-closed:
	case <-time.After(20 * time.Second):
		return "INCONCLUSIVE: Close did not return within 20 s (C12's subject)"
	}
	dst.mu.Lock()
	defer dst.mu.Unlock()
	seen := map[string]bool{}
	last := make([]int, c.P)
	for i := range last {
		last[i] = -1
	}
	for _, m := range dst.got {
		if !sent[m] {
			return fmt.Sprintf("destination received %.60q, which is not the argument of any Write", m)
		}
		if seen[m] {
			return fmt.Sprintf("message %.60q delivered twice", m)
		}
		seen[m] = true
		var p, k int
		fmt.Sscanf(m, "p%d-%d|", &p, &k)
		if k <= last[p] {
			return fmt.Sprintf("producer %d: message %d delivered after message %d", p, k, last[p])
		}
		last[p] = k
	}
	sum := 0
	amu.Lock()
	defer amu.Unlock()
	for _, a := range alerts {
		if a <= 0 {
			return fmt.Sprintf("alerter called with %d", a)
		}
		sum += a
	}
	// every Write claims one position, plus one for each collision it retries after; a single producer
	// never collides, so there the bound of the statement is exact
	if c.P == 1 && sum > c.W {
		return fmt.Sprintf("alerter reported %d missed messages but only %d ring positions were claimed", sum, c.W)
	}
	return ""
}

func TestRapidRealRuntime(t *testing.T) {
	rapid.Check(t, func(rt *rapid.T) {
		c := &Case{P: rapid.IntRange(1, 6).Draw(rt, "P"), W: rapid.IntRange(1, 60).Draw(rt, "W"), Size: rapid.SampledFrom([]int{1, 2, 3, 4, 7, 8, 16, 64}).Draw(rt, "size"),
			Poller: rapid.Bool().Draw(rt, "poller"), Slow: rapid.Bool().Draw(rt, "slow"),
			Lens: rapid.SliceOfN(rapid.SampledFrom([]int{8, 20, 100, 499, 500, 501, 900, 3000}), 1, 4).Draw(rt, "lens")}
		b, _ := json.Marshal(c)
		rec.Case(b, c.P >= 2 || c.Size < c.P*c.W, "real-runtime:"+runtime.GOARCH)
		if rapid.IntRange(0, 40).Draw(rt, "sample") == 0 {
			rec.Sample(json.RawMessage(b))
		}
		if msg := run(c); msg != "" {
			if strings.HasPrefix(msg, "INCONCLUSIVE") {
				rt.Skip(msg)
			}
			ev.SaveReplay("C10-realrt-"+runtime.GOARCH, c)
			fmt.Printf("VERIF-FAIL: [%s real runtime, %+v] %s\n", runtime.GOARCH, *c, msg)
			rt.Fatalf("%s", msg)
		}
	})
}

func TestReplay(t *testing.T) {
	f := os.Getenv("VERIF_REPLAY")
	if f == "" {
		t.Skip("no VERIF_REPLAY")
	}
	b, err := os.ReadFile(f)
	if err != nil {
		t.Fatal(err)
	}
	var c Case
	if err := json.Unmarshal(b, &c); err != nil {
		t.Fatal(err)
	}
	rec.Case(b, true, "replay")
	rec.Case(append(b, 1), true, "replay")
	rec.Sample(json.RawMessage(b))
	for i := 0; i < 20; i++ { // the schedule is the runtime's: a few repetitions
		if msg := run(&c); msg != "" && !strings.HasPrefix(msg, "INCONCLUSIVE") {
			ev.SaveReplay("C10-realrt-"+runtime.GOARCH, &c)
			fmt.Printf("VERIF-FAIL: [%s real runtime] %s\n", runtime.GOARCH, msg)
			t.Fatalf("%s", msg)
		}
	}
}

// presetSequence puts the ring's sequence numbers where they are after `base` messages have passed
// through the writer and been consumed (white-box state injection: running 2^32 messages through a
// diode is out of reach, a service that has been up for months is there). Must be called before the
// first Write; the consumer is idle then and re-reads the index on every attempt.
func presetSequence(dw *diode.Writer, base uint64) error {
	f := reflect.ValueOf(dw).Elem().FieldByName("d")
	if !f.IsValid() {
		return fmt.Errorf("diode.Writer has no field d")
	}
	fetcher := reflect.NewAt(f.Type(), unsafe.Pointer(f.UnsafeAddr())).Elem().Elem() // *diodes.Waiter or *diodes.Poller
	if fetcher.Kind() != reflect.Ptr {
		return fmt.Errorf("unexpected fetcher kind %v", fetcher.Kind())
	}
	d := fetcher.Elem().FieldByName("Diode")
	if !d.IsValid() {
		return fmt.Errorf("fetcher has no field Diode")
	}
	ring := d.Elem() // *diodes.ManyToOne
	if ring.Kind() != reflect.Ptr {
		return fmt.Errorf("unexpected ring kind %v", ring.Kind())
	}
	wi, ri := ring.Elem().FieldByName("writeIndex"), ring.Elem().FieldByName("readIndex")
	if !wi.IsValid() || !ri.IsValid() || wi.Kind() != reflect.Uint64 || ri.Kind() != reflect.Uint64 {
		return fmt.Errorf("ring has no uint64 writeIndex/readIndex")
	}
	atomic.StoreUint64((*uint64)(unsafe.Pointer(wi.UnsafeAddr())), base-1) // the next claim is base
	atomic.StoreUint64((*uint64)(unsafe.Pointer(ri.UnsafeAddr())), base)
	return nil
}

type gatedSink struct {
	mu   sync.Mutex
	got  []string
	gate chan struct{}
}

func (s *gatedSink) Write(p []byte) (int, error) {
	<-s.gate // the first delivery waits until the producers are done: the backlog is everything written
	s.mu.Lock()
	s.got = append(s.got, string(p))
	s.mu.Unlock()
	return len(p), nil
}

// TestSequenceWrap: a long-lived writer whose sequence numbers are about to pass 2^32 (2^16, 2^31), with
// ring sizes that are not powers of two and a backlog that straddles the crossing but never fills the
// ring: every message is delivered, once, in order, nothing is reported dropped, Close returns.
func TestSequenceWrap(t *testing.T) {
	var n int64
	for _, poller := range []bool{false, true} {
		for _, size := range []int{3, 7, 10, 1000, 8} {
			for _, cross := range []uint64{1 << 32, 1 << 31, 1 << 16, 1 << 8} {
				total := size - 1 // never laps the reader
				for _, before := range []int{0, 1, total / 2, total - 1} {
					if uint64(before) > cross {
						continue
					}
					base := cross - uint64(before)
					dst := &gatedSink{gate: make(chan struct{})}
					var amu sync.Mutex
					reported := 0
					poll := time.Duration(0)
					if poller {
						poll = 200 * time.Microsecond
					}
					dw := diode.NewWriter(dst, size, poll, func(m int) { amu.Lock(); reported += m; amu.Unlock() })
					key := fmt.Sprintf("seqwrap poller=%v size=%d cross=2^%d before=%d", poller, size, bitsOf(cross), before)
					if err := presetSequence(&dw, base); err != nil {
						t.Fatalf("HARNESS-ERROR: cannot preset the ring's sequence numbers: %v", err)
					}
					for k := 0; k < total; k++ {
						m := []byte(message(0, k, 24))
						if nw, err := dw.Write(m); err != nil || nw != len(m) {
							t.Fatalf("[%s] Write returned (%d, %v)", key, nw, err)
						}
					}
					close(dst.gate)
					closed := make(chan struct{})
					go func() { dw.Close(); close(closed) }()
					bad := ""
					select {
					case <-closed:
					case <-time.After(20 * time.Second):
						bad = "Close did not return within 20 s"
					}
					dst.mu.Lock()
					got := append([]string{}, dst.got...)
					dst.mu.Unlock()
					amu.Lock()
					rep := reported
					amu.Unlock()
					n++
					rec.Case([]byte(key), true, "sequence-wrap")
					if bad == "" && (len(got) != total || rep != 0) {
						bad = fmt.Sprintf("%d of %d messages delivered, %d reported dropped, although the ring (size %d) never held more than %d", len(got), total, rep, size, total)
					}
					for k := 0; k < len(got) && bad == ""; k++ {
						if got[k] != message(0, k, 24) {
							bad = fmt.Sprintf("delivery %d is %q, want %q", k, got[k], message(0, k, 24))
						}
					}
					if bad != "" {
						ev.SaveReplay("C10-realrt-seqwrap", map[string]interface{}{"poller": poller, "size": size, "first_sequence_number": base, "messages": total})
						fmt.Printf("VERIF-FAIL: [%s] sequence numbers starting at %d: %s\n", key, base, bad)
						t.Fatalf("%s", bad)
					}
				}
			}
		}
	}
	// the same crossing with the reader lapped just before it: stale buckets from below the boundary are
	// still in the ring when the first positions above it are read
	for _, poller := range []bool{false, true} {
		for _, size := range []int{3, 7, 8, 10} {
			for _, cross := range []uint64{1 << 32, 1 << 31, 1 << 16} {
				for _, before := range []int{size, size + 1, 2*size + 1} {
					base := cross - uint64(before)
					dst := &gatedSink{gate: make(chan struct{})}
					var amu sync.Mutex
					reported, badAlert := 0, 0
					poll := time.Duration(0)
					if poller {
						poll = 200 * time.Microsecond
					}
					dw := diode.NewWriter(dst, size, poll, func(m int) {
						amu.Lock()
						if m <= 0 {
							badAlert = m
						}
						reported += m
						amu.Unlock()
					})
					key := fmt.Sprintf("seqwrap-lapped poller=%v size=%d cross=2^%d before=%d", poller, size, bitsOf(cross), before)
					if err := presetSequence(&dw, base); err != nil {
						t.Fatalf("HARNESS-ERROR: cannot preset the ring's sequence numbers: %v", err)
					}
					first := 2*size + 3
					for k := 0; k < first; k++ {
						dw.Write([]byte(message(0, k, 24)))
					}
					close(dst.gate)
					// let the consumer catch up, then a few more messages above the boundary
					deadline := time.Now().Add(5 * time.Second)
					for time.Now().Before(deadline) {
						dst.mu.Lock()
						ok := len(dst.got) > 0 && dst.got[len(dst.got)-1] == message(0, first-1, 24)
						dst.mu.Unlock()
						if ok {
							break
						}
						time.Sleep(200 * time.Microsecond)
					}
					total := first + size - 1
					for k := first; k < total; k++ {
						dw.Write([]byte(message(0, k, 24)))
					}
					closed := make(chan struct{})
					go func() { dw.Close(); close(closed) }()
					bad := ""
					select {
					case <-closed:
					case <-time.After(20 * time.Second):
						bad = "Close did not return within 20 s"
					}
					dst.mu.Lock()
					got := append([]string{}, dst.got...)
					dst.mu.Unlock()
					amu.Lock()
					rep, ba := reported, badAlert
					amu.Unlock()
					n++
					rec.Case([]byte(key), true, "sequence-wrap-lapped")
					last := -1
					for _, m := range got {
						if bad != "" {
							break
						}
						var p, k int
						if c, _ := fmt.Sscanf(m, "p%d-%d|", &p, &k); c != 2 || m != message(0, k, 24) || k >= total {
							bad = fmt.Sprintf("destination received %q, which is not the argument of any Write", m)
						} else if k <= last {
							bad = fmt.Sprintf("message %d delivered after message %d", k, last)
						}
						last = k
					}
					switch {
					case bad != "":
					case ba != 0:
						bad = fmt.Sprintf("alerter called with %d", ba)
					case rep > total:
						bad = fmt.Sprintf("alerter reported %d missed messages but only %d ring positions were claimed", rep, total)
					case len(got)+rep < total:
						bad = fmt.Sprintf("after Close: delivered %d + reported %d < written %d", len(got), rep, total)
					case len(got) == 0 || got[len(got)-1] != message(0, total-1, 24):
						bad = fmt.Sprintf("the last message written before Close (%d) was not delivered although the ring was not full", total-1)
					}
					if bad != "" {
						ev.SaveReplay("C10-realrt-seqwrap", map[string]interface{}{"poller": poller, "size": size, "first_sequence_number": base, "messages": total, "lapped": true})
						fmt.Printf("VERIF-FAIL: [%s] sequence numbers starting at %d: %s\n", key, base, bad)
						t.Fatalf("%s", bad)
					}
				}
			}
		}
	}
	rec.Exhaustive(fmt.Sprintf("%d configurations: {waiter, poller} x ring sizes {3,7,8,10,1000} x sequence numbers crossing 2^8, 2^16, 2^31, 2^32 at 4 offsets inside a backlog of size-1 messages, and the same crossings with the reader lapped just below the boundary", n))
}

func bitsOf(x uint64) int {
	b := 0
	for x > 1 {
		x >>= 1
		b++
	}
	return b
}

// TestStdLogProducers: the diode as the output of the standard library's logger, the use its README names
// (directly, through a log.Logger of the program's own, and through a zerolog.Logger that the standard
// logger writes to): 40 lines into a ring of 4 whose destination is held up, so the ring laps many times.
// Every log.Print call must return (the diode's Write never waits for anybody); what reaches the
// destination afterwards is a subset of what was printed, in order. A producer that has not returned after
// 20 s is judged by its goroutine state (package watch): waiting for a lock inside diode.Write is a Write
// that blocks.
func TestStdLogProducers(t *testing.T) {
	defer stdlog.SetOutput(os.Stderr)
	defer stdlog.SetFlags(stdlog.Flags())
	for _, poller := range []bool{false, true} {
		for _, via := range []string{"log.SetOutput(diode)", "log.New(diode)", "log.SetOutput(zerolog.New(diode))"} {
			dst := &gatedSink{gate: make(chan struct{})}
			poll := time.Duration(0)
			if poller {
				poll = 200 * time.Microsecond
			}
			var amu sync.Mutex
			reported := 0
			dw := diode.NewWriter(dst, 4, poll, func(m int) { amu.Lock(); reported += m; amu.Unlock() })
			print := stdlog.Print
			switch via {
			case "log.SetOutput(diode)":
				stdlog.SetFlags(0)
				stdlog.SetOutput(dw)
			case "log.New(diode)":
				print = stdlog.New(dw, "", 0).Print
			default:
				stdlog.SetFlags(0)
				stdlog.SetOutput(zerolog.New(dw))
			}
			key := fmt.Sprintf("std log producers poller=%v via %s", poller, via)
			rec.Case([]byte(key), true, "stdlog")
			v := watch.Run(20*time.Second, "diode.Writer.Write(", func() {
				for k := 0; k < 40; k++ {
					print(message(0, k, 24))
				}
			})
			bad := ""
			if !v.Done {
				// (the standard logger's lock is held by the stuck call: nothing here may touch that logger again,
				// so the process ends right away)
				if v.Blocked {
					bad = fmt.Sprintf("a log.Print call never returns: its goroutine waits in %s inside the diode's Write (%s)", v.State, v.Stack)
					ev.SaveReplay("C10-realrt-stdlog", map[string]interface{}{"poller": poller, "via": via, "ring_size": 4, "lines": 40})
					fmt.Printf("VERIF-FAIL: [%s] %s\n", key, bad)
					fmt.Printf("--- FAIL: TestStdLogProducers\n")
					rec.Flush()
					os.Exit(1)
				}
				fmt.Printf("HARNESS-ERROR: [%s] 40 log.Print calls took more than 20 s without being blocked on a lock\n", key)
				os.Exit(2)
			}
			stdlog.SetOutput(os.Stderr)
			if bad == "" {
				close(dst.gate)
				closed := make(chan struct{})
				go func() { dw.Close(); close(closed) }()
				select {
				case <-closed:
				case <-time.After(20 * time.Second):
					t.Fatalf("HARNESS-ERROR: [%s] Close did not return within 20 s (C12's subject)", key)
				}
				dst.mu.Lock()
				last := -1
				for _, m := range dst.got {
					var p, k int
					if n, _ := fmt.Sscanf(strings.TrimPrefix(m, `{"message":"`), "p%d-%d|", &p, &k); n != 2 || k <= last || k >= 40 {
						bad = fmt.Sprintf("destination received %.60q after message %d", m, last)
						break
					}
					last = k
				}
				dst.mu.Unlock()
			}
			if bad != "" {
				ev.SaveReplay("C10-realrt-stdlog", map[string]interface{}{"poller": poller, "via": via, "ring_size": 4, "lines": 40})
				fmt.Printf("VERIF-FAIL: [%s] %s\n", key, bad)
				t.Fatalf("[%s] %s", key, bad)
			}
		}
	}
	rec.Exhaustive("{waiter, poller} x {log.SetOutput(diode), log.New(diode), log.SetOutput(zerolog.New(diode))}: 40 lines through a ring of 4 with the destination held up")
}

func bigMessage(n int, fill byte, tag string) []byte {
	b := bytes.Repeat([]byte{fill}, n)
	copy(b, tag)
	b[n-1] = '\n'
	return b
}

// consumerIdle waits until the diode's consumer goroutine is parked: in waiter mode inside Cond.Wait, in
// polling mode asleep in five dumps in a row while the number of deliveries stands still. The state comes
// from goroutine dumps, not from a guess at how long delivery takes.
func consumerIdle(poller bool, delivered func() int) bool {
	deadline := time.Now().Add(20 * time.Second)
	for time.Now().Before(deadline) {
		if !poller {
			if st := watch.States("diode.Writer.poll"); len(st) == 1 && st[0] == "sync.Cond.Wait" {
				return true
			}
			time.Sleep(time.Millisecond)
			continue
		}
		d0, idle := delivered(), true
		for i := 0; i < 5 && idle; i++ {
			st := watch.States("diode.Writer.poll")
			idle = len(st) == 1 && st[0] == "sleep" && delivered() == d0
			time.Sleep(time.Millisecond)
		}
		if idle {
			return true
		}
	}
	return false
}

// TestBigMessages: messages around the sizes at which a writer may treat them specially (the 64 KiB pool
// limit, a quarter and a whole MiB, several MiB) through rings of 1, 4 and 1000 slots. The first message is
// written while the consumer is parked and must be delivered or reported once the consumer is parked again,
// with no further Write or Close (C12); after a second message and Close, both are delivered or reported
// (C11); whatever is delivered is byte for byte one of the two arguments (C10).
func TestBigMessages(t *testing.T) {
	var n int64
	prop := os.Getenv("VERIF_PROP") // the three verdicts belong to C12, C11 and C10 in this order
	for _, poller := range []bool{false, true} {
		for _, size := range []int{1, 4, 1000} {
			for _, ln := range []int{65536, 70000, 262144, 262145, 268435, 268436, 1 << 20, 1<<20 + 1, 3 << 20} {
				dst := &sink{}
				var amu sync.Mutex
				reported := 0
				poll := time.Duration(0)
				if poller {
					poll = 200 * time.Microsecond
				}
				dw := diode.NewWriter(dst, size, poll, func(m int) { amu.Lock(); reported += m; amu.Unlock() })
				delivered := func() int { dst.mu.Lock(); defer dst.mu.Unlock(); return len(dst.got) }
				key := fmt.Sprintf("big messages poller=%v size=%d len=%d", poller, size, ln)
				rec.Case([]byte(key), true, "big-messages")
				n++
				if !consumerIdle(poller, delivered) {
					t.Fatalf("HARNESS-ERROR: [%s] the consumer of an empty ring did not park within 20 s", key)
				}
				m0, m1 := bigMessage(ln, 'A', "first|"), bigMessage(ln, 'B', "second|")
				bad := ""
				if nw, err := dw.Write(m0); err != nil || nw != ln {
					bad = fmt.Sprintf("Write returned (%d, %v) for a %d-byte message", nw, err, ln)
				}
				if bad == "" {
					if !consumerIdle(poller, delivered) {
						t.Fatalf("HARNESS-ERROR: [%s] the consumer did not park within 20 s after one Write", key)
					}
					amu.Lock()
					rep := reported
					amu.Unlock()
					// (this verdict is C12's alone: under C10 and C11 the run goes on to Close)
					if d := delivered(); d+rep < 1 && (prop == "C12" || prop == "") {
						bad = fmt.Sprintf("one %d-byte message written, the consumer is parked again: delivered %d, reported dropped %d (nothing more is written, Close is not called)", ln, d, rep)
					}
				}
				if bad == "" {
					if nw, err := dw.Write(m1); err != nil || nw != ln {
						bad = fmt.Sprintf("second Write returned (%d, %v) for a %d-byte message", nw, err, ln)
					}
				}
				closed := make(chan struct{})
				go func() { dw.Close(); close(closed) }()
				select {
				case <-closed:
				case <-time.After(20 * time.Second):
					t.Fatalf("HARNESS-ERROR: [%s] Close did not return within 20 s", key)
				}
				if bad == "" {
					dst.mu.Lock()
					for _, g := range dst.got {
						if g != string(m0) && g != string(m1) && (prop == "C10" || prop == "") {
							bad = fmt.Sprintf("destination received %d bytes starting %.24q ending %.12q, which is neither of the two %d-byte arguments", len(g), g, g[len(g)-12:], ln)
						}
					}
					d := len(dst.got)
					dst.mu.Unlock()
					amu.Lock()
					rep := reported
					amu.Unlock()
					if bad == "" && d+rep < 2 && prop != "C10" {
						bad = fmt.Sprintf("two %d-byte messages written, Close returned: delivered %d, reported dropped %d", ln, d, rep)
					}
				}
				if bad != "" {
					ev.SaveReplay("C10-realrt-big", map[string]interface{}{"poller": poller, "ring_size": size, "message_length": ln})
					fmt.Printf("VERIF-FAIL: [%s] %s\n", key, bad)
					t.Fatalf("[%s] %s", key, bad)
				}
			}
		}
	}
	rec.Exhaustive("{waiter, poller} x ring size {1, 4, 1000} x message length {64 KiB, 70000, 256 KiB, 256 KiB+1, 268435, 268436, 1 MiB, 1 MiB+1, 3 MiB}: one message with the consumer parked before and after, a second one, Close")
}
