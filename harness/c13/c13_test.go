// C13 — samplers admit exactly the documented share.
package c13

import (
	"math"
	"context"
	"encoding/json"
	"errors"
	"fmt"
	zlog "github.com/rs/zerolog/log"
	"os"
	"reflect"
	"sync"
	"sync/atomic"
	"testing"
	"time"
	"unsafe"

	"github.com/rs/zerolog"
	"pgregory.net/rapid"
	"verif/harness/ev"
)

const rule = "cases = histories of Sample(level) calls with clock readings (non-monotonic allowed, >= epoch, and a clock that returns the zero time.Time for the first calls) supplied through TimestampFunc, over sampler compositions (Basic N, Burst{Burst,Period,Next}, LevelSampler, nested), bare and behind a Logger with level gates and DisableSampling toggles, events entering through WithLevel, the level methods, Log, Logger.Write, Print/Printf/Println and Err; bounded-exhaustive over short histories on a 7-tick clock alphabet, random for long histories and large parameters; concurrent goroutines on one BasicSampler. oracle = reference sampler model. non-trivial = history crossing >=1 window boundary or reaching a NextSampler; distinct = FNV-64 of (sampler spec, history), enumerations by construction"

var rec = ev.New("C13", rule)

func TestMain(m *testing.M) {
	code := m.Run()
	rec.Flush()
	os.Exit(code)
}

// ---- sampler specification, real construction and reference model

type Spec struct {
	Kind   string  `json:"kind"` // basic | burst | level | nil
	N      uint32  `json:"n,omitempty"`
	Burst  uint32  `json:"burst,omitempty"`
	Period int64   `json:"period,omitempty"`
	Next   *Spec   `json:"next,omitempty"`
	Slots  []*Spec `json:"slots,omitempty"` // level: trace, debug, info, warn, error (nil = unset)
}

func build(s *Spec) zerolog.Sampler {
	if s == nil {
		return nil
	}
	switch s.Kind {
	case "basic":
		return &zerolog.BasicSampler{N: s.N}
	case "burst":
		b := &zerolog.BurstSampler{Burst: s.Burst, Period: time.Duration(s.Period)}
		if s.Next != nil {
			b.NextSampler = build(s.Next)
		}
		return b
	case "level":
		ls := zerolog.LevelSampler{}
		set := func(dst *zerolog.Sampler, sp *Spec) {
			if sp != nil {
				*dst = build(sp)
			}
		}
		set(&ls.TraceSampler, s.Slots[0])
		set(&ls.DebugSampler, s.Slots[1])
		set(&ls.InfoSampler, s.Slots[2])
		set(&ls.WarnSampler, s.Slots[3])
		set(&ls.ErrorSampler, s.Slots[4])
		return ls
	}
	panic("spec kind " + s.Kind)
}

type model struct {
	s                    *Spec
	count                uint64 // basic: calls so far ; burst: events in current window
	windowE              int64  // burst: end of the current window
	opened               bool
	next                 *model
	slots                []*model
	reachedNext, crossed bool
}

func newModel(s *Spec) *model {
	if s == nil {
		return nil
	}
	m := &model{s: s}
	if s.Next != nil {
		m.next = newModel(s.Next)
	}
	for _, sl := range s.Slots {
		m.slots = append(m.slots, newModel(sl))
	}
	return m
}

// zeroClock as a reading: TimestampFunc returns the zero time.Time (a stubbed or uninitialised clock), whose
// UnixNano is a fixed, very negative number: a reading like any other, long before every later one.
const zeroClock = math.MinInt64

func modelNow(c int64) int64 {
	if c == zeroClock {
		return time.Time{}.UnixNano()
	}
	return c
}

func (m *model) sample(lvl int, now int64) bool {
	now = modelNow(now)
	switch m.s.Kind {
	case "basic":
		if m.s.N == 0 {
			return false
		}
		if m.s.N == 1 {
			return true
		}
		m.count++
		return m.count%uint64(m.s.N) == 1 // call i (1-based) admitted iff i mod N == 1
	case "burst":
		if m.s.Burst > 0 && m.s.Period > 0 {
			if modelClockHook != nil {
				modelClockHook() // the real sampler reads the clock here, first thing
			}
			if !m.opened || now >= m.windowE {
				if m.opened {
					m.crossed = true
				}
				m.opened = true
				m.windowE = now + m.s.Period
				m.count = 0
			}
			m.count++
			if m.count <= uint64(m.s.Burst) {
				return true
			}
		}
		if m.next == nil {
			return false
		}
		m.reachedNext = true
		return m.next.sample(lvl, now)
	case "level":
		if lvl >= -1 && lvl <= 3 {
			if sm := m.slots[lvl+1]; sm != nil {
				return sm.sample(lvl, now)
			}
		}
		return true
	}
	panic("model kind")
}

func (m *model) nontrivial() bool {
	if m == nil {
		return false
	}
	if m.reachedNext || m.crossed {
		return true
	}
	if m.next.nontrivial() {
		return true
	}
	for _, s := range m.slots {
		if s.nontrivial() {
			return true
		}
	}
	return false
}

type Call struct {
	Lvl int   `json:"lvl"`
	Now int64 `json:"now"`
	// Nested: the program's TimestampFunc itself samples once (it logs through a logger that shares
	// the sampler) before it returns this call's reading: a complete Sample call, with its own clock
	// reading, that happens inside the outer one and therefore before the outer one's decision
	Nested *Call `json:"nested,omitempty"`
}

type Case struct {
	Spec  *Spec  `json:"spec"`
	Calls []Call `json:"calls"`
	// Warmup: the sampler has already been asked this many times (same level, a clock standing still at
	// the first call's reading) before the history starts: a long-lived sampler, its counters far from zero
	Warmup int `json:"warmup_calls,omitempty"`
}

var clock int64

// re-entrant clock: what the next clock reading triggers on the real sampler / on the model
var (
	pendingNested  *Call
	nestedSampler  zerolog.Sampler
	nestedGot      bool
	nestedRan      bool
	modelClockHook func()
)

func init() {
	zerolog.TimestampFunc = func() time.Time {
		if n := pendingNested; n != nil {
			pendingNested = nil
			saved := clock
			clock = n.Now
			nestedGot, nestedRan = nestedSampler.Sample(zerolog.Level(n.Lvl)), true
			clock = saved
		}
		if clock == zeroClock {
			return time.Time{}
		}
		return time.Unix(0, clock)
	}
}

// runBare applies the history to the real sampler and the model.
func runBare(c *Case) (string, bool) {
	real := build(c.Spec)
	m := newModel(c.Spec)
	nestedSampler = real
	defer func() { pendingNested, modelClockHook = nil, nil }()
	if c.Warmup > 0 && len(c.Calls) > 0 {
		clock = c.Calls[0].Now
		for i := 0; i < c.Warmup; i++ {
			got, want := real.Sample(zerolog.Level(c.Calls[0].Lvl)), m.sample(c.Calls[0].Lvl, clock)
			if got != want {
				return fmt.Sprintf("warm-up call %d (level %d, now %d): sampler returned %v, model %v", i, c.Calls[0].Lvl, clock, got, want), m.nontrivial()
			}
		}
	}
	for i, call := range c.Calls {
		clock = call.Now
		pendingNested, nestedRan = call.Nested, false
		got := real.Sample(zerolog.Level(call.Lvl))
		pendingNested = nil
		ranReal, gotNested := nestedRan, nestedGot
		ranModel, wantNested := false, false
		if n := call.Nested; n != nil {
			pendingM := n
			modelClockHook = func() {
				if pendingM != nil {
					x := pendingM
					pendingM = nil
					wantNested, ranModel = m.sample(x.Lvl, x.Now), true
				}
			}
		}
		want := m.sample(call.Lvl, call.Now)
		modelClockHook = nil
		if ranReal != ranModel {
			return fmt.Sprintf("HARNESS-ERROR: call %d: the real sampler read the clock: %v, the model: %v", i, ranReal, ranModel), m.nontrivial()
		}
		if ranReal && gotNested != wantNested {
			return fmt.Sprintf("call %d: the Sample call made from inside TimestampFunc (level %d, now %d) returned %v, model %v", i, call.Nested.Lvl, call.Nested.Now, gotNested, wantNested), m.nontrivial()
		}
		if got != want {
			return fmt.Sprintf("call %d (level %d, now %d, nested call: %v): sampler returned %v, model %v", i, call.Lvl, call.Now, call.Nested != nil, got, want), m.nontrivial()
		}
	}
	return "", m.nontrivial()
}

func fail(t interface{ Fatalf(string, ...interface{}) }, name string, c interface{}, msg string) {
	ev.SaveReplay("C13-"+name, c)
	fmt.Printf("VERIF-FAIL: %s\n", msg)
	t.Fatalf("%s", msg)
}

// ---- bounded-exhaustive

func TestExhaustiveBurst(t *testing.T) {
	const step = 10
	maxLen := 5
	if ev.Thorough() {
		maxLen = 7
	}
	sh, nsh := ev.Shard()
	var n, nt int64
	nexts := []*Spec{nil, {Kind: "basic", N: 0}, {Kind: "basic", N: 1}, {Kind: "basic", N: 2}, {Kind: "basic", N: 3}, {Kind: "burst", Burst: 1, Period: 2 * step}}
	idx := 0
	for burst := uint32(0); burst <= 3; burst++ {
		for period := int64(0); period <= 3; period++ {
			for _, nx := range nexts {
				idx++
				if idx%nsh != sh {
					continue
				}
				spec := &Spec{Kind: "burst", Burst: burst, Period: period * step, Next: nx}
				calls := make([]Call, maxLen)
				var recur func(d int)
				recur = func(d int) {
					if d > 0 {
						c := &Case{Spec: spec, Calls: calls[:d]}
						msg, nontriv := runBare(c)
						n++
						if nontriv {
							nt++
						}
						if msg != "" {
							cc := &Case{Spec: spec, Calls: append([]Call{}, calls[:d]...)}
							fail(t, "exhaustive", cc, msg)
						}
					}
					if d == maxLen {
						return
					}
					for tick := int64(0); tick <= 6; tick++ {
						calls[d] = Call{Lvl: 1, Now: tick * step / 2 * 1} // half-step ticks: 0,5,10,...,30
						recur(d + 1)
					}
				}
				recur(0)
			}
		}
	}
	rec.Bulk(n, nt, "burst-exhaustive")
	rec.Exhaustive(fmt.Sprintf("all call histories up to length %d over a 7-tick clock alphabet x Burst 0..3 x Period 0..3 steps x 6 NextSamplers (shard %d/%d)", maxLen, sh, nsh))
	rec.Sample(Case{Spec: &Spec{Kind: "burst", Burst: 2, Period: 20, Next: &Spec{Kind: "basic", N: 2}}, Calls: []Call{{Lvl: 1, Now: 0}, {Lvl: 1, Now: 5}, {Lvl: 1, Now: 5}, {Lvl: 1, Now: 20}, {Lvl: 1, Now: 15}}})
}

// TestLongLivedBasic: one BasicSampler instance asked 2^24 + 70 times: the every-Nth cadence holds all
// the way (a counter that is folded, narrowed or reset somewhere along the way shifts it).
func TestLongLivedBasic(t *testing.T) {
	const calls = 1<<24 + 70
	for _, N := range []uint32{2, 3, 7, 10} {
		spec := &Spec{Kind: "basic", N: N}
		real, m := build(spec), newModel(spec)
		for i := 0; i < calls; i++ {
			if got, want := real.Sample(zerolog.InfoLevel), m.sample(1, 0); got != want {
				c := Case{Spec: spec, Calls: []Call{{Lvl: 1}}, Warmup: i}
				fail(t, "longlived", c, fmt.Sprintf("BasicSampler{N:%d}: call %d on one long-lived instance returned %v, model %v", N, i+1, got, want))
			}
		}
		rec.Bulk(calls, calls, "long-lived-basic")
	}
	rec.Exhaustive("one BasicSampler instance per N in {2,3,7,10}, 2^24+70 consecutive calls each")
}

// TestDeepChains: BurstSamplers handing over to BurstSamplers, k deep (rate limits stacked per tenant, per
// route, per process ...): once the first j have spent their burst, the event is decided by number j+1; after
// all k, by the last NextSampler (or rejected when there is none).
func TestDeepChains(t *testing.T) {
	var n int64
	for _, k := range []int{1, 2, 7, 8, 9, 10, 16, 17, 33, 64, 300} {
		for _, burst := range []uint32{1, 3} {
			for _, last := range []*Spec{nil, {Kind: "basic", N: 1}, {Kind: "basic", N: 2}} {
				spec := last
				for i := 0; i < k; i++ {
					spec = &Spec{Kind: "burst", Burst: burst, Period: 1000, Next: spec}
				}
				c := &Case{Spec: spec}
				for i := 0; i < k*int(burst)+6; i++ {
					c.Calls = append(c.Calls, Call{Lvl: 1, Now: 5 + int64(i%3)})
				}
				// and a second window for all of them
				for i := 0; i < k*int(burst)+3; i++ {
					c.Calls = append(c.Calls, Call{Lvl: 2, Now: 2000})
				}
				msg, _ := runBare(c)
				n++
				b, _ := json.Marshal(map[string]interface{}{"chain_depth": k, "burst": burst, "last": last})
				rec.Case(b, true, "deep-chain")
				if msg != "" {
					fail(t, "deep-chain", c, fmt.Sprintf("chain of %d BurstSamplers (Burst %d): %s", k, burst, msg))
				}
			}
		}
	}
	rec.Exhaustive("chains of 1..300 BurstSamplers x Burst {1,3} x last NextSampler {none, Basic 1, Basic 2}: every burst spent in turn, in two windows")
}

// TestCopiedSamplers: a sampler value copied after it has been used (a configuration struct duplicated per
// tenant, a logger option cloned) is a sampler of its own from then on: the copy starts from the state it
// was copied with, and neither takes from the other's budget or cadence.
func TestCopiedSamplers(t *testing.T) {
	rapid.Check(t, func(rt *rapid.T) {
		burst := rapid.IntRange(0, 1).Draw(rt, "kind") == 0
		n := uint32(rapid.IntRange(1, 5).Draw(rt, "n"))
		before := rapid.IntRange(0, 7).Draw(rt, "before")
		who := rapid.SliceOfN(rapid.IntRange(0, 1), 1, 16).Draw(rt, "who")
		clock = 5
		var orig, cp zerolog.Sampler
		spec := &Spec{Kind: "basic", N: n}
		if burst {
			spec = &Spec{Kind: "burst", Burst: n, Period: 1000}
		}
		mo := newModel(spec)
		var desc []string
		step := func(s zerolog.Sampler, m *model, name string, i int) {
			got, want := s.Sample(zerolog.InfoLevel), m.sample(1, clock)
			desc = append(desc, fmt.Sprintf("%s:%v", name, got))
			if got != want {
				c := map[string]interface{}{"spec": spec, "calls_before_copy": before, "then": who}
				fail(rt, "copied", c, fmt.Sprintf("%+v copied after %d calls; call %d of the sequence %v returned %v, an independent sampler in that state returns %v", *spec, before, i, desc, got, want))
			}
		}
		if burst {
			o := &zerolog.BurstSampler{Burst: n, Period: 1000}
			orig = o
			for i := 0; i < before; i++ {
				step(orig, mo, "orig", i)
			}
			c := *o
			cp = &c
		} else {
			o := &zerolog.BasicSampler{N: n}
			orig = o
			for i := 0; i < before; i++ {
				step(orig, mo, "orig", i)
			}
			c := *o
			cp = &c
		}
		mc := *mo
		for i, w := range who {
			if w == 0 {
				step(orig, mo, "orig", before+i)
			} else {
				step(cp, &mc, "copy", before+i)
			}
		}
		b, _ := json.Marshal(map[string]interface{}{"spec": spec, "before": before, "who": who})
		rec.Case(b, before > 0 && len(who) > 1, "copied-sampler")
	})
}

func TestExhaustiveBasic(t *testing.T) {
	var n int64
	for N := uint32(0); N <= 9; N++ {
		real := &zerolog.BasicSampler{N: N}
		admitted := 0
		for k := 1; k <= 200; k++ {
			if real.Sample(zerolog.InfoLevel) {
				admitted++
			}
			want := 0
			if N == 1 {
				want = k
			} else if N > 1 {
				want = (k + int(N) - 1) / int(N)
			}
			n++
			if admitted != want {
				fail(t, "basic", Case{Spec: &Spec{Kind: "basic", N: N}, Calls: make([]Call, k)}, fmt.Sprintf("BasicSampler{N:%d}: %d of %d admitted, want ceil(k/N)=%d", N, admitted, k, want))
			}
		}
	}
	rec.Bulk(n, n-10, "basic-exhaustive")
	rec.Exhaustive("BasicSampler N=0..9, every prefix length k=1..200: admitted == ceil(k/N)")
}

// ---- random compositions

func genSpec(rt *rapid.T, depth int, label string) *Spec {
	kinds := []string{"basic", "basic", "burst", "burst"}
	if depth > 0 {
		kinds = append(kinds, "level", "burstnext", "burstnext")
	}
	switch rapid.SampledFrom(kinds).Draw(rt, label+".k") {
	case "basic":
		return &Spec{Kind: "basic", N: rapid.SampledFrom([]uint32{0, 1, 2, 3, 5, 7, 1000, 1 << 31, 1<<32 - 1}).Draw(rt, label+".n")}
	case "burst":
		return &Spec{Kind: "burst", Burst: rapid.SampledFrom([]uint32{0, 1, 2, 3, 10, 1<<32 - 1}).Draw(rt, label+".b"), Period: rapid.SampledFrom([]int64{0, 1, 10, 25, 1000000000, -5}).Draw(rt, label+".p")}
	case "burstnext":
		return &Spec{Kind: "burst", Burst: rapid.SampledFrom([]uint32{0, 1, 2, 3}).Draw(rt, label+".b"), Period: rapid.SampledFrom([]int64{0, 10, 25}).Draw(rt, label+".p"), Next: genSpec(rt, depth-1, label+".nx")}
	default:
		s := &Spec{Kind: "level", Slots: make([]*Spec, 5)}
		for i := range s.Slots {
			if rapid.Bool().Draw(rt, label+".slot") {
				s.Slots[i] = genSpec(rt, depth-1, label+".s")
			}
		}
		return s
	}
}

func genCalls(rt *rapid.T, maxLen int) []Call {
	n := rapid.IntRange(1, maxLen).Draw(rt, "ncalls")
	calls := make([]Call, n)
	now := int64(0)
	// a clock that hands out the zero time.Time for the first calls (not yet initialised), then real readings
	zeros := 0
	if rapid.IntRange(0, 11).Draw(rt, "zeroclock") == 0 {
		zeros = rapid.IntRange(1, 8).Draw(rt, "zeros")
		now = 1000
	}
	for i := range calls {
		if i < zeros {
			calls[i] = Call{Lvl: rapid.SampledFrom([]int{-1, 0, 1, 2, 3, 4, 5, 6, 9, -3}).Draw(rt, "lvl"), Now: zeroClock}
			continue
		}
		switch rapid.IntRange(0, 5).Draw(rt, "clk") {
		case 0:
			now += 10
		case 1:
			now += 25
		case 2:
			now -= rapid.Int64Range(0, 30).Draw(rt, "back")
			if now < 0 {
				now = 0
			}
			if zeros > 0 && now < 1 {
				now = 1
			}
		case 3:
			now += rapid.Int64Range(0, 100).Draw(rt, "fwd")
		}
		calls[i] = Call{Lvl: rapid.SampledFrom([]int{-1, 0, 1, 2, 3, 4, 5, 6, 9, -3}).Draw(rt, "lvl"), Now: now}
		if rapid.IntRange(0, 9).Draw(rt, "nested") == 0 {
			nn := now + rapid.Int64Range(-20, 40).Draw(rt, "nestednow")
			if nn < 0 {
				nn = 0
			}
			if zeros > 0 && nn < 1 {
				nn = 1
			}
			calls[i].Nested = &Call{Lvl: rapid.SampledFrom([]int{-1, 0, 1, 2, 3}).Draw(rt, "nestedlvl"), Now: nn}
		}
	}
	return calls
}

func TestRapidCompositions(t *testing.T) {
	maxLen := 60
	if ev.Thorough() {
		maxLen = 300
	}
	rapid.Check(t, func(rt *rapid.T) {
		c := &Case{Spec: genSpec(rt, 2, "spec"), Calls: genCalls(rt, maxLen)}
		if rapid.IntRange(0, 19).Draw(rt, "warm") == 0 {
			// counters of the widths a sampler might keep: just below and above 2^8 and 2^16 (2^24: TestLongLivedBasic)
			c.Warmup = rapid.SampledFrom([]int{254, 257, 65534, 65537}).Draw(rt, "warmup")
		}
		msg, nt := runBare(c)
		b, _ := json.Marshal(c)
		rec.Case(b, nt, "composition:"+c.Spec.Kind)
		rec.Sample(json.RawMessage(b))
		if msg != "" {
			fail(rt, "composition", c, msg)
		}
	})
}

// ---- through a Logger: level gates and DisableSampling

type LoggerCase struct {
	Spec        *Spec  `json:"spec"`
	LoggerLevel int    `json:"logger_level"`
	Events      []LEvt `json:"events"`
	// Derive: what else the logger carries, added after Sample(): "" nothing | ctx (With().Ctx(a context with a
	// value)) | fields | hook (a hook that does nothing) | output (Output(w) again) | stack | all of them
	Derive string `json:"derive,omitempty"`
}
type LEvt struct {
	Lvl     int   `json:"lvl"`
	Now     int64 `json:"now"`
	Global  int   `json:"global"`
	Disable bool  `json:"disable_sampling"`
	// Via: entry point. "" WithLevel(lvl) | method (Trace..Error by lvl) | log (Log(): no level) |
	// write (Logger.Write, the io.Writer entry: no level) | print | printf | println (debug) | err (Err(e): error level)
	Via string `json:"via,omitempty"`
}

// emit sends one event through the chosen entry point and returns its effective level.
func emit(l *zerolog.Logger, e LEvt) int {
	switch e.Via {
	case "method":
		switch e.Lvl {
		case -1:
			l.Trace().Msg("m")
		case 0:
			l.Debug().Msg("m")
		case 1:
			l.Info().Msg("m")
		case 2:
			l.Warn().Msg("m")
		case 3:
			l.Error().Msg("m")
		default:
			l.WithLevel(zerolog.Level(e.Lvl)).Msg("m")
		}
		return e.Lvl
	case "log":
		l.Log().Msg("m")
		return int(zerolog.NoLevel)
	case "write":
		l.Write([]byte("a line from the standard library logger\n"))
		return int(zerolog.NoLevel)
	case "print":
		l.Print("m")
		return int(zerolog.DebugLevel)
	case "printf":
		l.Printf("%s", "m")
		return int(zerolog.DebugLevel)
	case "println":
		l.Println("m")
		return int(zerolog.DebugLevel)
	case "err":
		l.Err(errors.New("boom")).Msg("m")
		return int(zerolog.ErrorLevel)
	case "pkgprint", "pkgprintf", "pkginfo", "pkglog", "pkgerr":
		// the same through the package-level functions of github.com/rs/zerolog/log, the global logger
		// being this one for the moment
		old := zlog.Logger
		zlog.Logger = *l
		defer func() { zlog.Logger = old }()
		switch e.Via {
		case "pkgprint":
			zlog.Print("m")
			return int(zerolog.DebugLevel)
		case "pkgprintf":
			zlog.Printf("%s and no more", "m")
			return int(zerolog.DebugLevel)
		case "pkginfo":
			zlog.Info().Msg("m")
			return int(zerolog.InfoLevel)
		case "pkglog":
			zlog.Log().Msg("m")
			return int(zerolog.NoLevel)
		default:
			zlog.Err(errors.New("boom")).Msg("m")
			return int(zerolog.ErrorLevel)
		}
	}
	l.WithLevel(zerolog.Level(e.Lvl)).Msg("m")
	return e.Lvl
}

type cw struct{ n int }

func (w *cw) Write(p []byte) (int, error) { w.n++; return len(p), nil }

func runLogger(c *LoggerCase) (string, bool) {
	defer zerolog.SetGlobalLevel(zerolog.TraceLevel)
	defer zerolog.DisableSampling(false)
	w := &cw{}
	l := zerolog.New(w).Level(zerolog.Level(c.LoggerLevel)).Sample(build(c.Spec))
	type ctxKey struct{}
	switch c.Derive {
	case "ctx":
		l = l.With().Ctx(context.WithValue(context.Background(), ctxKey{}, "v")).Logger()
	case "fields":
		l = l.With().Str("k", "v").Timestamp().Logger()
	case "hook":
		l = l.Hook(zerolog.HookFunc(func(*zerolog.Event, zerolog.Level, string) {}))
	case "output":
		l = l.Output(w)
	case "stack":
		l = l.With().Stack().Caller().Logger()
	case "all":
		l = l.With().Ctx(context.WithValue(context.Background(), ctxKey{}, "v")).Str("k", "v").Stack().Logger().Hook(zerolog.HookFunc(func(*zerolog.Event, zerolog.Level, string) {})).Output(w)
	}
	m := newModel(c.Spec)
	for i, e := range c.Events {
		clock = e.Now
		zerolog.SetGlobalLevel(zerolog.Level(e.Global))
		zerolog.DisableSampling(e.Disable)
		w.n = 0
		lvl := emit(&l, e)
		want := lvl >= c.LoggerLevel && lvl >= e.Global && lvl != 7
		if want && !e.Disable {
			want = m.sample(lvl, e.Now)
		}
		if (w.n == 1) != want {
			return fmt.Sprintf("event %d (%+v): written=%v, model %v (events rejected by a level gate or under DisableSampling(true) must not consume sampler budget)", i, e, w.n == 1, want), m.nontrivial()
		}
	}
	return "", m.nontrivial()
}

func TestRapidThroughLogger(t *testing.T) {
	rapid.Check(t, func(rt *rapid.T) {
		c := &LoggerCase{Spec: genSpec(rt, 2, "spec"), LoggerLevel: rapid.SampledFrom([]int{-1, 0, 1, 2}).Draw(rt, "ll"),
			Derive: rapid.SampledFrom([]string{"", "", "ctx", "fields", "hook", "output", "stack", "all"}).Draw(rt, "derive")}
		calls := genCalls(rt, 60)
		for _, cl := range calls {
			if rapid.IntRange(0, 9).Draw(rt, "disabledlvl") == 0 {
				cl.Lvl = 7 // WithLevel(Disabled): never written, and rejected before the sampler is asked
			}
			c.Events = append(c.Events, LEvt{Lvl: cl.Lvl, Now: cl.Now, Global: rapid.SampledFrom([]int{-1, -1, -1, 0, 1, 3}).Draw(rt, "gl"), Disable: rapid.IntRange(0, 5).Draw(rt, "dis") == 0,
				Via: rapid.SampledFrom([]string{"", "", "method", "method", "log", "write", "print", "printf", "println", "err", "pkgprint", "pkgprintf", "pkginfo", "pkglog", "pkgerr"}).Draw(rt, "via")})
		}
		msg, nt := runLogger(c)
		b, _ := json.Marshal(c)
		rec.Case(b, nt, "through-logger")
		if msg != "" {
			fail(rt, "logger", c, msg)
		}
	})
}

// ---- concurrent BasicSampler

type ConcCase struct {
	N  uint32 `json:"n"`
	Ks []int  `json:"calls_per_goroutine"`
}

func runConcurrent(c *ConcCase) string {
	s := &zerolog.BasicSampler{N: c.N}
	var wg sync.WaitGroup
	start := make(chan struct{})
	admitted := make([]int, len(c.Ks))
	total := 0
	for g, k := range c.Ks {
		total += k
		wg.Add(1)
		go func(g, k int) {
			defer wg.Done()
			<-start
			for i := 0; i < k; i++ {
				if s.Sample(zerolog.InfoLevel) {
					admitted[g]++
				}
			}
		}(g, k)
	}
	close(start)
	wg.Wait()
	sum := 0
	for _, a := range admitted {
		sum += a
	}
	want := 0
	if c.N == 1 {
		want = total
	} else if c.N > 1 {
		want = (total + int(c.N) - 1) / int(c.N)
	}
	if sum != want {
		return fmt.Sprintf("BasicSampler{N:%d} shared by %d goroutines: %d of %d admitted, want %d", c.N, len(c.Ks), sum, total, want)
	}
	return ""
}

func TestConcurrentBasic(t *testing.T) {
	rapid.Check(t, func(rt *rapid.T) {
		c := &ConcCase{N: rapid.SampledFrom([]uint32{0, 1, 2, 3, 5, 10}).Draw(rt, "n")}
		g := rapid.IntRange(2, 16).Draw(rt, "g")
		for i := 0; i < g; i++ {
			c.Ks = append(c.Ks, rapid.IntRange(1, 3000).Draw(rt, "k"))
		}
		b, _ := json.Marshal(c)
		rec.Case(b, c.N > 1, "concurrent-basic")
		if msg := runConcurrent(c); msg != "" {
			fail(rt, "concurrent", c, msg)
		}
	})
}

func TestReplay(t *testing.T) {
	f := os.Getenv("VERIF_REPLAY")
	if f == "" {
		t.Skip("no VERIF_REPLAY")
	}
	b, err := os.ReadFile(f)
	if err != nil {
		t.Fatal(err)
	}
	rec.Case(b, true, "replay")
	rec.Case(append(b, 1), true, "replay")
	rec.Sample(json.RawMessage(b))
	var probe map[string]json.RawMessage
	json.Unmarshal(b, &probe)
	msg := ""
	switch {
	case probe["calls_per_goroutine"] != nil:
		var c ConcCase
		json.Unmarshal(b, &c)
		for i := 0; i < 200 && msg == ""; i++ {
			msg = runConcurrent(&c)
		}
	case probe["events"] != nil:
		var c LoggerCase
		json.Unmarshal(b, &c)
		msg, _ = runLogger(&c)
	default:
		var c Case
		json.Unmarshal(b, &c)
		if c.Spec.Kind == "basic" && len(c.Calls) > 0 && c.Calls[0] == (Call{}) {
			TestExhaustiveBasic(t)
			return
		}
		msg, _ = runBare(&c)
	}
	if msg != "" {
		fail(t, "replay", json.RawMessage(b), msg)
	}
}

// TestCounterWrap: a BasicSampler that has already been asked 2^32-k times (its counter is put there
// directly; running that many calls takes minutes) must keep its every-Nth cadence across the next
// calls. On the tree as it stands it does not unless N divides 2^32: recorded as known finding KF-C13-1
// (the signature: the first deviation is exactly where the 32-bit counter wraps, and N is not a power of two).
func TestCounterWrap(t *testing.T) {
	for _, N := range []uint32{2, 3, 4, 7, 10, 16} {
		s := &zerolog.BasicSampler{N: N}
		f := reflect.ValueOf(s).Elem().FieldByName("counter")
		if f.IsValid() && f.Kind() == reflect.Struct { // a typed atomic (atomic.Uint32): the word inside it
			for i := 0; i < f.NumField(); i++ {
				if f.Field(i).Kind() == reflect.Uint32 {
					f = f.Field(i)
					break
				}
			}
		}
		if !f.IsValid() || f.Kind() != reflect.Uint32 {
			t.Fatalf("HARNESS-ERROR: BasicSampler has no uint32 field named counter")
		}
		const before = 6
		atomic.StoreUint32((*uint32)(unsafe.Pointer(f.UnsafeAddr())), ^uint32(0)-before+1) // 2^32-before calls made
		made := uint64(1)<<32 - before
		firstBad := -1
		for i := 0; i < 40; i++ {
			made++
			want := made%uint64(N) == 1 // call number `made` of the sampler's life
			if got := s.Sample(zerolog.InfoLevel); got != want && firstBad < 0 {
				firstBad = i
			}
		}
		rec.Case([]byte(fmt.Sprintf("counter wrap N=%d", N)), true, "counter-wrap")
		if firstBad < 0 {
			continue
		}
		if firstBad >= before-1 && firstBad <= before+int(N) && N&(N-1) != 0 {
			fmt.Println("KNOWN-REPRODUCED KF-C13-1")
			continue
		}
		c := Case{Spec: &Spec{Kind: "basic", N: N}, Calls: []Call{{Lvl: 1}}, Warmup: int(firstBad)}
		fail(t, "counterwrap", c, fmt.Sprintf("BasicSampler{N:%d}: after 2^32-%d calls the cadence breaks at call +%d, which is not where the 32-bit counter wraps", N, before, firstBad))
	}
}
