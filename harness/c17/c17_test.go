//go:build binary_log

// C17 — the CBOR decoder is total: errors not crashes; truncation costs only the last event.
package c17

import (
	"time"
	"bytes"
	"encoding/binary"
	"encoding/hex"
	"encoding/json"
	"fmt"
	"io"
	"math"
	"os"
	"path/filepath"
	"runtime"
	"runtime/metrics"
	"sync"
	"testing"

	"github.com/rs/zerolog"
	"github.com/rs/zerolog/journald"
	"pgregory.net/rapid"
	"verif/harness/cborref"
	"verif/harness/ev"
	"verif/harness/lp"
)

const rule = "cases = byte strings: every 1-2 byte string and 3-byte strings (sampled in quick, all in thorough) alone and followed by a valid tail; structure-aware random CBOR with lying lengths / reserved additional info / misplaced breaks / wrong tag contents / deep nesting; mutations of valid logger output; every cut point of valid multi-event streams (also: one whole event plus part of the next through ConsoleWriter.Write, which must render the whole event as it does alone). Entry points: Cbor2JsonManyObjects, DecodeIfBinaryToBytes/String, ConsoleWriter.Write, journald writer's Write (no journal socket in the sandbox: decoding and field conversion run, the send fails). oracle = call returns, no panic escapes, output <= 1 KiB + 64*len(input) and bytes allocated <= 64KiB + 64*len(input) + 6*len(output), a returned result unchanged by a later decode, prefix stability. non-trivial = input reaches a length-prefixed read, a tag handler or nesting depth >= 2 (header scan); distinct = FNV-64 of the input, enumerations by construction"

var rec = ev.New("C17", rule)

func TestMain(m *testing.M) {
	code := m.Run()
	rec.Flush()
	os.Exit(code)
}

var sidePath string

func init() {
	if d := os.Getenv("VERIF_EV_OUT"); d != "" {
		os.MkdirAll(d, 0o755)
		sidePath = filepath.Join(d, fmt.Sprintf("inflight-%s-%s.bin", os.Getenv("VERIF_JOB"), os.Getenv("VERIF_SHARD")))
	}
}

// dangerous: a head that announces a 4- or 8-byte length/count.
func dangerous(in []byte) bool {
	for _, b := range in {
		if ai := b & 0x1f; (ai == 26 || ai == 27) && b>>5 >= 2 && b>>5 <= 5 {
			return true
		}
	}
	return false
}

var allocSample = []metrics.Sample{{Name: "/gc/heap/allocs:bytes"}}

func allocated() uint64 {
	metrics.Read(allocSample)
	return allocSample[0].Value.Uint64()
}

// measure returns the bytes allocated by f. The cheap runtime/metrics counter is updated
// in span-sized lumps, so it only screens: above the bound the call is repeated between two
// runtime.ReadMemStats calls, which flush the allocation caches and are exact.
func measure(f func(), bound uint64) uint64 {
	a0 := allocated()
	f()
	d := allocated() - a0
	if d <= bound {
		return d
	}
	var m0, m1 runtime.MemStats
	runtime.ReadMemStats(&m0)
	f()
	runtime.ReadMemStats(&m1)
	return m1.TotalAlloc - m0.TotalAlloc
}

type failure struct {
	Entry string `json:"entry"`
	Input string `json:"input_hex"`
	What  string `json:"what"`
}

// call runs f, converting any escaping panic into a description.
func call(f func()) (panicked string) {
	defer func() {
		if r := recover(); r != nil {
			if re, ok := r.(runtime.Error); ok {
				panicked = "runtime error panic: " + re.Error()
			} else {
				panicked = fmt.Sprintf("panic: %v", r)
			}
		}
	}()
	f()
	return ""
}

// otherEvent is a valid binary event ({"other":"event","n":1234567}) decoded between two looks at an earlier result.
var otherEvent = []byte{0xbf, 0x65, 'o', 't', 'h', 'e', 'r', 0x65, 'e', 'v', 'e', 'n', 't', 0x61, 'n', 0x1a, 0x00, 0x12, 0xd6, 0x87, 0xff}

const otherEventText = "{\"other\":\"event\",\"n\":1234567}\n"

var console = zerolog.ConsoleWriter{Out: io.Discard, NoColor: true}

// consoleVariants: the options that change which code renders an event (ordering, exclusion, colour,
// formatters of the program's own, the constructor)
var consoleVariants = []zerolog.ConsoleWriter{
	{Out: io.Discard, NoColor: true, FieldsOrder: []string{"zebra", "b", "error", "a", "k"}, FieldsExclude: []string{"x"}},
	{Out: io.Discard, NoColor: false, PartsOrder: []string{"message", "level", "caller", "time"}, PartsExclude: []string{"caller"}, FieldsOrder: []string{"error"}, TimeFormat: "2006-01-02"},
	{Out: io.Discard, NoColor: true, FieldsOrder: []string{"a"}, FormatFieldName: func(i interface{}) string { return fmt.Sprintf("%v:", i) }, FormatErrFieldValue: func(i interface{}) string { return fmt.Sprintf("<%v>", i) },
		FormatPrepare: func(m map[string]interface{}) error { delete(m, "a"); return nil }},
	zerolog.NewConsoleWriter(func(w *zerolog.ConsoleWriter) {
		w.Out, w.NoColor = io.Discard, true
		w.FieldsOrder = []string{"time", "error", "zz"}
	}),
}

// journal decodes the binary event and hands it to the journal socket, which does not exist in
// the sandbox: Write fails after the decoding and field conversion this check is about
var journal = journald.NewJournalDWriter()

// checkInput exercises every entry point on in. Returns "" or what failed.
func checkInput(in []byte, withConsole bool) *failure {
	if sidePath != "" && dangerous(in) {
		os.WriteFile(sidePath, in, 0o644)
	}
	bound := uint64(64*1024 + 64*len(in))
	var out bytes.Buffer
	var pan string
	d := measure(func() {
		out.Reset()
		pan = call(func() { zerolog.VerifCbor2JsonManyObjects(bytes.NewReader(in), &out) })
	}, bound)
	if pan != "" {
		return &failure{"Cbor2JsonManyObjects", hex.EncodeToString(in), pan}
	}
	// the same input into a destination that is nothing but an io.Writer: same output, all of it there on return
	var out2 bytes.Buffer
	if p2 := call(func() { zerolog.VerifCbor2JsonManyObjects(bytes.NewReader(in), plainW{&out2}) }); p2 != "" {
		return &failure{"Cbor2JsonManyObjects(plain writer)", hex.EncodeToString(in), p2}
	}
	if !bytes.Equal(out.Bytes(), out2.Bytes()) {
		return &failure{"Cbor2JsonManyObjects(plain writer)", hex.EncodeToString(in), fmt.Sprintf("a plain io.Writer destination received %.120q, a bytes.Buffer %.120q", out2.Bytes(), out.Bytes())}
	}
	// the output itself may be up to ~36x the input (a 9-byte float64 such as 5e-324 or 1.8e308 is
	// printed with 'f' formatting: 300+ digits), and growing a buffer by doubling allocates a
	// small multiple of its final size: the allowance is linear in input and output, and the
	// output must stay in proportion to the input
	if out.Len() > 1024+64*len(in) {
		return &failure{"Cbor2JsonManyObjects", hex.EncodeToString(in), fmt.Sprintf("%d output bytes for %d input bytes", out.Len(), len(in))}
	}
	if d > bound+6*uint64(out.Cap()) {
		return &failure{"Cbor2JsonManyObjects", hex.EncodeToString(in), fmt.Sprintf("allocated %d bytes for %d input bytes, %d output bytes (bound %d)", d, len(in), out.Len(), bound+6*uint64(out.Cap()))}
	}
	var b2 []byte
	d = measure(func() {
		pan = call(func() { b2 = zerolog.VerifDecodeIfBinaryToBytes(in) })
	}, bound)
	if pan != "" {
		return &failure{"DecodeIfBinaryToBytes", hex.EncodeToString(in), pan}
	}
	// "decoded exactly": what a decode returned stays what it was when something else is decoded next
	snap := append([]byte{}, b2...)
	call(func() { zerolog.VerifDecodeIfBinaryToBytes(otherEvent) })
	if !bytes.Equal(snap, b2) {
		return &failure{"DecodeIfBinaryToBytes", hex.EncodeToString(in), fmt.Sprintf("the returned bytes changed when another event was decoded afterwards: first %.80q, now %.80q", snap, b2)}
	}
	// ... and whatever this input did to the decoder (an error in mid-event included), a valid
	// event decoded afterwards comes out as exactly itself, through both entry points
	var after bytes.Buffer
	call(func() { zerolog.VerifCbor2JsonManyObjects(bytes.NewReader(otherEvent), &after) })
	if after.String() != otherEventText {
		return &failure{"Cbor2JsonManyObjects", hex.EncodeToString(in), fmt.Sprintf("a valid event decoded after this input comes out as %.120q, want %q", after.String(), otherEventText)}
	}
	var afterB []byte
	call(func() { afterB = zerolog.VerifDecodeIfBinaryToBytes(otherEvent) })
	if string(afterB) != otherEventText {
		return &failure{"DecodeIfBinaryToBytes", hex.EncodeToString(in), fmt.Sprintf("a valid event decoded after this input comes out as %.120q, want %q", afterB, otherEventText)}
	}
	if len(b2) > 1024+64*len(in) {
		return &failure{"DecodeIfBinaryToBytes", hex.EncodeToString(in), fmt.Sprintf("%d output bytes for %d input bytes", len(b2), len(in))}
	}
	if d > bound+6*uint64(cap(b2)) {
		return &failure{"DecodeIfBinaryToBytes", hex.EncodeToString(in), fmt.Sprintf("allocated %d bytes for %d input bytes, %d output bytes (bound %d)", d, len(in), len(b2), bound+6*uint64(cap(b2)))}
	}
	if p := call(func() { zerolog.VerifDecodeIfBinaryToString(in) }); p != "" {
		return &failure{"DecodeIfBinaryToString", hex.EncodeToString(in), p}
	}
	if withConsole {
		if p := call(func() { console.Write(in) }); p != "" {
			return &failure{"ConsoleWriter.Write", hex.EncodeToString(in), p}
		}
		for i, cw := range consoleVariants {
			if p := call(func() { cw.Write(in) }); p != "" {
				return &failure{fmt.Sprintf("ConsoleWriter.Write (configuration %d)", i), hex.EncodeToString(in), p}
			}
		}
		if p := call(func() { journal.Write(in) }); p != "" {
			return &failure{"journald Write", hex.EncodeToString(in), p}
		}
	}
	if sidePath != "" && dangerous(in) {
		os.Remove(sidePath)
	}
	return nil
}

func fail(t interface{ Fatalf(string, ...interface{}) }, name string, f *failure) {
	ev.SaveReplay("C17-"+name, f)
	fmt.Printf("VERIF-FAIL: %s on input %s: %s\n", f.Entry, f.Input, f.What)
	t.Fatalf("%s on input %s: %s", f.Entry, f.Input, f.What)
}

// headerScan classifies an input: does it reach a length-prefixed read, a tag, depth>=2?
func nontrivialInput(in []byte) (bool, []string) {
	var labels []string
	depth, maxDepth := 0, 0
	nt := false
	for _, b := range in {
		switch b >> 5 {
		case 2, 3:
			nt = true
			labels = append(labels, "string-head")
		case 4, 5:
			depth++
			if depth > maxDepth {
				maxDepth = depth
			}
		case 6:
			nt = true
			labels = append(labels, "tag")
		}
		if len(labels) > 6 {
			break
		}
	}
	if maxDepth >= 2 {
		nt = true
		labels = append(labels, "depth>=2")
	}
	if _, _, err := cborref.ParseOne(in); err == nil {
		labels = append(labels, "wellformed-first-item")
	} else {
		labels = append(labels, "malformed")
	}
	return nt, labels
}

// validTail is a small valid event as produced by the binary logger.
func validTail() []byte {
	var buf bytes.Buffer
	l := zerolog.New(&buf)
	l.Log().Str("k", "v").Int("n", 300).Msg("m")
	return buf.Bytes()
}

func TestExhaustiveHeaders(t *testing.T) {
	sh, nsh := ev.Shard()
	tail := validTail()
	var n, nt int64
	try := func(in []byte) {
		n++
		if in[0]>>5 >= 2 {
			nt++
		}
		if f := checkInput(in, n%64 == 0); f != nil {
			fail(t, "headers", f)
		}
		withTail := append(append([]byte{}, in...), tail...)
		if f := checkInput(withTail, false); f != nil {
			fail(t, "headers", f)
		}
	}
	if sh == 0 {
		for a := 0; a < 256; a++ {
			try([]byte{byte(a)})
		}
	}
	for a := sh; a < 256; a += nsh {
		for b := 0; b < 256; b++ {
			try([]byte{byte(a), byte(b)})
		}
	}
	// grid: every tag zerolog knows (and a few it does not) x every container/string major type x
	// lying lengths in every head width, alone, inside an indefinite map, and followed by a few
	// payload bytes — the places where a decoder sizes a buffer from the input
	if sh == 0 {
		tags := [][]byte{{0xc1}, {0xd8, 0x3f}, {0xd9, 0x01, 0x04}, {0xd9, 0x01, 0x05}, {0xd9, 0x01, 0x05, 0xa1}, {0xd9, 0x01, 0x06}, {0xd9, 0x01, 0x07}, {0xc2}, {0xd9, 0x03, 0xe8}, {}}
		lies := []uint64{24, 255, 256, 65535, 65536, 1 << 20, 1<<26 + 3, 1<<30 - 1, 1 << 31, 1<<32 - 1, 1 << 32, 1 << 40, 1<<62 + 5, 1<<63 - 1, 1 << 63, 1<<64 - 1}
		for _, tg := range tags {
			for major := byte(2); major <= 5; major++ {
				for _, lie := range lies {
					for _, w := range []int{1, 2, 4, 8} {
						if w == 1 && lie > 255 || w == 2 && lie > 65535 || w == 4 && lie > 1<<32-1 {
							continue
						}
						head := []byte{major<<5 | byte(23+map[int]int{1: 1, 2: 2, 4: 3, 8: 4}[w])}
						for i := w - 1; i >= 0; i-- {
							head = append(head, byte(lie>>(8*uint(i))))
						}
						item := append(append([]byte{}, tg...), head...)
						for _, suffix := range [][]byte{nil, []byte("abc"), {0xff}} {
							try(append(append([]byte{}, item...), suffix...))
							try(append(append([]byte{0xbf, 0x61, 0x6b}, item...), suffix...))
						}
					}
				}
			}
		}
	}
	// grid 2: every tag x every special scalar (non-finite / extreme floats of each width, integer
	// boundaries in each head width, simple values), alone, as a map value, as a map key and
	// inside an array — the tag handlers convert their content with code of their own
	if sh == 0 {
		tags := [][]byte{{0xc0}, {0xc1}, {0xc2}, {0xc3}, {0xd8, 0x3f}, {0xd9, 0x01, 0x04}, {0xd9, 0x01, 0x05}, {0xd9, 0x01, 0x06}, {0xd9, 0x01, 0x07}, {0xd9, 0x03, 0xe8}, {},
			// tag numbers in the 4- and 8-byte argument forms: known tags spelled long, and numbers up to 2^64-1
			{0xda, 0, 0, 0, 1}, {0xda, 0, 0, 1, 6}, {0xda, 0xff, 0xff, 0xff, 0xff}, {0xdb, 0, 0, 0, 0, 0, 0, 0, 1}, {0xdb, 0, 0, 0, 0, 0, 0, 1, 4},
			{0xdb, 0x7f, 0xff, 0xff, 0xff, 0xff, 0xff, 0xff, 0xff}, {0xdb, 0x80, 0, 0, 0, 0, 0, 0, 0}, {0xdb, 0xff, 0xff, 0xff, 0xff, 0xff, 0xff, 0xff, 0xff}, {0xd8, 0x01}, {0xd8, 0xff}}
		for _, tg := range tags {
			for _, sc := range specialScalars() {
				item := append(append([]byte{}, tg...), sc...)
				try(item)
				try(append(append([]byte{0xbf, 0x61, 0x6b}, item...), 0xff))
				try(append(append([]byte{0xbf}, item...), 0x01, 0xff))
				try(append(append([]byte{0x9f}, item...), 0xff))
				try(append(append([]byte{0xbf, 0x61, 0x6b, 0x82}, item...), item...))
			}
		}
	}
	// every special scalar (and its tagged forms) as the value of the keys ConsoleWriter and the journald
	// writer give a meaning to: time, level, message, caller, error
	if sh == 0 {
		for _, key := range []string{"time", "level", "message", "caller", "error"} {
			for _, tg := range [][]byte{{}, {0xc1}, {0xc0}, {0xd9, 0x01, 0x06}} {
				for _, sc := range specialScalars() {
					in := append([]byte{0xbf, 0x60 | byte(len(key))}, key...)
					in = append(append(append(in, tg...), sc...), 0xff)
					n++
					nt++
					if f := checkInput(in, true); f != nil {
						fail(t, "headers", f)
					}
				}
			}
		}
	}
	if ev.Thorough() {
		for a := sh; a < 256; a += nsh {
			for b := 0; b < 256; b++ {
				for c := 0; c < 256; c++ {
					try([]byte{byte(a), byte(b), byte(c)})
				}
			}
		}
		rec.Exhaustive(fmt.Sprintf("every 1-, 2- and 3-byte string alone and followed by a valid event (shard %d/%d)", sh, nsh))
	} else {
		// stratified sample of 3-byte strings: every first byte x 16 x 16
		seed := byte(ev.Seed())
		for a := 0; a < 256; a++ {
			for b := 0; b < 256; b += 16 {
				for c := 0; c < 256; c += 16 {
					try([]byte{byte(a), byte(b) + seed%16, byte(c) + (seed/16)%16})
				}
			}
		}
		rec.Exhaustive("every 1- and 2-byte string alone and followed by a valid event; 3-byte strings stratified (65536)")
	}
	rec.Bulk(2*n, 2*nt, "exhaustive-headers")
	rec.Sample(map[string]interface{}{"campaign": "exhaustive headers", "inputs": n, "examples_hex": []string{"5b", "9f9f", "d9ffff", "5a3fff", "bf61"}})
}

// specialScalars lists scalar items whose conversion has corner cases of its own.
func specialScalars() [][]byte {
	var out [][]byte
	for _, f := range []float64{0, math.Copysign(0, -1), 1.5, -1.5, math.NaN(), math.Inf(1), math.Inf(-1), math.MaxFloat64, -math.MaxFloat64, math.SmallestNonzeroFloat64,
		1e300, -1e300, 9223372036854775808, -9223372036854775809, 253402300800, -62135596801, 1e18, 4294967296.5, math.MaxFloat32, 65504} {
		b := make([]byte, 9)
		b[0] = 0xfb
		binary.BigEndian.PutUint64(b[1:], math.Float64bits(f))
		out = append(out, b)
		c := make([]byte, 5)
		c[0] = 0xfa
		binary.BigEndian.PutUint32(c[1:], math.Float32bits(float32(f)))
		out = append(out, c)
	}
	// a signalling NaN and a NaN with payload, in both widths; every float16 class
	out = append(out, []byte{0xfb, 0x7f, 0xf0, 0, 0, 0, 0, 0, 1}, []byte{0xfb, 0xff, 0xff, 0xff, 0xff, 0xff, 0xff, 0xff, 0xff}, []byte{0xfa, 0x7f, 0x80, 0, 1}, []byte{0xfa, 0xff, 0xff, 0xff, 0xff})
	for _, h := range []uint16{0x0000, 0x8000, 0x3c00, 0x7c00, 0xfc00, 0x7e00, 0xfe00, 0x7c01, 0x0001, 0x7bff, 0xfbff} {
		out = append(out, []byte{0xf9, byte(h >> 8), byte(h)})
	}
	for major := byte(0); major <= 1; major++ {
		for _, v := range []uint64{0, 23, 24, 255, 256, 65535, 65536, 1<<31 - 1, 1 << 31, 1<<32 - 1, 1 << 32, 1<<53 + 1, 1<<63 - 1, 1 << 63, 1<<64 - 1, 253402300799, 253402300800} {
			for _, w := range []int{0, 1, 2, 4, 8} {
				if w == 0 && v > 23 || w == 1 && v > 255 || w == 2 && v > 65535 || w == 4 && v > 1<<32-1 {
					continue
				}
				if w == 0 {
					out = append(out, []byte{major<<5 | byte(v)})
					continue
				}
				head := []byte{major<<5 | byte(23+map[int]int{1: 1, 2: 2, 4: 3, 8: 4}[w])}
				for i := w - 1; i >= 0; i-- {
					head = append(head, byte(v>>(8*uint(i))))
				}
				out = append(out, head)
			}
		}
	}
	// byte and text strings with real content, lengths on both sides of 23/24, 32 and 64
	for _, major := range []byte{2, 3} {
		for _, n := range []int{1, 2, 4, 6, 16, 23, 24, 31, 32, 33, 63, 64, 65} {
			b := []byte{major<<5 | byte(n)}
			if n > 23 {
				b = []byte{major<<5 | 24, byte(n)}
			}
			for i := 0; i < n; i++ {
				b = append(b, byte('a'+i%26))
			}
			out = append(out, b)
		}
	}
	for _, sv := range [][]byte{{0xf4}, {0xf5}, {0xf6}, {0xf7}, {0xf8, 0x00}, {0xf8, 0x20}, {0xf8, 0xff}, {0xe0}, {0xf3}, {0xfc}, {0xfd}, {0xfe}, {0xff}, {0x60}, {0x40}, {0x80}, {0xa0}} {
		out = append(out, sv)
	}
	return out
}

// ---- structure-aware generator

type gen struct{ t *rapid.T }

func (g gen) head(major byte, n uint64, out *[]byte) {
	t := g.t
	mode := rapid.IntRange(0, 9).Draw(t, "headmode")
	switch {
	case mode == 0: // reserved / indefinite additional info
		*out = append(*out, major<<5|byte(rapid.IntRange(28, 31).Draw(t, "ai")))
		return
	case mode == 1: // lying length
		n = rapid.SampledFrom([]uint64{0, 1, 23, 24, 255, 256, 65535, 65536, 1 << 20, 1<<30 - 1, 1 << 31, 1<<32 - 1, 1 << 32, 1<<62 + 5, 1<<63 - 1, 1 << 63, 1<<64 - 1, n + 1, n + 1000}).Draw(t, "lie")
	}
	w := rapid.IntRange(0, 4).Draw(t, "width")
	switch {
	case n < 24 && w == 0:
		*out = append(*out, major<<5|byte(n))
	case n < 256 && w <= 1:
		*out = append(*out, major<<5|24, byte(n))
	case n < 65536 && w <= 2:
		*out = append(*out, major<<5|25)
		*out = binary.BigEndian.AppendUint16(*out, uint16(n))
	case n < 1<<32 && w <= 3:
		*out = append(*out, major<<5|26)
		*out = binary.BigEndian.AppendUint32(*out, uint32(n))
	default:
		*out = append(*out, major<<5|27)
		*out = binary.BigEndian.AppendUint64(*out, n)
	}
}

func (g gen) item(depth int, out *[]byte) {
	t := g.t
	k := rapid.IntRange(0, 11).Draw(t, "kind")
	if depth <= 0 && k >= 4 && k <= 6 {
		k = 0
	}
	switch k {
	case 0:
		g.head(0, rapid.Uint64().Draw(t, "u")>>uint(rapid.IntRange(0, 63).Draw(t, "sh")), out)
	case 1:
		g.head(1, rapid.Uint64().Draw(t, "u")>>uint(rapid.IntRange(0, 63).Draw(t, "sh")), out)
	case 2, 3:
		b := rapid.SliceOfN(rapid.Byte(), 0, 40).Draw(t, "payload")
		g.head(byte(k), uint64(len(b)), out)
		*out = append(*out, b...)
	case 4:
		n := rapid.IntRange(0, 4).Draw(t, "n")
		indef := rapid.Bool().Draw(t, "indef")
		if indef {
			*out = append(*out, 0x9f)
		} else {
			g.head(4, uint64(n), out)
		}
		for i := 0; i < n; i++ {
			g.item(depth-1, out)
		}
		if indef && rapid.IntRange(0, 7).Draw(t, "brk") != 0 {
			*out = append(*out, 0xff)
		}
	case 5:
		n := rapid.IntRange(0, 3).Draw(t, "n")
		indef := rapid.Bool().Draw(t, "indef")
		if indef {
			*out = append(*out, 0xbf)
		} else {
			g.head(5, uint64(n), out)
		}
		items := 2 * n
		if rapid.IntRange(0, 7).Draw(t, "odd") == 0 {
			items++
		}
		for i := 0; i < items; i++ {
			if i%2 == 0 && rapid.IntRange(0, 3).Draw(t, "txtkey") != 0 {
				b := []byte(rapid.StringMatching(`[a-z"\\]{0,6}`).Draw(t, "key"))
				g.head(3, uint64(len(b)), out)
				*out = append(*out, b...)
			} else {
				g.item(depth-1, out)
			}
		}
		if indef && rapid.IntRange(0, 7).Draw(t, "brk") != 0 {
			*out = append(*out, 0xff)
		}
	case 6:
		tag := rapid.SampledFrom([]uint64{1, 1, 63, 260, 261, 262, 263, 260, 261, 2, 0, 1000, 1 << 40, 1 << 63, 1<<64 - 1, 1<<63 - 1}).Draw(t, "tag")
		g.head(6, tag, out)
		g.item(depth-1, out)
	case 7:
		if rapid.Bool().Draw(t, "special") {
			sp := specialScalars()
			*out = append(*out, sp[rapid.IntRange(0, len(sp)-1).Draw(t, "sp")]...)
			return
		}
		*out = append(*out, 0xe0|byte(rapid.IntRange(0, 31).Draw(t, "simple")))
		*out = append(*out, rapid.SliceOfN(rapid.Byte(), 0, 8).Draw(t, "fl")...)
	case 8:
		*out = append(*out, 0xff)
	case 9:
		// deep nesting
		n := rapid.IntRange(1, 3000).Draw(t, "deep")
		if rapid.IntRange(0, 3).Draw(t, "deeper") == 0 {
			n = rapid.SampledFrom([]int{9999, 10000, 10001, 12000, 30000, 60000}).Draw(t, "deepn")
		}
		c := rapid.SampledFrom([]byte{0x9f, 0xbf, 0x81, 0xc1, 0xd9}).Draw(t, "deepc")
		for i := 0; i < n; i++ {
			*out = append(*out, c)
		}
	case 10:
		// well-formed network prefix / address with odd sizes
		sz := rapid.SampledFrom([]int{0, 3, 4, 5, 6, 15, 16, 17, 32}).Draw(t, "sz")
		if rapid.Bool().Draw(t, "pfx") {
			*out = append(*out, 0xd9, 0x01, 0x05, 0xa1)
			*out = append(*out, 0x40|byte(sz))
			*out = append(*out, make([]byte, sz)...)
			g.item(0, out)
		} else {
			*out = append(*out, 0xd9, 0x01, 0x04, 0x40|byte(sz))
			*out = append(*out, make([]byte, sz)...)
		}
	default:
		*out = append(*out, rapid.SliceOfN(rapid.Byte(), 0, 12).Draw(t, "raw")...)
	}
}

func TestRapidStructured(t *testing.T) {
	rapid.Check(t, func(rt *rapid.T) {
		g := gen{rt}
		var in []byte
		n := rapid.IntRange(1, 4).Draw(rt, "items")
		for i := 0; i < n; i++ {
			g.item(4, &in)
		}
		if len(in) > 65536 {
			in = in[:65536]
		}
		nt, labels := nontrivialInput(in)
		rec.Case(in, nt, labels...)
		rec.Sample(hex.EncodeToString(in))
		if f := checkInput(in, true); f != nil {
			fail(rt, "structured", f)
		}
	})
}

// stream returns the bytes the binary logger writes for a generated program, with event
// boundaries.
func stream(rt *rapid.T) (all []byte, bounds []int) {
	cfg := lp.DefaultCfg()
	cfg.Binary = true
	cfg.NoLong = rapid.IntRange(0, 5).Draw(rt, "nolong") != 0 // some streams exceed the decoder's 4 KiB read buffer
	cfg.NoCaller = true
	cfg.C08 = true
	g := lp.NewG(rt, cfg)
	p := g.Program(2, 4)
	p.Set.ErrMarshal = ""
	res := lp.Run(p)
	var evs [][]byte
	for _, d := range res.Dests {
		for _, w := range d {
			evs = append(evs, w.Data)
		}
	}
	// one stream in three is stretched beyond two decoder read buffers (2 x 4096 bytes) by
	// repeating its events, so that items straddle the buffer refill boundaries
	target := 0
	if len(evs) > 0 && rapid.IntRange(0, 2).Draw(rt, "stretch") == 0 {
		target = rapid.IntRange(4000, 9500).Draw(rt, "target")
	}
	for i := 0; i < len(evs) || (len(all) < target && len(evs) > 0 && i < 4000); i++ {
		all = append(all, evs[i%len(evs)]...)
		bounds = append(bounds, len(all))
	}
	return
}

func TestRapidMutations(t *testing.T) {
	rapid.Check(t, func(rt *rapid.T) {
		in, _ := stream(rt)
		if len(in) == 0 {
			in = validTail()
		}
		in = append([]byte{}, in...)
		nm := rapid.IntRange(1, 4).Draw(rt, "nmut")
		for i := 0; i < nm && len(in) > 0; i++ {
			pos := rapid.IntRange(0, len(in)-1).Draw(rt, "pos")
			switch rapid.IntRange(0, 4).Draw(rt, "mut") {
			case 0:
				in[pos] ^= 1 << uint(rapid.IntRange(0, 7).Draw(rt, "bit"))
			case 1:
				in[pos] = rapid.SampledFrom([]byte{0x5a, 0x5b, 0x7a, 0x7b, 0x9a, 0x9b, 0xba, 0xbb, 0xff, 0x9f, 0xbf, 0xd9, 0xc1, 0x1c, 0x3f, 0xf9, 0xfa, 0xfb}).Draw(rt, "hostile")
			case 2:
				in = append(in[:pos], in[pos+1:]...)
			case 3:
				ins := rapid.SliceOfN(rapid.Byte(), 1, 9).Draw(rt, "ins")
				in = append(in[:pos], append(ins, in[pos:]...)...)
			case 4:
				end := rapid.IntRange(pos, len(in)).Draw(rt, "end")
				in = append(in[:pos], in[end:]...)
			}
		}
		nt, labels := nontrivialInput(in)
		rec.Case(in, nt, append(labels, "mutated-valid-stream")...)
		rec.Sample(hex.EncodeToString(in))
		if f := checkInput(in, true); f != nil {
			fail(rt, "mutation", f)
		}
	})
}

// plainW hides every method of the buffer except Write.
type plainW struct{ b *bytes.Buffer }

func (p plainW) Write(q []byte) (int, error) { return p.b.Write(q) }

type cutFailure struct {
	Stream string `json:"stream_hex"`
	Bounds []int  `json:"event_boundaries"`
	Cut    int    `json:"cut"`
	What   string `json:"what"`
}

func checkCuts(all []byte, bounds []int) *cutFailure {
	var full bytes.Buffer
	if err := zerolog.VerifCbor2JsonManyObjects(bytes.NewReader(all), &full); err != nil {
		return &cutFailure{hex.EncodeToString(all), bounds, len(all), "full valid stream: decoder error " + err.Error()}
	}
	lines := bytes.SplitAfter(full.Bytes(), []byte("\n"))
	if len(lines) > 0 && len(lines[len(lines)-1]) == 0 {
		lines = lines[:len(lines)-1]
	}
	if len(lines) != len(bounds) {
		return &cutFailure{hex.EncodeToString(all), bounds, len(all), fmt.Sprintf("full stream of %d events decoded to %d lines", len(bounds), len(lines))}
	}
	// cut points: every offset for streams up to 2500 bytes. Longer streams: every offset within 40
	// bytes of a 4096-byte buffer boundary, within 2 bytes of a sample of event boundaries (all those
	// near a buffer boundary or the end) and every 97th offset elsewhere — thinned out evenly when the
	// total decoding work (sum of prefix lengths) would exceed 3*10^7 bytes, so that one stream holding
	// several 64 KiB strings cannot take minutes
	var cuts []int
	for k := 0; k <= len(all); k++ {
		if len(all) > 2500 {
			near := k%4096 < 40 || k%4096 > 4056
			for _, b := range bounds {
				if k-b <= 2 && b-k <= 2 && (b%7 == 0 || b > len(all)-300 || b%4096 < 200 || b%4096 > 3900) {
					near = true
				}
			}
			if !near && k%97 != 0 {
				continue
			}
		}
		cuts = append(cuts, k)
	}
	if work := int64(len(cuts)) * int64(len(all)) / 2; work > 30000000 {
		keep := int(int64(len(cuts)) * 30000000 / work)
		if keep < 50 {
			keep = 50
		}
		thin := make([]int, 0, keep+1)
		for i := 0; i < keep; i++ {
			thin = append(thin, cuts[i*len(cuts)/keep])
		}
		cuts = append(thin, len(all))
	}
	// the same through ConsoleWriter (which renders the first event of what one Write hands it): a Write that
	// carries one whole event followed by part of the next renders that whole event as it does alone
	if len(bounds) >= 2 {
		var ref bytes.Buffer
		var rerr error
		if p := call(func() {
			_, rerr = zerolog.ConsoleWriter{Out: &ref, NoColor: true, TimeLocation: time.UTC}.Write(all[:bounds[0]])
		}); p != "" {
			return &cutFailure{hex.EncodeToString(all), bounds, bounds[0], p}
		}
		if rerr == nil {
			span := bounds[1] - bounds[0]
			step := span/40 + 1
			for k := bounds[0] + 1; k < bounds[1]; k += step {
				var out bytes.Buffer
				if p := call(func() {
					zerolog.ConsoleWriter{Out: &out, NoColor: true, TimeLocation: time.UTC}.Write(all[:k])
				}); p != "" {
					return &cutFailure{hex.EncodeToString(all), bounds, k, p}
				}
				if !bytes.Equal(out.Bytes(), ref.Bytes()) {
					return &cutFailure{hex.EncodeToString(all), bounds, k, fmt.Sprintf("ConsoleWriter.Write of one whole event followed by %d bytes of the next wrote %q; for the whole event alone it writes %q", k-bounds[0], out.Bytes(), ref.Bytes())}
				}
			}
		}
	}
	for _, k := range cuts {
		m := 0
		atBoundary := k == 0
		for _, b := range bounds {
			if b <= k {
				m++
			}
			if b == k {
				atBoundary = true
			}
		}
		var out bytes.Buffer
		var err error
		// every other cut decodes into a destination that is nothing but an io.Writer (a file, a pipe):
		// what was decoded before the error must have reached it when the call returns
		var dst io.Writer = &out
		if k%2 == 1 {
			dst = plainW{&out}
		}
		if p := call(func() { err = zerolog.VerifCbor2JsonManyObjects(bytes.NewReader(all[:k]), dst) }); p != "" {
			return &cutFailure{hex.EncodeToString(all), bounds, k, p}
		}
		want := bytes.Join(lines[:m], nil)
		if !bytes.HasPrefix(out.Bytes(), want) {
			return &cutFailure{hex.EncodeToString(all), bounds, k, fmt.Sprintf("the %d events wholly inside the prefix decode to %q, in the full stream to %q", m, out.Bytes(), want)}
		}
		if atBoundary {
			if err != nil || !bytes.Equal(out.Bytes(), want) {
				return &cutFailure{hex.EncodeToString(all), bounds, k, fmt.Sprintf("cut at an event boundary: err=%v, output %q, want %q", err, out.Bytes(), want)}
			}
		} else if err == nil {
			return &cutFailure{hex.EncodeToString(all), bounds, k, "partial trailing event was not reported as an error"}
		}
	}
	return nil
}

func TestRapidCutPoints(t *testing.T) {
	rapid.Check(t, func(rt *rapid.T) {
		all, bounds := stream(rt)
		if len(bounds) == 0 {
			return
		}
		rec.Case(all, len(bounds) >= 2, "cut-stream", fmt.Sprintf("events:%d", len(bounds)))
		rec.Class("cut-points", int64(len(all)+1))
		rec.Sample(map[string]interface{}{"stream_hex": hex.EncodeToString(all), "event_boundaries": bounds})
		if f := checkCuts(all, bounds); f != nil {
			ev.SaveReplay("C17-cut", f)
			fmt.Printf("VERIF-FAIL: cut %d of stream %s: %s\n", f.Cut, f.Stream, f.What)
			rt.Fatalf("cut %d: %s", f.Cut, f.What)
		}
	})
}

// ---- replay / regress

func replayFile(t *testing.T, path string) {
	b, err := os.ReadFile(path)
	if err != nil {
		t.Fatal(err)
	}
	var f failure
	var c cutFailure
	if filepath.Ext(path) == ".bin" {
		f.Input = hex.EncodeToString(b)
	} else if json.Unmarshal(b, &c); c.Stream != "" {
		s, _ := hex.DecodeString(c.Stream)
		rec.Case(s, true, "replay")
		rec.Case(append(s, 1), true, "replay")
		rec.Sample(c)
		if r := checkCuts(s, c.Bounds); r != nil {
			ev.SaveReplay("C17-replay", r)
			t.Fatalf("cut %d: %s", r.Cut, r.What)
		}
		return
	} else if err := json.Unmarshal(b, &f); err != nil {
		t.Fatal(err)
	}
	in, _ := hex.DecodeString(f.Input)
	rec.Case(in, true, "replay")
	rec.Case(append(in, 1), true, "replay")
	rec.Sample(f.Input)
	if r := checkInput(in, true); r != nil {
		fail(t, "replay", r)
	}
}

func TestReplay(t *testing.T) {
	f := os.Getenv("VERIF_REPLAY")
	if f == "" {
		t.Skip("no VERIF_REPLAY")
	}
	replayFile(t, f)
}

func TestRegress(t *testing.T) {
	dir := os.Getenv("VERIF_ROOT") + "/known/regress/C17"
	fs, _ := os.ReadDir(dir)
	for _, e := range fs {
		replayFile(t, dir+"/"+e.Name())
	}
}

// FuzzDecoder: native coverage-guided fuzzing of the same oracle (thorough tier only).
func FuzzDecoder(f *testing.F) {
	f.Add(validTail())
	for _, h := range []string{"5bffffffffffffffff", "5a3fffffff", "9f9f9f9f9f9f", "bf61616161ff", "d90104457f000001", "c11a5f5e1000", "fb7ff8000000000000", "d9010540", "7b0000000100000000"} {
		b, _ := hex.DecodeString(h)
		f.Add(b)
	}
	f.Fuzz(func(t *testing.T, in []byte) {
		if len(in) > 65536 {
			return
		}
		if r := checkInput(in, true); r != nil {
			ev.SaveReplay("C17-fuzz", r)
			t.Fatalf("%s on input %s: %s", r.Entry, r.Input, r.What)
		}
	})
}

// slowW is a destination that lets other goroutines run in the middle of every Write.
type slowW struct{ b *bytes.Buffer }

func (s slowW) Write(q []byte) (int, error) {
	runtime.Gosched()
	n, err := s.b.Write(q)
	runtime.Gosched()
	return n, err
}

// TestRapidConcurrentDecode: several goroutines decode different streams at the same time (a log
// viewer serving requests, ConsoleWriter behind several loggers): every one of them gets exactly
// what it gets alone, through every entry point.
func TestRapidConcurrentDecode(t *testing.T) {
	rapid.Check(t, func(rt *rapid.T) {
		ng := rapid.IntRange(2, 6).Draw(rt, "G")
		type job struct {
			in       []byte
			want     string
			wantOne  string
			firstLen int
		}
		var jobs []job
		for g := 0; g < ng; g++ {
			all, bounds := stream(rt)
			if len(bounds) == 0 {
				continue
			}
			var out bytes.Buffer
			zerolog.VerifCbor2JsonManyObjects(bytes.NewReader(all), &out)
			first := all[:bounds[0]]
			jobs = append(jobs, job{all, out.String(), string(zerolog.VerifDecodeIfBinaryToBytes(first)), bounds[0]})
		}
		if len(jobs) < 2 {
			return
		}
		// one earlier decode has completed before the concurrent ones start (see above), as in a long-running process
		var wg sync.WaitGroup
		bad := make([]string, len(jobs))
		for i := range jobs {
			i := i
			wg.Add(1)
			go func() {
				defer wg.Done()
				defer func() {
					if r := recover(); r != nil {
						bad[i] = fmt.Sprintf("decoding panicked: %v", r)
					}
				}()
				j := jobs[i]
				for rep := 0; rep < 4 && bad[i] == ""; rep++ {
					var out bytes.Buffer
					zerolog.VerifCbor2JsonManyObjects(bytes.NewReader(j.in), slowW{&out})
					if out.String() != j.want {
						bad[i] = fmt.Sprintf("Cbor2JsonManyObjects beside %d other decodes gives %.150q, alone %.150q", len(jobs)-1, out.String(), j.want)
						break
					}
					if got := string(zerolog.VerifDecodeIfBinaryToBytes(j.in[:j.firstLen])); got != j.wantOne {
						bad[i] = fmt.Sprintf("DecodeIfBinaryToBytes beside %d other decodes gives %.150q, alone %.150q", len(jobs)-1, got, j.wantOne)
					}
					if got := zerolog.VerifDecodeIfBinaryToString(j.in[:j.firstLen]); got != j.wantOne {
						bad[i] = fmt.Sprintf("DecodeIfBinaryToString beside %d other decodes gives %.150q, alone %.150q", len(jobs)-1, got, j.wantOne)
					}
				}
			}()
		}
		wg.Wait()
		var key []byte
		for _, j := range jobs {
			key = append(key, j.in...)
		}
		rec.Case(key, true, "concurrent-decode", fmt.Sprintf("goroutines:%d", len(jobs)))
		for i, b := range bad {
			if b != "" {
				ev.SaveReplay("C17-concurrent", map[string]interface{}{"streams_hex": func() []string {
					var hs []string
					for _, j := range jobs {
						hs = append(hs, hex.EncodeToString(j.in))
					}
					return hs
				}(), "failing": i})
				fmt.Printf("VERIF-FAIL: %s\n", b)
				rt.Fatalf("%s", b)
			}
		}
	})
}
