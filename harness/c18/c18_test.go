// C18 — hlog keeps requests isolated and reports what was actually sent.
package c18

import (
	"bufio"
	"bytes"
	"context"
	"encoding/json"
	"errors"
	"fmt"
	"io"
	"net"
	"net/http"
	"net/http/httptest"
	"os"
	"strconv"
	"strings"
	"sync"
	"testing"
	"time"

	"github.com/rs/xid"
	"github.com/rs/zerolog"
	"github.com/rs/zerolog/hlog"
	"pgregory.net/rapid"
	"verif/harness/ev"
	"verif/harness/jsonref"
)

const rule = "cases = (a) sets of 2..64 concurrent requests with pairwise distinct URL, method, remote address, host, user agent, referer, custom header, proto and request id through NewHandler + a generated subset/order of the field handlers + AccessHandler, all requests held in flight together by a barrier, base logger with spare context capacity; (b) sequences over {WriteHeader(code), Write(n), ReadFrom(n), Flush} on the AccessHandler proxy over three ResponseWriter capability sets with an underlying writer that accepts a scripted number of bytes: exhaustive for length <=4 (<=5 thorough), rapid beyond. oracle = per-request value model; (status,size) = (first WriteHeader | 200 if body first | 0, sum of bytes the underlying writer accepted). non-trivial = >=2 requests overlapped in the barrier; sequences with a second WriteHeader or a short write. distinct by construction / FNV-64"

var rec = ev.New("C18", rule)

func TestMain(m *testing.M) {
	code := m.Run()
	rec.Flush()
	os.Exit(code)
}

func fail(t interface{ Fatalf(string, ...interface{}) }, name string, c interface{}, msg string) {
	ev.SaveReplay("C18-"+name, c)
	fmt.Printf("VERIF-FAIL: %s\n", msg)
	t.Fatalf("%s", msg)
}

// ------------------------------------------------------------------ (b) proxy accounting

type POp struct {
	K string `json:"k"` // wh | w | rf | flush | hijack (refused by the underlying writer) | closenotify | header
	N int    `json:"n"` // status code or byte count
}

type PCase struct {
	Caps   string `json:"caps"`   // basic | flusher | full
	Accept int    `json:"accept"` // total bytes the underlying writer accepts (-1 = unlimited)
	Ops    []POp  `json:"ops"`
	// Panic: after its last call the handler panics with http.ErrAbortHandler (how a handler aborts a
	// response): what was sent until then is still what AccessHandler reports, once
	Panic bool `json:"handler_panics,omitempty"`
}

// fakeRW is the underlying ResponseWriter.
type fakeRW struct {
	h        http.Header
	codes    []int
	accepted int
	room     int // -1 unlimited
	flushes  int
}

func (f *fakeRW) Header() http.Header { return f.h }
func (f *fakeRW) WriteHeader(c int)   { f.codes = append(f.codes, c) }
func (f *fakeRW) take(n int) (int, error) {
	if f.room < 0 {
		f.accepted += n
		return n, nil
	}
	if n <= f.room {
		f.room -= n
		f.accepted += n
		return n, nil
	}
	k := f.room
	f.room = 0
	f.accepted += k
	return k, errors.New("connection reset")
}
func (f *fakeRW) Write(p []byte) (int, error) { return f.take(len(p)) }

// WriteString: the underlying writer is an io.StringWriter too (net/http's is)
func (f *fakeRW) WriteString(s string) (int, error) { return f.take(len(s)) }

type fakeFlusher struct{ *fakeRW }

func (f fakeFlusher) Flush() { f.flushes++ }

type fakeFull struct{ *fakeRW }

func (f fakeFull) Flush()                   { f.flushes++ }
func (f fakeFull) CloseNotify() <-chan bool { return make(chan bool) }
func (f fakeFull) Hijack() (net.Conn, *bufio.ReadWriter, error) {
	return nil, nil, errors.New("no hijack")
}
func (f fakeFull) ReadFrom(r io.Reader) (int64, error) {
	c, _ := io.Copy(io.Discard, r) // count without keeping (bodies of gigabytes are among the cases)
	n, err := f.take(int(c))
	return int64(n), err
}

// zeros is an endless source of zero bytes; only a Reader (no WriteTo).
type zeros struct{}

func (zeros) Read(p []byte) (int, error) {
	for i := range p {
		p[i] = 0
	}
	return len(p), nil
}

// fakeNearFull has everything fakeFull has except ReadFrom.
type fakeNearFull struct{ *fakeRW }

func (f fakeNearFull) Flush()                   { f.flushes++ }
func (f fakeNearFull) CloseNotify() <-chan bool { return make(chan bool) }
func (f fakeNearFull) Hijack() (net.Conn, *bufio.ReadWriter, error) {
	return nil, nil, errors.New("no hijack")
}

// plainReader hides every method of the reader but Read (no WriteTo short cut for io.Copy).
type plainReader struct{ r io.Reader }

func (p plainReader) Read(b []byte) (int, error) { return p.r.Read(b) }

func runProxy(c *PCase) (string, bool) {
	base := &fakeRW{h: http.Header{}, room: c.Accept}
	var under http.ResponseWriter = base
	switch c.Caps {
	case "flusher":
		under = fakeFlusher{base}
	case "full":
		under = fakeFull{base}
	case "nearfull":
		under = fakeNearFull{base}
	}
	gotStatus, gotSize, calls := -1, -1, 0
	h := hlog.AccessHandler(func(r *http.Request, status, size int, d time.Duration) {
		gotStatus, gotSize = status, size
		calls++
	})(http.HandlerFunc(func(w http.ResponseWriter, r *http.Request) {
		for _, op := range c.Ops {
			switch op.K {
			case "wh":
				w.WriteHeader(op.N)
			case "w":
				w.Write(make([]byte, op.N))
			case "rf":
				if rf, ok := w.(io.ReaderFrom); ok {
					rf.ReadFrom(bytes.NewReader(make([]byte, op.N)))
				} else {
					io.Copy(w, bytes.NewReader(make([]byte, op.N)))
				}
			case "ws":
				io.WriteString(w, strings.Repeat("s", op.N)) // what templates and fmt.Fprint-style helpers end up calling
			case "rfhuge":
				// a body of op.N bytes streamed from a source that never materialises it
				src := io.LimitReader(zeros{}, int64(op.N))
				if rf, ok := w.(io.ReaderFrom); ok {
					rf.ReadFrom(src)
				} else {
					io.Copy(w, src)
				}
			case "rfplain":
				// the body comes from a source that is nothing but an io.Reader (a pipe, a decompressor)
				if rf, ok := w.(io.ReaderFrom); ok {
					rf.ReadFrom(plainReader{bytes.NewReader(make([]byte, op.N))})
				} else {
					io.Copy(w, plainReader{bytes.NewReader(make([]byte, op.N))})
				}
			case "flush":
				if fl, ok := w.(http.Flusher); ok {
					fl.Flush()
				}
			case "hijack":
				// the underlying writer refuses (an HTTP/2 connection, a recorder): the handler carries on
				// with an ordinary response, which is what gets reported
				if hj, ok := w.(http.Hijacker); ok {
					hj.Hijack()
				}
			case "closenotify":
				if cn, ok := w.(http.CloseNotifier); ok {
					cn.CloseNotify()
				}
			case "header":
				w.Header().Set("X-Op", "v")
			}
		}
		if c.Panic {
			panic(http.ErrAbortHandler)
		}
	}))
	req := httptest.NewRequest("GET", "/x", nil)
	func() {
		defer func() {
			if r := recover(); r != nil && r != http.ErrAbortHandler {
				panic(r)
			}
		}()
		h.ServeHTTP(under, req)
	}()
	// model
	wantStatus := 0
	sent := false
	nontrivial := false
	nwh := 0
	for _, op := range c.Ops {
		switch op.K {
		case "wh":
			nwh++
			if nwh > 1 {
				nontrivial = true
			}
			if !sent {
				wantStatus, sent = op.N, true
			}
		case "w", "ws", "rf", "rfplain", "rfhuge":
			if op.K != "w" && op.K != "ws" && op.N == 0 && c.Caps != "full" {
				continue // io.Copy of an empty reader makes no call on the ResponseWriter
			}
			if !sent {
				wantStatus, sent = 200, true
			}
		}
	}
	if c.Accept >= 0 && base.room == 0 {
		nontrivial = true
	}
	if calls != 1 {
		return fmt.Sprintf("AccessHandler callback ran %d times", calls), nontrivial
	}
	if gotStatus != wantStatus {
		return fmt.Sprintf("reported status %d, want %d (codes passed down: %v)", gotStatus, wantStatus, base.codes), nontrivial
	}
	if gotSize != base.accepted {
		return fmt.Sprintf("reported size %d, the underlying writer accepted %d bytes", gotSize, base.accepted), nontrivial
	}
	if sent && (len(base.codes) != 1 || base.codes[0] != wantStatus) {
		return fmt.Sprintf("underlying WriteHeader calls %v, want exactly [%d]", base.codes, wantStatus), nontrivial
	}
	return "", nontrivial
}

// TestProxyHuge: responses of more than 2 GiB (a download endpoint): the size reported is still the number
// of bytes the underlying writer accepted. Needs a 64-bit int to express the expectation.
func TestProxyHuge(t *testing.T) {
	if strconv.IntSize < 64 {
		t.Skip("int has 32 bits here: sizes above 2 GiB are not expressible")
	}
	huge64 := int64(1)<<31 + 7
	huge := int(huge64) // (a constant expression would not compile where int has 32 bits)
	for _, caps := range []string{"basic", "full", "nearfull"} {
		for _, ops := range [][]POp{{{"rfhuge", huge}}, {{"w", 5}, {"rfhuge", huge}}, {{"rfhuge", 1 << 30}, {"rfhuge", 1<<30 + 3}, {"w", 9}}} {
			c := &PCase{Caps: caps, Accept: -1, Ops: ops}
			msg, _ := runProxy(c)
			b, _ := json.Marshal(c)
			rec.Case(b, true, "proxy-huge", "caps:"+caps)
			if msg != "" {
				fail(t, "proxy", c, msg)
			}
		}
	}
}

func TestProxyExhaustive(t *testing.T) {
	maxLen := 4
	if ev.Thorough() {
		maxLen = 5
	}
	alpha := []POp{{"wh", 200}, {"wh", 404}, {"wh", 600}, {"wh", 101}, {"w", 3}, {"w", 0}, {"rf", 5}, {"rfplain", 6}, {"ws", 2}, {"flush", 0}, {"hijack", 0}}
	var n, nt int64
	for _, caps := range []string{"basic", "flusher", "full", "nearfull"} {
		for _, acc := range []int{-1, 0, 4, 7} {
			ops := make([]POp, maxLen)
			var recur func(d int)
			recur = func(d int) {
				c := &PCase{Caps: caps, Accept: acc, Ops: ops[:d]}
				// Flush may come first too: it is no WriteHeader/Write/ReadFrom call and must not count as one
				ok := true
				sent := false
				for _, o := range c.Ops {
					if o.K == "flush" && !sent {
						ok = true // Flush first: not a WriteHeader/Write/ReadFrom call, so the status stays "the first WriteHeader, 200 if the body came first, 0 if nothing"
					}
					if o.K != "flush" {
						sent = true
					}
				}
				if ok {
					msg, ntv := runProxy(c)
					n++
					if ntv {
						nt++
					}
					if msg != "" {
						cc := *c
						cc.Ops = append([]POp{}, ops[:d]...)
						fail(t, "proxy", &cc, msg)
					}
				}
				if d == maxLen {
					return
				}
				for _, a := range alpha {
					ops[d] = a
					recur(d + 1)
				}
			}
			recur(0)
		}
	}
	rec.Bulk(n, nt, "proxy-exhaustive")
	rec.Exhaustive(fmt.Sprintf("all call sequences up to length %d over {WriteHeader(200|404|500|101), Write(3), Write(0), ReadFrom(5), Flush-after-header} x 3 capability sets x 4 acceptance scripts", maxLen))
	rec.Sample(PCase{Caps: "full", Accept: 4, Ops: []POp{{"w", 3}, {"wh", 404}, {"rf", 5}}})
}

func TestProxyRapid(t *testing.T) {
	rapid.Check(t, func(rt *rapid.T) {
		c := &PCase{Caps: rapid.SampledFrom([]string{"basic", "flusher", "full", "nearfull"}).Draw(rt, "caps"), Accept: rapid.SampledFrom([]int{-1, -1, 0, 1, 10, 100, 5000}).Draw(rt, "accept")}
		n := rapid.IntRange(0, 20).Draw(rt, "n")
		for i := 0; i < n; i++ {
			k := rapid.SampledFrom([]string{"wh", "w", "w", "ws", "rf", "rfplain", "flush", "hijack", "closenotify", "header"}).Draw(rt, "k")

			op := POp{K: k}
			switch k {
			case "wh":
				op.N = rapid.SampledFrom([]int{200, 201, 204, 301, 304, 400, 404, 500, 503, 101, 103, 599, 600, 799, 999}).Draw(rt, "code")
			case "w", "ws", "rf", "rfplain":
				op.N = rapid.SampledFrom([]int{0, 1, 2, 100, 4096, 70000}).Draw(rt, "bytes")
			}
			c.Ops = append(c.Ops, op)
		}
		c.Panic = rapid.IntRange(0, 5).Draw(rt, "panic") == 0
		msg, nt := runProxy(c)
		b, _ := json.Marshal(c)
		rec.Case(b, nt, "proxy-rapid", "caps:"+c.Caps)
		rec.Sample(json.RawMessage(b))
		if msg != "" {
			fail(rt, "proxy", c, msg)
		}
	})
}

// ------------------------------------------------------------------ (a) request isolation

type Req struct {
	ID      string `json:"id"`
	Method  string `json:"method"`
	URL     string `json:"url"`
	Remote  string `json:"remote"`
	Host    string `json:"host"`
	UA      string `json:"ua"`
	Referer string `json:"referer"`
	Custom  string `json:"custom"`
	// Custom2: a second X-Custom-Id header line after the first (Header.Get, which the handler documents, reads the first only)
	Custom2 string `json:"custom_second_line,omitempty"`
	Proto   string `json:"proto"`
	// Preset: the request arrives with an id already in its context (hlog.CtxWithID, e.g. set by
	// an outer middleware): RequestIDHandler must keep it, log it and announce it
	Preset bool `json:"preset_id,omitempty"`
}

type ICase struct {
	Handlers []string `json:"handlers"` // order of field handlers between NewHandler and the final handler
	BaseCtx  int      `json:"base_ctx"` // number of context fields on the base logger (spare capacity)
	BaseBig  int      `json:"base_big,omitempty"` // plus one field of this many bytes: a context buffer that has grown well past its first size, with the slack that growth leaves
	Reqs     []Req    `json:"reqs"`
	Events   int      `json:"events_per_request"`
	// SharedCtx: every request's context derives from one base context that already carries a
	// logger (http.Server.BaseContext returning logger.WithContext(ctx)); that logger must stay as it was
	SharedCtx bool `json:"shared_base_context,omitempty"`
	// MutedInner: a muted sub-route — NewHandler(disabled logger) followed by a field handler sits
	// between the field handlers and the final handler: the final handler's events are dropped and
	// what the inner handlers add never reaches the outer logger
	MutedInner bool `json:"muted_inner_handler,omitempty"`
	// NestedAccess: a second AccessHandler further in, with a middleware between the two that writes
	// 3 body bytes first: each reports what passed through it (outer: 200 and 3+n bytes; inner: the
	// handler's own WriteHeader code and n bytes)
	NestedAccess bool `json:"nested_access_handler,omitempty"`
	// NestedSame: NewHandler(base) a second time further in (a sub-router mounting the same
	// middleware stack), followed by a field handler: what that adds belongs to the inner logger only
	NestedSame bool `json:"nested_same_handler,omitempty"`
}

type syncBuf struct {
	mu    sync.Mutex
	lines [][]byte
}

func (s *syncBuf) Write(p []byte) (int, error) {
	s.mu.Lock()
	s.lines = append(s.lines, append([]byte{}, p...))
	s.mu.Unlock()
	return len(p), nil
}

var handlerTable = map[string]func() func(http.Handler) http.Handler{
	"url":     func() func(http.Handler) http.Handler { return hlog.URLHandler("url") },
	"method":  func() func(http.Handler) http.Handler { return hlog.MethodHandler("method") },
	"request": func() func(http.Handler) http.Handler { return hlog.RequestHandler("request") },
	"remote":  func() func(http.Handler) http.Handler { return hlog.RemoteAddrHandler("remote") },
	"ip":      func() func(http.Handler) http.Handler { return hlog.RemoteIPHandler("ip") },
	"ua":      func() func(http.Handler) http.Handler { return hlog.UserAgentHandler("ua") },
	"referer": func() func(http.Handler) http.Handler { return hlog.RefererHandler("referer") },
	"proto":   func() func(http.Handler) http.Handler { return hlog.ProtoHandler("proto") },
	"httpver": func() func(http.Handler) http.Handler { return hlog.HTTPVersionHandler("httpver") },
	// the header is named the way people write it, not in canonical form: HTTP header names are case-insensitive
	"custom":  func() func(http.Handler) http.Handler { return hlog.CustomHeaderHandler("custom", "x-custom-ID") },
	"host":    func() func(http.Handler) http.Handler { return hlog.HostHandler("host") },
	"hostnp":  func() func(http.Handler) http.Handler { return hlog.HostHandler("hostnp", true) },
	"reqid":   func() func(http.Handler) http.Handler { return hlog.RequestIDHandler("reqid", "X-Req-Id") },
	"etag":    func() func(http.Handler) http.Handler { return hlog.EtagHandler("etag") },
	"resphdr": func() func(http.Handler) http.Handler { return hlog.ResponseHeaderHandler("resphdr", "x-resp-ID") },
}

func hostOnly(hp string) string {
	h, _, err := net.SplitHostPort(hp)
	if err != nil {
		return hp
	}
	return h
}

func runIsolation(c *ICase) (string, bool) {
	out := &syncBuf{}
	ctx := zerolog.New(out).With()
	for i := 0; i < c.BaseCtx; i++ {
		ctx = ctx.Str(fmt.Sprintf("base%d", i), "b")
	}
	if c.BaseBig > 0 {
		ctx = ctx.Str("basebig", strings.Repeat("B", c.BaseBig)).Str("baseafter", "b")
	}
	base := ctx.Logger()
	probe := func() string {
		var b bytes.Buffer
		l := base.Output(&b)
		l.Info().Msg("probe")
		return b.String()
	}
	before := probe()
	var arrived sync.WaitGroup
	arrived.Add(len(c.Reqs))
	release := make(chan struct{})
	overlapped := 0
	var omu sync.Mutex
	final := http.HandlerFunc(func(w http.ResponseWriter, r *http.Request) {
		me := r.Header.Get("X-Me")
		w.Header().Set("ETag", `"etag-`+me+`"`)
		w.Header().Set("X-RESP-id", "resp-"+me)
		arrived.Done()
		<-release
		omu.Lock()
		overlapped++
		omu.Unlock()
		for i := 0; i < c.Events; i++ {
			e := hlog.FromRequest(r).Info().Str("me", me).Int("i", i)
			if id, ok := hlog.IDFromRequest(r); ok {
				e = e.Str("idseen", id.String())
				// the same id through the other accessor (for code that only has the context)
				if id2, ok2 := hlog.IDFromCtx(r.Context()); !ok2 || id2 != id {
					e = e.Str("idseen", "IDFromCtx disagrees: "+id2.String())
				}
			}

			e.Msg("handled")
		}
		w.WriteHeader(200 + len(me)%5)
		w.Write([]byte(me))
	})
	var h http.Handler = final
	if c.MutedInner {
		h = hlog.MethodHandler("innermethod")(h)
		h = hlog.NewHandler(zerolog.New(out).Level(zerolog.Disabled))(h)
	} else if c.NestedSame {
		h = hlog.MethodHandler("innermethod")(h)
		h = hlog.NewHandler(base)(h)
	}
	for i := len(c.Handlers) - 1; i >= 0; i-- {
		h = handlerTable[c.Handlers[i]]()(h)
	}
	if c.NestedAccess {
		h = hlog.AccessHandler(func(r *http.Request, status, size int, d time.Duration) {
			hlog.FromRequest(r).Info().Str("me", r.Header.Get("X-Me")).Int("status", status).Int("size", size).Msg("access-inner")
		})(h)
		inner := h
		h = http.HandlerFunc(func(w http.ResponseWriter, r *http.Request) {
			w.Write([]byte("pre"))
			inner.ServeHTTP(w, r)
		})
	}
	h = hlog.AccessHandler(func(r *http.Request, status, size int, d time.Duration) {
		hlog.FromRequest(r).Info().Str("me", r.Header.Get("X-Me")).Int("status", status).Int("size", size).Msg("access")
	})(h)
	h = hlog.NewHandler(base)(h)
	var sharedOut bytes.Buffer
	sharedLogger := zerolog.New(&sharedOut).With().Str("shared", "base").Logger()
	sharedCtx := sharedLogger.WithContext(context.Background())
	var wg sync.WaitGroup
	respID := map[string]string{}
	preset := map[string]string{}
	var rmu sync.Mutex
	for _, rq := range c.Reqs {
		wg.Add(1)
		go func(rq Req) {
			defer wg.Done()
			r := httptest.NewRequest(rq.Method, rq.URL, nil)
			r.RemoteAddr = rq.Remote
			r.Host = rq.Host
			r.Proto = rq.Proto
			r.Header.Set("User-Agent", rq.UA)
			r.Header.Set("Referer", rq.Referer)
			r.Header.Set("X-CUSTOM-id", rq.Custom)
			if rq.Custom2 != "" {
				r.Header.Add("x-custom-id", rq.Custom2)
			}
			r.Header.Set("X-Me", rq.ID)
			if c.SharedCtx {
				r = r.WithContext(sharedCtx)
			}
			if rq.Preset {
				id := xid.New()
				rmu.Lock()
				preset[rq.ID] = id.String()
				rmu.Unlock()
				r = r.WithContext(hlog.CtxWithID(r.Context(), id))
			}
			rr := httptest.NewRecorder()
			h.ServeHTTP(rr, r)
			rmu.Lock()
			respID[rq.ID] = rr.Header().Get("X-Req-Id")
			rmu.Unlock()
		}(rq)
	}
	arrived.Wait()
	close(release)
	wg.Wait()
	if c.SharedCtx {
		zerolog.Ctx(sharedCtx).Info().Msg("probe")
		if got, want := string(zerolog.VerifDecodeIfBinaryToBytes(sharedOut.Bytes())), "{\"level\":\"info\",\"shared\":\"base\",\"message\":\"probe\"}\n"; got != want {
			return fmt.Sprintf("the logger carried by the requests' shared base context changed: it now emits %q, want %q", got, want), overlapped >= 2
		}
	}
	after := probe()
	if before != after {
		return fmt.Sprintf("the logger passed to NewHandler changed: probe event before %q, after %q", before, after), overlapped >= 2
	}
	byID := map[string]Req{}
	for _, r := range c.Reqs {
		byID[r.ID] = r
	}
	counts := map[string]int{}
	for _, line := range out.lines {
		line = zerolog.VerifDecodeIfBinaryToBytes(line) // JSON in either build
		n, err := jsonref.ValidateLine(line)
		if err != nil {
			return fmt.Sprintf("unparseable event %q: %v", line, err), overlapped >= 2
		}
		f := map[string]string{}
		dup := ""
		for _, m := range n.O {
			if _, ok := f[m.Key]; ok {
				dup = m.Key
			}
			if m.Val.Kind == jsonref.Str {
				f[m.Key] = m.Val.S
			} else {
				f[m.Key] = m.Val.String()
			}
		}
		rq, ok := byID[f["me"]]
		if !ok {
			return fmt.Sprintf("event %q does not belong to any request", line), overlapped >= 2
		}
		counts[rq.ID]++
		if dup != "" {
			return fmt.Sprintf("request %s: field %q appears twice in %q", rq.ID, dup, line), overlapped >= 2
		}
		want := map[string]string{"url": rq.URL, "method": rq.Method, "request": rq.Method + " " + rq.URL, "remote": rq.Remote, "ip": hostOnly(rq.Remote), "ua": rq.UA,
			"referer": rq.Referer, "proto": rq.Proto, "httpver": strings.TrimPrefix(rq.Proto, "HTTP/"), "custom": rq.Custom, "host": rq.Host, "hostnp": hostOnly(rq.Host)}
		isAccess := f["message"] == "access" || f["message"] == "access-inner"
		innerEvent := c.NestedSame && !c.MutedInner && !isAccess
		if innerEvent {
			// logged through the logger of the inner NewHandler(base): the base fields, what was added
			// inside it (innermethod), and nothing the outer handlers added to *their* logger
			for k := range f {
				switch {
				case k == "level" || k == "message" || k == "me" || k == "i" || k == "idseen" || strings.HasPrefix(k, "base"):
				case k == "innermethod" && f[k] == rq.Method:
				default:
					return fmt.Sprintf("request %s: an event of the inner handler stack carries %s=%q: %q", rq.ID, k, f[k], line), overlapped >= 2
				}
			}
			if f["innermethod"] == "" {
				return fmt.Sprintf("request %s: inner event lacks innermethod: %q", rq.ID, line), overlapped >= 2
			}
			continue
		}
		for _, hn := range c.Handlers {
			switch hn {
			case "reqid":
				if len(f["reqid"]) != 20 {
					return fmt.Sprintf("request %s: reqid field %q in %q", rq.ID, f["reqid"], line), overlapped >= 2
				}
				// the id logged for a request is the id announced to that request's client
				if respID[rq.ID] != f["reqid"] {
					return fmt.Sprintf("request %s: logged request id %q, response header carries %q", rq.ID, f["reqid"], respID[rq.ID]), overlapped >= 2
				}
				if rq.Preset && f["reqid"] != preset[rq.ID] {
					return fmt.Sprintf("request %s arrived with id %q in its context but was logged with %q", rq.ID, preset[rq.ID], f["reqid"]), overlapped >= 2
				}
				if seen, ok := f["idseen"]; ok && seen != f["reqid"] {
					return fmt.Sprintf("request %s: IDFromRequest gave %q inside the handler, the logger carries %q", rq.ID, seen, f["reqid"]), overlapped >= 2
				}
				if !isAccess && f["idseen"] == "" {
					return fmt.Sprintf("request %s: IDFromRequest found no id behind RequestIDHandler: %q", rq.ID, line), overlapped >= 2
				}
			case "etag", "resphdr":
				// added when the handler returns: only the access event (logged after) may carry them
				wantV := map[string]string{"etag": "etag-" + rq.ID, "resphdr": "resp-" + rq.ID}[hn]
				if v, ok := f[hn]; ok && v != wantV {
					return fmt.Sprintf("request %s: field %s=%q, want %q in %q", rq.ID, hn, v, wantV, line), overlapped >= 2
				}
				if isAccess && f[hn] != wantV {
					return fmt.Sprintf("request %s: access event lacks %s=%q: %q", rq.ID, hn, wantV, line), overlapped >= 2
				}
			default:
				if f[hn] != want[hn] {
					return fmt.Sprintf("request %s: field %s=%q, want %q; event %q", rq.ID, hn, f[hn], want[hn], line), overlapped >= 2
				}
			}
		}
		// no field of a handler that is not in the chain, no value of another request
		for k := range f {
			switch k {
			case "level", "message", "me", "i", "status", "size", "idseen":
				continue
			}
			if k == "innermethod" && c.NestedSame && !c.MutedInner && !isAccess {
				// the inner NewHandler(base) starts from the base logger again: the final handler's events
				// carry what was added inside it, and nothing of the outer handlers
				if f[k] != rq.Method {
					return fmt.Sprintf("request %s: innermethod=%q, want %q", rq.ID, f[k], rq.Method), overlapped >= 2
				}
				continue
			}
			if strings.HasPrefix(k, "base") {
				continue
			}
			found := false
			for _, hn := range c.Handlers {
				if hn == k {
					found = true
				}
			}
			if !found {
				return fmt.Sprintf("request %s: unexpected field %q in %q", rq.ID, k, line), overlapped >= 2
			}
		}
		if isAccess && c.NestedAccess {
			wantStatus, wantSize := 200, 3+len(rq.ID) // outer: the middleware's Write came first
			if f["message"] == "access-inner" {
				wantStatus, wantSize = 200+len(rq.ID)%5, len(rq.ID)
			}
			if f["status"] != fmt.Sprint(wantStatus) || f["size"] != fmt.Sprint(wantSize) {
				return fmt.Sprintf("request %s: %s event reports status=%s size=%s, want %d/%d (two AccessHandlers, 3 bytes written between them)", rq.ID, f["message"], f["status"], f["size"], wantStatus, wantSize), overlapped >= 2
			}
		} else if isAccess {
			if f["status"] != fmt.Sprint(200+len(rq.ID)%5) || f["size"] != fmt.Sprint(len(rq.ID)) {
				return fmt.Sprintf("request %s: access event reports status=%s size=%s, want %d/%d", rq.ID, f["status"], f["size"], 200+len(rq.ID)%5, len(rq.ID)), overlapped >= 2
			}
		}
		if c.BaseBig > 0 && (f["basebig"] != strings.Repeat("B", c.BaseBig) || f["baseafter"] != "b") {
			return fmt.Sprintf("request %s: the base logger's large context field is missing or altered in %.300q", rq.ID, line), overlapped >= 2
		}
		for i := 0; i < c.BaseCtx; i++ {
			if f[fmt.Sprintf("base%d", i)] != "b" {
				return fmt.Sprintf("request %s: base context field base%d missing or altered in %q", rq.ID, i, line), overlapped >= 2
			}
		}
	}
	for _, r := range c.Reqs {
		wantN := c.Events + 1
		if c.MutedInner {
			wantN = 1 // the final handler logs through the muted inner logger: only the access event remains
		}
		if c.NestedAccess {
			wantN++
		}
		if counts[r.ID] != wantN {
			return fmt.Sprintf("request %s: %d events, want %d", r.ID, counts[r.ID], wantN), overlapped >= 2
		}
	}
	return "", overlapped >= 2
}

func genICase(rt *rapid.T, maxReqs int) *ICase {
	names := []string{"url", "method", "request", "remote", "ip", "ua", "referer", "proto", "httpver", "custom", "host", "hostnp", "reqid", "etag", "resphdr"}
	c := &ICase{BaseCtx: rapid.IntRange(0, 3).Draw(rt, "basectx"), BaseBig: rapid.SampledFrom([]int{0, 0, 600, 7000, 70000}).Draw(rt, "basebig"), Events: rapid.IntRange(1, 3).Draw(rt, "events"),
		SharedCtx: rapid.IntRange(0, 2).Draw(rt, "sharedctx") == 0, MutedInner: rapid.IntRange(0, 3).Draw(rt, "muted") == 0, NestedSame: rapid.IntRange(0, 3).Draw(rt, "nestedsame") == 0, NestedAccess: rapid.IntRange(0, 2).Draw(rt, "nestedaccess") == 0}
	perm := rapid.Permutation(names).Draw(rt, "perm")
	c.Handlers = perm[:rapid.IntRange(1, len(perm)).Draw(rt, "nh")]
	n := rapid.IntRange(2, maxReqs).Draw(rt, "nreq")
	for i := 0; i < n; i++ {
		id := fmt.Sprintf("r%d%s", i, strings.Repeat("x", i%7))
		// address forms: host:port, [v6]:port, bare v6, v6 with zone, bare host, bare v4 — all distinct per request
		remotes := []string{fmt.Sprintf("10.0.%d.%d:%d", i/250, i%250+1, 1000+i), fmt.Sprintf("[2001:db8::%x]:%d", i+1, 2000+i), fmt.Sprintf("2001:db8::%x", i+1),
			fmt.Sprintf("fe80::%x%%eth0", i+1), fmt.Sprintf("192.168.%d.%d", i/250, i%250+1), fmt.Sprintf("[::%x]", i+1), fmt.Sprintf("peer%d", i)}
		hosts := []string{fmt.Sprintf("h%d.example.com:%d", i, 8000+i), fmt.Sprintf("h%d.example.com", i), fmt.Sprintf("[2001:db8:1::%x]:%d", i+1, 8000+i), fmt.Sprintf("2001:db8:1::%x", i+1), fmt.Sprintf("こんにちは%d.com:%d", i, 80+i)}
		c.Reqs = append(c.Reqs, Req{ID: id, Method: []string{"GET", "POST", "PUT", "DELETE", "PATCH", "HEAD", "OPTIONS"}[i%7], URL: fmt.Sprintf("/p/%s?q=%d", id, i),
			Remote: remotes[rapid.IntRange(0, len(remotes)-1).Draw(rt, "remoteform")], Host: hosts[rapid.IntRange(0, len(hosts)-1).Draw(rt, "hostform")],
			UA: "agent-" + id, Referer: "http://ref/" + id, Custom: "custom-" + id, Proto: []string{"HTTP/1.0", "HTTP/1.1", "HTTP/2.0"}[i%3],
			Preset: rapid.IntRange(0, 3).Draw(rt, "preset") == 0})
		// header values as clients send them: lists with commas and parameters, quoted strings, several lines
		// of one header, an empty first line
		rq := &c.Reqs[len(c.Reqs)-1]
		switch rapid.IntRange(0, 7).Draw(rt, "hdrform") {
		case 0:
			rq.Custom = "custom-" + id + ", b;q=0.5, c"
			rq.UA = "Mozilla/5.0 (X11; Linux x86_64) AppleWebKit/537.36 (KHTML, like Gecko) agent-" + id
		case 1:
			rq.Custom2 = "second-" + id
		case 2:
			rq.Custom, rq.Custom2 = "", "second-"+id
		case 3:
			rq.Custom = `"custom-` + id + `,x" , ,`
			rq.Referer = "http://ref/" + id + "?a=1,2&b=x;y"
		}
		// long header values, at and around the sizes a limit would pick
		if rapid.IntRange(0, 5).Draw(rt, "hdrlong") == 0 {
			n := rapid.SampledFrom([]int{255, 256, 1023, 1024, 1025, 2048, 4095, 4096, 4097, 8192}).Draw(rt, "hdrlen")
			pad := func(v string) string { return v + "-" + strings.Repeat("x", n-len(v)-1) }
			switch rapid.IntRange(0, 2).Draw(rt, "hdrwhich") {
			case 0:
				rq.Custom = pad("custom-" + id)
			case 1:
				rq.UA = pad("agent-" + id)
			default:
				rq.Referer = pad("http://ref/" + id)
			}
		}
		// request targets with escaped bytes: logged as the client sent them (URL.String()), not decoded
		switch rapid.IntRange(0, 5).Draw(rt, "urlform") {
		case 0:
			rq.URL = fmt.Sprintf("/p/%s%%20with%%20space/%%C3%%A9?q=%d&r=a%%20b", id, i)
		case 1:
			rq.URL = fmt.Sprintf("/p/%s%%2Fslash/x?q=%d", id, i)
		}
	}
	return c
}

func TestIsolation(t *testing.T) {
	maxReqs := 16
	if ev.Thorough() {
		maxReqs = 64
	}
	rapid.Check(t, func(rt *rapid.T) {
		c := genICase(rt, maxReqs)
		msg, nt := runIsolation(c)
		b, _ := json.Marshal(struct {
			H []string
			N int
			B int
		}{c.Handlers, len(c.Reqs), c.BaseCtx})
		rec.Case(b, nt, fmt.Sprintf("handlers:%d", len(c.Handlers)))
		rec.Sample(json.RawMessage(b))
		if msg != "" {
			fail(rt, "isolation", c, msg)
		}
	})
}

func TestReplay(t *testing.T) {
	f := os.Getenv("VERIF_REPLAY")
	if f == "" {
		t.Skip("no VERIF_REPLAY")
	}
	b, err := os.ReadFile(f)
	if err != nil {
		t.Fatal(err)
	}
	rec.Case(b, true, "replay")
	rec.Case(append(b, 1), true, "replay")
	rec.Sample(json.RawMessage(b))
	var probe map[string]json.RawMessage
	json.Unmarshal(b, &probe)
	if probe["caps"] != nil {
		var c PCase
		json.Unmarshal(b, &c)
		if msg, _ := runProxy(&c); msg != "" {
			fail(t, "replay", &c, msg)
		}
		return
	}
	var c ICase
	json.Unmarshal(b, &c)
	for i := 0; i < 50; i++ {
		if msg, _ := runIsolation(&c); msg != "" {
			fail(t, "replay", &c, msg)
		}
	}
}
