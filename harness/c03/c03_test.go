// C03 — event layout: level, context, fields, hook fields, message, each exactly once;
// hook discipline.
package c03

import (
	"bytes"
	"encoding/json"
	"fmt"
	"os"
	"strings"
	"testing"

	"github.com/rs/zerolog"
	"pgregory.net/rapid"
	"verif/harness/ev"
	"verif/harness/lp"
)

const rule = "cases = logger derivation chains (With/Hook/Level/Output/Sample/UpdateContext/Context.Timestamp/Context.Caller, depth<=8 quick, <=16 thorough) x hook lists (add-field, discard, GetCtx reader, noop; direct/HookFunc/LevelHook) x events x finalizers with unique keys; plus the io.Writer entry point (Logger.Write with hooks that keep their message while the caller reuses its buffer); oracle = logger-tree model on the ordered key sequence + hook invocation log; non-trivial = chain depth>=3 with a Hook step and With steps on both sides of it; distinct = FNV-64 of the serialised program"

var rec = ev.New("C03", rule)

func TestMain(m *testing.M) {
	code := m.Run()
	rec.Flush()
	os.Exit(code)
}

func fail(t interface{ Fatalf(string, ...interface{}) }, name string, p *lp.Program, msg string) {
	ev.SaveReplay("C03-"+name, p)
	fmt.Printf("VERIF-FAIL: %s\n", msg)
	t.Fatalf("%s", msg)
}

func nontrivial(p *lp.Program) (bool, []string) {
	var labels []string
	firstHook, lastHook := -1, -1
	withBefore, withAfter := false, false
	branches := map[int]int{}
	for i := range p.Steps {
		branches[p.ParentOf(i)]++
	}
	for _, n := range branches {
		if n >= 2 {
			labels = append(labels, "branching-node")
			break
		}
	}
	for i, s := range p.Steps {
		if s.Kind == "hook" {
			if firstHook < 0 {
				firstHook = i
			}
			lastHook = i
		}
	}
	for i, s := range p.Steps {
		if (s.Kind == "with" || s.Kind == "update") && len(s.Ops) > 0 {
			if firstHook >= 0 && i < firstHook {
				withBefore = true
			}
			if lastHook >= 0 && i > firstHook {
				withAfter = true
			}
		}
		labels = append(labels, "step:"+s.Kind)
		for _, h := range s.Hooks {
			labels = append(labels, "hook:"+h.Kind+"/"+h.Wrap)
		}
	}
	for _, e := range p.Events {
		labels = append(labels, "fin:"+e.Fin, "method:"+e.Method)
	}
	return len(p.Steps) >= 3 && firstHook >= 0 && withBefore && withAfter, labels
}

func cfg() lp.Cfg {
	c := lp.DefaultCfg()
	c.Binary = lp.BinaryBuild // the same property in the binary_log build: the generator then also draws what only CBOR can carry
	c.UniqueKeys = true
	c.MaxOps = 4
	c.MaxDepth = 2
	c.NoLong = true
	return c
}

func normalise(p *lp.Program) {
	// C03's quantifier does not include the error/stack marshal functions or float precision
	p.Set.ErrMarshal = ""
	if p.Set.StackMarshal != "" && p.Set.StackMarshal != "string" {
		p.Set.StackMarshal = ""
	}
	// keys of the standard fields must not collide with the unique user keys; they may be
	// arbitrary otherwise (already so). With unique keys the sequence is decidable.
}

func check(t interface{ Fatalf(string, ...interface{}) }, name string, p *lp.Program) {
	b, _ := json.Marshal(p)
	nt, labels := nontrivial(p)
	rec.Case(b, nt, labels...)
	rec.Sample(json.RawMessage(b))
	res := lp.Run(p)
	if is := lp.CheckResult(p, res, "layout"); len(is) > 0 {
		if is[0].Kind == "invalid" {
			// an unparseable line is C01's finding and its layout cannot be judged — unless the same
			// event through its own derivation path alone emits something else: then the line does
			// not carry "the logger's context fields in the order they were added" but another logger's bytes
			if bad := lp.Interference(p, res); bad != nil {
				fail(t, name, p, fmt.Sprintf("event line %q is not what its own derivation path produces alone: context/hook fields garbled by another logger", bad))
			}
			rec.Excluded("unparseable-line reproduced in isolation (C01's domain)")
			return
		}
		fail(t, name, p, is[0].String())
	}
}

func TestRapidChains(t *testing.T) {
	depth := 8
	if ev.Thorough() {
		depth = 16
	}
	rapid.Check(t, func(rt *rapid.T) {
		g := lp.NewG(rt, cfg())
		p := g.Program(depth, 3)
		normalise(p)
		check(rt, "rapid", p)
	})
}

func TestRapidTrees(t *testing.T) {
	rapid.Check(t, func(rt *rapid.T) {
		c := cfg()
		c.Tree = true
		c.MaxOps = 3
		g := lp.NewG(rt, c)
		p := g.Program(10, 6)
		normalise(p)
		rec.Class("tree-program", 1)
		check(rt, "tree", p)
	})
}

// The io.Writer entry point (the standard library logger writing through a zerolog.Logger): one
// level-less event per call whose message is the line without its final newline; every hook runs once
// and receives that message — as a value of its own, not a view of the caller's buffer, which the
// caller is free to reuse as soon as Write has returned.
type keepHook struct{ got *[]string }

func (h keepHook) Run(e *zerolog.Event, l zerolog.Level, m string) {
	*h.got = append(*h.got, fmt.Sprintf("%d|", l)+m) // keeps m by reference (string concatenation copies — so keep m itself too)
	*h.got = append(*h.got, m)
}

func TestWriteEntryPoint(t *testing.T) {
	rapid.Check(t, func(rt *rapid.T) {
		msg := rapid.StringMatching(`[a-zA-Z0-9 éß"\\]{0,40}`).Draw(rt, "msg")
		nl := rapid.IntRange(0, 2).Draw(rt, "newlines")
		nh := rapid.IntRange(1, 3).Draw(rt, "hooks")
		var kept []string
		var out bytes.Buffer
		l := zerolog.New(&out).With().Str("svc", "x").Logger()
		for i := 0; i < nh; i++ {
			l = l.Hook(keepHook{&kept})
		}
		buf := []byte(msg + strings.Repeat("\n", nl))
		orig := string(buf)
		n, err := l.Write(buf)
		for i := range buf { // the caller reuses its buffer
			buf[i] = '#'
		}
		wantMsg := strings.TrimSuffix(orig, "\n")
		rec.Case([]byte(orig+fmt.Sprint(nh)), nl > 0 && nh > 1, "write-entry")
		if err != nil || n != len(orig) {
			fail(rt, "write", nil, fmt.Sprintf("Logger.Write returned (%d, %v) for %d bytes", n, err, len(orig)))
		}
		if len(kept) != 2*nh {
			fail(rt, "write", nil, fmt.Sprintf("%d hook invocations for one Write through %d hooks", len(kept)/2, nh))
		}
		for i := 0; i < len(kept); i += 2 {
			if kept[i+1] != wantMsg || kept[i] != fmt.Sprintf("%d|", zerolog.NoLevel)+wantMsg {
				fail(rt, "write", nil, fmt.Sprintf("hook %d holds level|message %q and message %q after the caller reused its buffer; the line written was %q", i/2, kept[i], kept[i+1], wantMsg))
			}
		}
		var evt map[string]interface{}
		if err := json.Unmarshal(out.Bytes(), &evt); err != nil {
			fail(rt, "write", nil, fmt.Sprintf("unparseable event %q: %v", out.Bytes(), err))
		}
		_, hasLevel := evt["level"]
		gotMsg, _ := evt["message"].(string)
		if hasLevel || gotMsg != wantMsg && !(wantMsg == "" && evt["message"] == nil) || evt["svc"] != "x" {
			fail(rt, "write", nil, fmt.Sprintf("event %q for line %q", out.Bytes(), orig))
		}
	})
}

func TestReplay(t *testing.T) {
	f := os.Getenv("VERIF_REPLAY")
	if f == "" {
		t.Skip("no VERIF_REPLAY")
	}
	replayFile(t, f)
}

func replayFile(t *testing.T, f string) {
	b, err := os.ReadFile(f)
	if err != nil {
		t.Fatal(err)
	}
	var p lp.Program
	if err := json.Unmarshal(b, &p); err != nil {
		t.Fatal(err)
	}
	rec.Case(b, true, "replay")
	rec.Case(append(b, 1), true, "replay")
	rec.Sample(json.RawMessage(b))
	if is := lp.Check(&p, "layout"); len(is) > 0 {
		fail(t, "replay", &p, is[0].String())
	}
}

func TestRegress(t *testing.T) {
	fs, _ := os.ReadDir(os.Getenv("VERIF_ROOT") + "/known/regress/C03")
	for _, e := range fs {
		replayFile(t, os.Getenv("VERIF_ROOT")+"/known/regress/C03/"+e.Name())
	}
}
