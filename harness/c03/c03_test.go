// C03 — event layout: level, context, fields, hook fields, message, each exactly once;
// hook discipline.
package c03

import (
	"encoding/json"
	"fmt"
	"os"
	"testing"

	"pgregory.net/rapid"
	"verif/harness/ev"
	"verif/harness/lp"
)

const rule = "cases = logger derivation chains (With/Hook/Level/Output/Sample/UpdateContext/Context.Timestamp/Context.Caller, depth<=8 quick, <=16 thorough) x hook lists (add-field, discard, GetCtx reader, noop; direct/HookFunc/LevelHook) x events x finalizers with unique keys; oracle = logger-tree model on the ordered key sequence + hook invocation log; non-trivial = chain depth>=3 with a Hook step and With steps on both sides of it; distinct = FNV-64 of the serialised program"

var rec = ev.New("C03", rule)

func TestMain(m *testing.M) {
	code := m.Run()
	rec.Flush()
	os.Exit(code)
}

func fail(t interface{ Fatalf(string, ...interface{}) }, name string, p *lp.Program, msg string) {
	ev.SaveReplay("C03-"+name, p)
	fmt.Printf("VERIF-FAIL: %s\n", msg)
	t.Fatalf("%s", msg)
}

func nontrivial(p *lp.Program) (bool, []string) {
	var labels []string
	firstHook, lastHook := -1, -1
	withBefore, withAfter := false, false
	branches := map[int]int{}
	for i := range p.Steps {
		branches[p.ParentOf(i)]++
	}
	for _, n := range branches {
		if n >= 2 {
			labels = append(labels, "branching-node")
			break
		}
	}
	for i, s := range p.Steps {
		if s.Kind == "hook" {
			if firstHook < 0 {
				firstHook = i
			}
			lastHook = i
		}
	}
	for i, s := range p.Steps {
		if (s.Kind == "with" || s.Kind == "update") && len(s.Ops) > 0 {
			if firstHook >= 0 && i < firstHook {
				withBefore = true
			}
			if lastHook >= 0 && i > firstHook {
				withAfter = true
			}
		}
		labels = append(labels, "step:"+s.Kind)
		for _, h := range s.Hooks {
			labels = append(labels, "hook:"+h.Kind+"/"+h.Wrap)
		}
	}
	for _, e := range p.Events {
		labels = append(labels, "fin:"+e.Fin, "method:"+e.Method)
	}
	return len(p.Steps) >= 3 && firstHook >= 0 && withBefore && withAfter, labels
}

func cfg() lp.Cfg {
	c := lp.DefaultCfg()
	c.UniqueKeys = true
	c.MaxOps = 4
	c.MaxDepth = 2
	c.NoLong = true
	return c
}

func normalise(p *lp.Program) {
	// C03's quantifier does not include the error/stack marshal functions or float precision
	p.Set.ErrMarshal = ""
	if p.Set.StackMarshal != "" && p.Set.StackMarshal != "string" {
		p.Set.StackMarshal = ""
	}
	// keys of the standard fields must not collide with the unique user keys; they may be
	// arbitrary otherwise (already so). With unique keys the sequence is decidable.
}

func check(t interface{ Fatalf(string, ...interface{}) }, name string, p *lp.Program) {
	b, _ := json.Marshal(p)
	nt, labels := nontrivial(p)
	rec.Case(b, nt, labels...)
	rec.Sample(json.RawMessage(b))
	res := lp.Run(p)
	if is := lp.CheckResult(p, res, "layout"); len(is) > 0 {
		if is[0].Kind == "invalid" {
			// an unparseable line is C01's finding and its layout cannot be judged — unless the same
			// event through its own derivation path alone emits something else: then the line does
			// not carry "the logger's context fields in the order they were added" but another logger's bytes
			if bad := lp.Interference(p, res); bad != nil {
				fail(t, name, p, fmt.Sprintf("event line %q is not what its own derivation path produces alone: context/hook fields garbled by another logger", bad))
			}
			rec.Excluded("unparseable-line reproduced in isolation (C01's domain)")
			return
		}
		fail(t, name, p, is[0].String())
	}
}

func TestRapidChains(t *testing.T) {
	depth := 8
	if ev.Thorough() {
		depth = 16
	}
	rapid.Check(t, func(rt *rapid.T) {
		g := lp.NewG(rt, cfg())
		p := g.Program(depth, 3)
		normalise(p)
		check(rt, "rapid", p)
	})
}

func TestRapidTrees(t *testing.T) {
	rapid.Check(t, func(rt *rapid.T) {
		c := cfg()
		c.Tree = true
		c.MaxOps = 3
		g := lp.NewG(rt, c)
		p := g.Program(10, 6)
		normalise(p)
		rec.Class("tree-program", 1)
		check(rt, "tree", p)
	})
}

func TestReplay(t *testing.T) {
	f := os.Getenv("VERIF_REPLAY")
	if f == "" {
		t.Skip("no VERIF_REPLAY")
	}
	replayFile(t, f)
}

func replayFile(t *testing.T, f string) {
	b, err := os.ReadFile(f)
	if err != nil {
		t.Fatal(err)
	}
	var p lp.Program
	if err := json.Unmarshal(b, &p); err != nil {
		t.Fatal(err)
	}
	rec.Case(b, true, "replay")
	rec.Case(append(b, 1), true, "replay")
	rec.Sample(json.RawMessage(b))
	if is := lp.Check(&p, "layout"); len(is) > 0 {
		fail(t, "replay", &p, is[0].String())
	}
}

func TestRegress(t *testing.T) {
	fs, _ := os.ReadDir(os.Getenv("VERIF_ROOT") + "/known/regress/C03")
	for _, e := range fs {
		replayFile(t, os.Getenv("VERIF_ROOT")+"/known/regress/C03/"+e.Name())
	}
}
