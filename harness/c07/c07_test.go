// C07 — zero heap allocation on the documented fast paths (both encodings).
package c07

import (
	"encoding/json"
	"errors"
	"fmt"
	"io"
	"os"
	"runtime"
	"strconv"
	"strings"
	"testing"
	"time"

	"github.com/rs/zerolog"
	"pgregory.net/rapid"
	"verif/harness/ev"
)

const rule = "cases = chains (1..12 steps, encoded size < 500 B by construction) over exactly the allocation-free method set (Str, Strs, Bytes, Hex, Bool(s), every Int/Uint width and slice variant, Float32/64(s), Time(s), Dur(s), TimeDiff, Timestamp, Err/AnErr of a plain error, Dict, Array, Object of a pointer marshaler, RawJSON, Type, Func; nested Dict/Array/Object from the same set) finalised by Msg or Send, on loggers {bare, with context, with timestamp hook, level-filtered, Nop}; all arguments created before the measured function (slices of 0..3 and of 20 elements; optionally one large string field that puts the event's size in a window below the 64 KiB pooling limit); global TimeFieldFormat (default, the four UNIX formats, two layouts), DurationFieldInteger/Unit and FloatingPointPrecision varied; run in the JSON and the binary_log build. oracle = testing.AllocsPerRun(100, chain) == 0 and, for filtered loggers, nothing written. non-trivial = chain with >=3 distinct method families or a nested Dict/Array/Object; distinct = FNV-64 of (logger kind, step list)"

var rec = ev.New("C07", rule)

func TestMain(m *testing.M) {
	code := m.Run()
	rec.Flush()
	os.Exit(code)
}

type Step struct {
	M   string `json:"m"`             // method family
	V   int    `json:"v,omitempty"`   // value selector
	Sub []Step `json:"sub,omitempty"` // dict / array / object / func contents
}

type Case struct {
	Logger string `json:"logger"` // bare | ctx | ts | filtered | nop | filtered-ctx
	Fin    string `json:"fin"`    // msg | send | msgempty
	Steps  []Step `json:"steps"`
	Build  string `json:"build"`
	// FailFirst: each measured run first emits an event through a logger whose writer returns an
	// error (ErrorHandler set to a no-op), then the chain itself
	FailFirst bool `json:"fail_first,omitempty"`
	// global settings the typed field methods consult (documented knobs, not part of the chain)
	TimeFmt   string `json:"time_format,omitempty"` // "" default | UNIX | UNIXMS | UNIXMICRO | UNIXNANO | a layout
	DurInt    bool   `json:"dur_int,omitempty"`
	DurUnit   int64  `json:"dur_unit,omitempty"`
	FloatPrec *int   `json:"float_prec,omitempty"`
	// Big: one more top-level Str field of this many bytes, so that the event's encoded size lands
	// in a chosen window below the 64 KiB pooling limit (at most one per chain: two would exceed it)
	Big    int  `json:"big,omitempty"`
	BigEsc bool `json:"big_escaped,omitempty"` // the large field starts with bytes that need escaping
	// BigArr: the chain ends with an Array holding one string of this many bytes followed by a small
	// Array: both come from the same pool, which must keep serving both sizes without reallocating
	BigArr int `json:"big_array,omitempty"`
	// BigRaw: a RawJSON field of this many bytes (a JSON string literal)
	BigRaw int `json:"big_raw,omitempty"`
	// FreshPool: zerolog's pools are emptied first, so that the buffers this event grows are its own
	FreshPool bool `json:"fresh_pool,omitempty"`
}

var bigPayload = strings.Repeat("0123456789abcdef", 4096) // 64 KiB of plain text
var bigEscPayload = "\"q\\ é\n" + bigPayload              // the same behind a few bytes that need escaping

// values longer than 32 bytes that need escaping (a conversion to string/[]byte of such a value
// cannot use the compiler's small stack buffer)
var (
	longEsc40  = strings.Repeat("ab\"c", 10)
	longEsc120 = strings.Repeat("x\ny\\z€", 15)
)

// ---- pre-created arguments
var (
	strVals   = []string{"", "v", "hello world", "with \"quote\" and \n newline", "ünïcödé €", "\xff\xfe", longEsc40, longEsc120, strings.Repeat("plain", 20),
		// text a sanitiser may single out (all valid UTF-8): C1 controls, line/paragraph separators, bidi controls, BOM, tag characters, an ANSI sequence
		"c1 \u0085 \u009f", "sep \u2028 and \u2029", "bidi \u202eabc\u202c \u2066x\u2069", "\ufeffbom \u200b zero width \u00ad", "flag \U0001f3f4\U000e0067\U000e0062\U000e007f \U0010ffff", "\x1b[31mred\x1b[0m"}
	bytesVals = [][]byte{nil, {}, []byte("bytes"), {0, 1, 2, 0xff}, []byte("q\"\\"), []byte(longEsc40), []byte(longEsc120), []byte(strings.Repeat("plain", 20))}
	intVals   = []int64{0, 1, -1, 23, 24, 255, 256, -32768, 65535, 1 << 31, -1 << 62, 9223372036854775807}
	uintVals  = []uint64{0, 1, 255, 65536, 1 << 32, 1<<64 - 1}
	f64Vals   = []float64{0, 1.5, -2.25, 1e-7, 1e21, 3.141592653589793, 1e300}
	f32Vals   = []float32{0, 1.5, -2.25, 1e-7, 3.4e38}
	timeVals  = []time.Time{time.Unix(0, 0).UTC(), time.Unix(1700000000, 0).UTC(), time.Unix(1700000000, 123456789).UTC(), time.Date(2001, 2, 3, 4, 5, 6, 7, time.FixedZone("X", 3600)),
		{}, time.Date(3000, 1, 1, 0, 0, 0, 0, time.UTC), time.Date(1500, 6, 1, 12, 0, 0, 5, time.UTC), // these three lie outside the UnixNano range
		// what the standard library hands out besides: a zone offset with a seconds part (local mean time in the
		// zone database before standard time), a negative odd offset, a reading of the wall clock (with its
		// monotonic part), a time in time.Local
		time.Date(1883, 11, 18, 12, 0, 0, 0, time.FixedZone("LMT", -17762)), time.Date(2020, 1, 1, 0, 0, 0, 0, time.FixedZone("odd", 3601)),
		time.Now(), time.Unix(1700000000, 5).In(time.Local)}
	durVals   = []time.Duration{0, 1, time.Millisecond, 1500 * time.Microsecond, time.Hour, -time.Second}
	errVals   = []error{errors.New("plain error"), errors.New(""), errors.New("err \"q\""), fmt.Errorf("outer: %w", errors.New("inner")), fmt.Errorf("a: %w", fmt.Errorf("b: %w", io.EOF))} // wrapping errors whose Error() returns a stored text (one that builds its text on each call allocates by itself)
	rawVals   = [][]byte{[]byte(`{}`), []byte(`{"a":1}`), []byte(`[1,2,3]`), []byte(`null`)}
	typeVals  = []interface{}{nil, 1, "s", 1.5, time.Second, errors.New("x"), []int{1}, map[string]int{}}
	strsVals  = [][]string{nil, {}, {"a"}, {"a", "b\"c", ""}}
	boolsVals = [][]bool{nil, {}, {true}, {true, false, true}}
	intsVals  = [][]int{nil, {}, {1}, {-1, 0, int(int64(1) << 40 >> (64 - strconv.IntSize))}} // 2^40 where int has 64 bits, 2^8 otherwise
	ints8     = [][]int8{nil, {1, -128, 127}}
	ints16    = [][]int16{nil, {1, -32768, 32767}}
	ints32    = [][]int32{nil, {1, -1 << 31}}
	ints64    = [][]int64{nil, {1, -1 << 63}}
	uints     = [][]uint{nil, {1, uint(uint64(1) << 40 >> (64 - strconv.IntSize))}}
	uints8    = [][]uint8{nil, {1, 255}}
	uints16   = [][]uint16{nil, {1, 65535}}
	uints32   = [][]uint32{nil, {1, 1<<32 - 1}}
	uints64   = [][]uint64{nil, {1, 1<<64 - 1}}
	f32s      = [][]float32{nil, {}, {1.5, -2}}
	f64s      = [][]float64{nil, {}, {1.5, 1e-9}}
	timesVals = [][]time.Time{nil, {}, {time.Unix(1, 0).UTC(), time.Unix(2, 5).UTC()}, {{}, time.Date(3000, 1, 1, 0, 0, 0, 0, time.UTC)},
		{time.Date(1883, 11, 18, 12, 0, 0, 0, time.FixedZone("LMT", -17762)), time.Date(2020, 1, 1, 0, 0, 0, 0, time.FixedZone("odd", 3601)), time.Now()}}
	dursVals  = [][]time.Duration{nil, {}, {time.Second, 3}}
)

// every slice family also gets a 20-element value (scratch arrays sized for "typical" slices spill)
func init() {
	var ss []string
	var bs []bool
	var is []int
	var i8 []int8
	var i16 []int16
	var i32 []int32
	var i64 []int64
	var us []uint
	var u8 []uint8
	var u16 []uint16
	var u32 []uint32
	var u64 []uint64
	var fs32 []float32
	var fs64 []float64
	var ts []time.Time
	var ds []time.Duration
	for i := 0; i < 20; i++ {
		ss = append(ss, "s")
		bs = append(bs, i%2 == 0)
		is = append(is, i*1000)
		i8 = append(i8, int8(i))
		i16 = append(i16, int16(i*100))
		i32 = append(i32, int32(i*100000))
		i64 = append(i64, int64(i)<<33)
		us = append(us, uint(i)*7)
		u8 = append(u8, uint8(i))
		u16 = append(u16, uint16(i*300))
		u32 = append(u32, uint32(i)<<20)
		u64 = append(u64, uint64(i)<<40)
		fs32 = append(fs32, float32(i)+0.5)
		fs64 = append(fs64, float64(i)*1.25)
		ts = append(ts, time.Unix(1700000000+int64(i), int64(i)*1001).UTC())
		ds = append(ds, time.Duration(i)*time.Millisecond+7)
	}
	strsVals = append(strsVals, ss)
	boolsVals = append(boolsVals, bs)
	intsVals = append(intsVals, is)
	ints8 = append(ints8, i8)
	ints16 = append(ints16, i16)
	ints32 = append(ints32, i32)
	ints64 = append(ints64, i64)
	uints = append(uints, us)
	uints8 = append(uints8, u8)
	uints16 = append(uints16, u16)
	uints32 = append(uints32, u32)
	uints64 = append(uints64, u64)
	f32s = append(f32s, fs32)
	f64s = append(f64s, fs64)
	timesVals = append(timesVals, ts)
	dursVals = append(dursVals, ds)
}

type objM struct {
	steps []func(*zerolog.Event) *zerolog.Event
}

func (o *objM) MarshalZerologObject(e *zerolog.Event) {
	for _, f := range o.steps {
		f(e)
	}
}

type typeStruct struct {
	A int
	B string
}

var families = []string{"str", "strs", "bytes", "hex", "bool", "bools", "int", "int8", "int16", "int32", "int64", "ints", "ints8", "ints16", "ints32", "ints64",
	"uint", "uint8", "uint16", "uint32", "uint64", "uints", "uints8", "uints16", "uints32", "uints64", "float32", "float64", "floats32", "floats64",
	"time", "times", "dur", "durs", "timediff", "timestamp", "err", "anerr", "rawjson", "type", "dict", "array", "object", "func",
	"strslit", "intslit", "boolslit", "floatslit", "durslit", "bytesconv", "hexconv", "strconcat", "arrconv", "arrscratch", "scratch"}

func pick(n, v int) int { return ((v % n) + n) % n }

// compile turns steps into pre-built closures (nothing is allocated when they run).
func compile(steps []Step, depth int) []func(*zerolog.Event) *zerolog.Event {
	var out []func(*zerolog.Event) *zerolog.Event
	for i, s := range steps {
		k := fmt.Sprintf("k%d_%d", depth, i)
		v := s.V
		var f func(*zerolog.Event) *zerolog.Event
		switch s.M {
		// arguments written at the call site, the way application code does it: slice literals and
		// conversions that the compiler keeps on the stack as long as the callee lets them
		case "strslit":
			a, b := strVals[pick(len(strVals), v)], strVals[pick(len(strVals), v+1)]
			f = func(e *zerolog.Event) *zerolog.Event { return e.Strs(k, []string{a, b, "lit"}) }
		case "intslit":
			a := int(intVals[pick(len(intVals), v)])
			f = func(e *zerolog.Event) *zerolog.Event { return e.Ints(k, []int{a, 2, 3}) }
		case "boolslit":
			a := v%2 == 0
			f = func(e *zerolog.Event) *zerolog.Event { return e.Bools(k, []bool{a, !a}) }
		case "floatslit":
			a := float64(v) / 4
			f = func(e *zerolog.Event) *zerolog.Event { return e.Floats64(k, []float64{a, 1.5}) }
		case "durslit":
			a := time.Duration(v) * time.Millisecond
			f = func(e *zerolog.Event) *zerolog.Event { return e.Durs(k, []time.Duration{a, time.Second}) }
		case "bytesconv":
			x := strVals[pick(len(strVals), v)]
			if len(x) > 24 {
				x = x[:24] // conversions of short strings use a stack buffer
			}
			f = func(e *zerolog.Event) *zerolog.Event { return e.Bytes(k, []byte(x)) }
		case "hexconv":
			x := strVals[pick(len(strVals), v)]
			if len(x) > 24 {
				x = x[:24]
			}
			f = func(e *zerolog.Event) *zerolog.Event { return e.Hex(k, []byte(x)) }
		case "arrconv":
			// the same call-site temporaries as elements of an Array
			x := strVals[pick(len(strVals), v)]
			if len(x) > 12 {
				x = x[:12]
			}
			f = func(e *zerolog.Event) *zerolog.Event {
				return e.Array(k, zerolog.Arr().Bytes([]byte(x)).Hex([]byte(x)).Str("p-"+x))
			}
		case "arrscratch":
			b0 := byte(v)
			f = func(e *zerolog.Event) *zerolog.Event {
				var id [16]byte // a request id, a digest: a scratch array of the caller, sliced for the call
				id[0], id[15] = b0, 0xff
				return e.Array(k, zerolog.Arr().Bytes(id[:]).Hex(id[:8]))
			}
		case "scratch":
			b0 := byte(v)
			f = func(e *zerolog.Event) *zerolog.Event {
				var id [16]byte
				id[0], id[15] = b0, 0xff
				return e.Bytes(k, id[:]).Hex(k, id[:8])
			}
		case "strconcat":
			x := strVals[pick(len(strVals), v)]
			if len(x) > 12 {
				x = x[:12]
			}
			f = func(e *zerolog.Event) *zerolog.Event { return e.Str(k, "p-"+x) }
		case "str":
			x := strVals[pick(len(strVals), v)]
			f = func(e *zerolog.Event) *zerolog.Event { return e.Str(k, x) }
		case "strs":
			x := strsVals[pick(len(strsVals), v)]
			f = func(e *zerolog.Event) *zerolog.Event { return e.Strs(k, x) }
		case "bytes":
			x := bytesVals[pick(len(bytesVals), v)]
			f = func(e *zerolog.Event) *zerolog.Event { return e.Bytes(k, x) }
		case "hex":
			x := bytesVals[pick(len(bytesVals), v)]
			f = func(e *zerolog.Event) *zerolog.Event { return e.Hex(k, x) }
		case "bool":
			x := v%2 == 0
			f = func(e *zerolog.Event) *zerolog.Event { return e.Bool(k, x) }
		case "bools":
			x := boolsVals[pick(len(boolsVals), v)]
			f = func(e *zerolog.Event) *zerolog.Event { return e.Bools(k, x) }
		case "int":
			x := int(intVals[pick(len(intVals), v)])
			f = func(e *zerolog.Event) *zerolog.Event { return e.Int(k, x) }
		case "int8":
			x := int8(intVals[pick(len(intVals), v)])
			f = func(e *zerolog.Event) *zerolog.Event { return e.Int8(k, x) }
		case "int16":
			x := int16(intVals[pick(len(intVals), v)])
			f = func(e *zerolog.Event) *zerolog.Event { return e.Int16(k, x) }
		case "int32":
			x := int32(intVals[pick(len(intVals), v)])
			f = func(e *zerolog.Event) *zerolog.Event { return e.Int32(k, x) }
		case "int64":
			x := intVals[pick(len(intVals), v)]
			f = func(e *zerolog.Event) *zerolog.Event { return e.Int64(k, x) }
		case "ints":
			x := intsVals[pick(len(intsVals), v)]
			f = func(e *zerolog.Event) *zerolog.Event { return e.Ints(k, x) }
		case "ints8":
			x := ints8[pick(len(ints8), v)]
			f = func(e *zerolog.Event) *zerolog.Event { return e.Ints8(k, x) }
		case "ints16":
			x := ints16[pick(len(ints16), v)]
			f = func(e *zerolog.Event) *zerolog.Event { return e.Ints16(k, x) }
		case "ints32":
			x := ints32[pick(len(ints32), v)]
			f = func(e *zerolog.Event) *zerolog.Event { return e.Ints32(k, x) }
		case "ints64":
			x := ints64[pick(len(ints64), v)]
			f = func(e *zerolog.Event) *zerolog.Event { return e.Ints64(k, x) }
		case "uint":
			x := uint(uintVals[pick(len(uintVals), v)])
			f = func(e *zerolog.Event) *zerolog.Event { return e.Uint(k, x) }
		case "uint8":
			x := uint8(uintVals[pick(len(uintVals), v)])
			f = func(e *zerolog.Event) *zerolog.Event { return e.Uint8(k, x) }
		case "uint16":
			x := uint16(uintVals[pick(len(uintVals), v)])
			f = func(e *zerolog.Event) *zerolog.Event { return e.Uint16(k, x) }
		case "uint32":
			x := uint32(uintVals[pick(len(uintVals), v)])
			f = func(e *zerolog.Event) *zerolog.Event { return e.Uint32(k, x) }
		case "uint64":
			x := uintVals[pick(len(uintVals), v)]
			f = func(e *zerolog.Event) *zerolog.Event { return e.Uint64(k, x) }
		case "uints":
			x := uints[pick(len(uints), v)]
			f = func(e *zerolog.Event) *zerolog.Event { return e.Uints(k, x) }
		case "uints8":
			x := uints8[pick(len(uints8), v)]
			f = func(e *zerolog.Event) *zerolog.Event { return e.Uints8(k, x) }
		case "uints16":
			x := uints16[pick(len(uints16), v)]
			f = func(e *zerolog.Event) *zerolog.Event { return e.Uints16(k, x) }
		case "uints32":
			x := uints32[pick(len(uints32), v)]
			f = func(e *zerolog.Event) *zerolog.Event { return e.Uints32(k, x) }
		case "uints64":
			x := uints64[pick(len(uints64), v)]
			f = func(e *zerolog.Event) *zerolog.Event { return e.Uints64(k, x) }
		case "float32":
			x := f32Vals[pick(len(f32Vals), v)]
			f = func(e *zerolog.Event) *zerolog.Event { return e.Float32(k, x) }
		case "float64":
			x := f64Vals[pick(len(f64Vals), v)]
			f = func(e *zerolog.Event) *zerolog.Event { return e.Float64(k, x) }
		case "floats32":
			x := f32s[pick(len(f32s), v)]
			f = func(e *zerolog.Event) *zerolog.Event { return e.Floats32(k, x) }
		case "floats64":
			x := f64s[pick(len(f64s), v)]
			f = func(e *zerolog.Event) *zerolog.Event { return e.Floats64(k, x) }
		case "time":
			x := timeVals[pick(len(timeVals), v)]
			f = func(e *zerolog.Event) *zerolog.Event { return e.Time(k, x) }
		case "times":
			x := timesVals[pick(len(timesVals), v)]
			f = func(e *zerolog.Event) *zerolog.Event { return e.Times(k, x) }
		case "dur":
			x := durVals[pick(len(durVals), v)]
			f = func(e *zerolog.Event) *zerolog.Event { return e.Dur(k, x) }
		case "durs":
			x := dursVals[pick(len(dursVals), v)]
			f = func(e *zerolog.Event) *zerolog.Event { return e.Durs(k, x) }
		case "timediff":
			a, b := timeVals[pick(len(timeVals), v)], timeVals[pick(len(timeVals), v+1)]
			f = func(e *zerolog.Event) *zerolog.Event { return e.TimeDiff(k, a, b) }
		case "timestamp":
			f = func(e *zerolog.Event) *zerolog.Event { return e.Timestamp() }
		case "err":
			x := errVals[pick(len(errVals), v)]
			f = func(e *zerolog.Event) *zerolog.Event { return e.Err(x) }
		case "anerr":
			x := errVals[pick(len(errVals), v)]
			f = func(e *zerolog.Event) *zerolog.Event { return e.AnErr(k, x) }
		case "rawjson":
			x := rawVals[pick(len(rawVals), v)]
			f = func(e *zerolog.Event) *zerolog.Event { return e.RawJSON(k, x) }
		case "type":
			// half of the selectors hand Type a value that is boxed at the call site (struct, large int,
			// string, float variables): free only while Type's argument does not escape
			switch v % 8 {
			case 1:
				x := typeStruct{A: v, B: "b"}
				f = func(e *zerolog.Event) *zerolog.Event { return e.Type(k, x) }
			case 3:
				x := 1000 + v
				f = func(e *zerolog.Event) *zerolog.Event { return e.Type(k, x) }
			case 5:
				x := strVals[pick(len(strVals), v)] + "!"
				f = func(e *zerolog.Event) *zerolog.Event { return e.Type(k, x) }
			case 7:
				x := 1234.5 + float64(v)
				f = func(e *zerolog.Event) *zerolog.Event { return e.Type(k, x) }
			default:
				x := typeVals[pick(len(typeVals), v)]
				f = func(e *zerolog.Event) *zerolog.Event { return e.Type(k, x) }
			}
		case "dict":
			sub := compile(s.Sub, depth+1)
			f = func(e *zerolog.Event) *zerolog.Event {
				d := zerolog.Dict()
				for _, g := range sub {
					d = g(d)
				}
				return e.Dict(k, d)
			}
		case "array":
			sub := s.Sub
			f = func(e *zerolog.Event) *zerolog.Event {
				a := zerolog.Arr()
				for _, x := range sub {
					switch x.M {
					case "str":
						a.Str(strVals[pick(len(strVals), x.V)])
					case "int":
						a.Int(int(intVals[pick(len(intVals), x.V)]))
					case "float64":
						a.Float64(f64Vals[pick(len(f64Vals), x.V)])
					case "bool":
						a.Bool(x.V%2 == 0)
					case "time":
						a.Time(timeVals[pick(len(timeVals), x.V)])
					case "dur":
						a.Dur(durVals[pick(len(durVals), x.V)])
					case "bytes":
						a.Bytes(bytesVals[pick(len(bytesVals), x.V)])
					case "hex":
						a.Hex(bytesVals[pick(len(bytesVals), x.V)])
					case "uint64":
						a.Uint64(uintVals[pick(len(uintVals), x.V)])
					case "err":
						a.Err(errVals[pick(len(errVals), x.V)])
					}
				}
				return e.Array(k, a)
			}
		case "object":
			o := &objM{compile(s.Sub, depth+1)}
			f = func(e *zerolog.Event) *zerolog.Event { return e.Object(k, o) }
		case "func":
			sub := compile(s.Sub, depth+1)
			g := func(e *zerolog.Event) {
				for _, h := range sub {
					h(e)
				}
			}
			f = func(e *zerolog.Event) *zerolog.Event { return e.Func(g) }
		default:
			panic("c07: family " + s.M)
		}
		out = append(out, f)
	}
	return out
}

// failW always fails: with ErrorHandler set, the error path must not cost the next events anything.
type failW struct{}

var errFail = errors.New("write failed")

func (failW) Write(p []byte) (int, error) { return 0, errFail }

type countW struct{ n, bytes int }

func (w *countW) Write(p []byte) (int, error) { w.n++; w.bytes += len(p); return len(p), nil }

func run(c *Case) (string, bool) {
	w := &countW{}
	var l zerolog.Logger
	switch c.Logger {
	case "bare":
		l = zerolog.New(w)
	case "ctx":
		l = zerolog.New(w).With().Str("svc", "api").Int("shard", 7).Logger()
	case "ts":
		l = zerolog.New(w).With().Timestamp().Logger()
	case "filtered":
		l = zerolog.New(w).Level(zerolog.ErrorLevel)
	case "filtered-ctx":
		l = zerolog.New(w).With().Str("svc", "api").Timestamp().Logger().Level(zerolog.Disabled)
	case "nop":
		l = zerolog.Nop()
	default:
		panic("logger kind")
	}
	oTF, oDI, oDU, oFP := zerolog.TimeFieldFormat, zerolog.DurationFieldInteger, zerolog.DurationFieldUnit, zerolog.FloatingPointPrecision
	defer func() {
		zerolog.TimeFieldFormat, zerolog.DurationFieldInteger, zerolog.DurationFieldUnit, zerolog.FloatingPointPrecision = oTF, oDI, oDU, oFP
	}()
	switch c.TimeFmt {
	case "":
	case "UNIX":
		zerolog.TimeFieldFormat = zerolog.TimeFormatUnix
	case "UNIXMS":
		zerolog.TimeFieldFormat = zerolog.TimeFormatUnixMs
	case "UNIXMICRO":
		zerolog.TimeFieldFormat = zerolog.TimeFormatUnixMicro
	case "UNIXNANO":
		zerolog.TimeFieldFormat = zerolog.TimeFormatUnixNano
	default:
		zerolog.TimeFieldFormat = c.TimeFmt
	}
	zerolog.DurationFieldInteger = c.DurInt
	if c.DurUnit > 0 {
		zerolog.DurationFieldUnit = time.Duration(c.DurUnit)
	}
	if c.FloatPrec != nil {
		zerolog.FloatingPointPrecision = *c.FloatPrec
	}
	steps := compile(c.Steps, 0)
	fin := c.Fin
	var bad zerolog.Logger
	if c.FailFirst {
		bad = zerolog.New(failW{})
		old := zerolog.ErrorHandler
		zerolog.ErrorHandler = func(error) {}
		defer func() { zerolog.ErrorHandler = old }()
	}
	if c.FreshPool {
		runtime.GC() // two cycles empty sync.Pool (victim cache included): the event starts from a fresh 500-byte buffer
		runtime.GC()
	}
	var raw []byte
	if c.BigRaw > 0 {
		raw = []byte("\"" + strings.Repeat("r", c.BigRaw-2) + "\"") // a valid document of exactly that size
	}
	f := func() {
		if c.FailFirst {
			// history: an event whose write fails, immediately before the measured event
			bad.Warn().Str("k", "v").Msg("lost")
		}
		e := l.Info()
		for _, s := range steps {
			e = s(e)
		}
		if c.Big > 0 && c.BigEsc {
			e = e.Str("big", bigEscPayload[:c.Big])
		} else if c.Big > 0 {
			e = e.Str("big", bigPayload[:c.Big])
		}
		if c.BigRaw > 0 {
			e = e.RawJSON("bigraw", raw)
		}
		if c.BigArr > 0 {
			e = e.Array("bigarr", zerolog.Arr().Str(bigPayload[:c.BigArr])).Array("smallarr", zerolog.Arr().Int(1).Bool(true))
		}
		switch fin {
		case "send":
			e.Send()
		case "msgempty":
			e.Msg("")
		default:
			e.Msg("the message")
		}
	}
	f() // warm
	f()
	w.n, w.bytes = 0, 0
	allocs := testing.AllocsPerRun(100, f)
	fam := map[string]bool{}
	nested := false
	var walk func([]Step)
	walk = func(ss []Step) {
		for _, s := range ss {
			fam[s.M] = true
			if len(s.Sub) > 0 || s.M == "dict" || s.M == "array" || s.M == "object" {
				nested = true
			}
			walk(s.Sub)
		}
	}
	walk(c.Steps)
	nt := len(fam) >= 3 || nested
	if allocs != 0 {
		return fmt.Sprintf("%v allocs per event (want 0) on logger %q", allocs, c.Logger), nt
	}
	filtered := c.Logger == "filtered" || c.Logger == "filtered-ctx" || c.Logger == "nop"
	if filtered && w.n != 0 {
		return fmt.Sprintf("filtered logger wrote %d times", w.n), nt
	}
	if !filtered && w.n != 101 {
		return fmt.Sprintf("expected 101 writes, got %d", w.n), nt
	}
	return "", nt
}

func fail(t interface{ Fatalf(string, ...interface{}) }, name string, c *Case, msg string) {
	ev.SaveReplay("C07-"+name+"-"+buildName(), c)
	fmt.Printf("VERIF-FAIL: [%s build] %s\n", buildName(), msg)
	t.Fatalf("%s", msg)
}

var timeFmts = []string{"", "UNIX", "UNIXMS", "UNIXMICRO", "UNIXNANO", time.RFC3339Nano, time.RFC1123Z, "é 2006-01-02T15:04:05.000000000Z07:00 €uro \"at\" Monday"}

var arrayFamilies = []string{"str", "int", "float64", "bool", "time", "dur", "bytes", "hex", "uint64", "err"}

func genSteps(rt *rapid.T, depth, budget int, label string) []Step {
	n := rapid.IntRange(0, budget).Draw(rt, label+".n")
	if depth == 0 && n == 0 {
		n = 1
	}
	var out []Step
	for i := 0; i < n; i++ {
		m := rapid.SampledFrom(families).Draw(rt, label+".m")
		s := Step{M: m, V: rapid.IntRange(0, 11).Draw(rt, label+".v")}
		switch m {
		case "dict", "object", "func":
			if depth < 2 {
				s.Sub = genSteps(rt, depth+1, 3, label+".sub")
			}
		case "array":
			k := rapid.IntRange(0, 4).Draw(rt, label+".an")
			for j := 0; j < k; j++ {
				s.Sub = append(s.Sub, Step{M: rapid.SampledFrom(arrayFamilies).Draw(rt, label+".am"), V: rapid.IntRange(0, 11).Draw(rt, label+".av")})
			}
		}
		out = append(out, s)
	}
	return out
}

func TestRapidChains(t *testing.T) {
	rapid.Check(t, func(rt *rapid.T) {
		c := &Case{Logger: rapid.SampledFrom([]string{"bare", "ctx", "ts", "filtered", "filtered-ctx", "nop"}).Draw(rt, "logger"),
			Fin: rapid.SampledFrom([]string{"msg", "send", "msgempty"}).Draw(rt, "fin"), Build: buildName()}
		c.Steps = genSteps(rt, 0, 8, "s")
		c.FailFirst = rapid.IntRange(0, 4).Draw(rt, "failfirst") == 0
		if rapid.IntRange(0, 7).Draw(rt, "bigarr") == 0 {
			c.BigArr = rapid.SampledFrom([]int{600, 4200, 5000, 9000, 20000}).Draw(rt, "bigarrsize")
		}
		if c.BigArr == 0 && rapid.IntRange(0, 5).Draw(rt, "big") == 0 {
			// sizes around the buffer growth steps up to just below the pooling limit; the chain itself stays small
			c.Big = rapid.SampledFrom([]int{600, 4000, 11000, 30000, 33000, 57400, 60000, 61000}).Draw(rt, "bigsize")
			c.BigEsc = rapid.Bool().Draw(rt, "bigesc")
		}
		if rapid.Bool().Draw(rt, "settings") {
			c.TimeFmt = rapid.SampledFrom(timeFmts).Draw(rt, "timefmt")
			c.DurInt = rapid.Bool().Draw(rt, "durint")
			c.DurUnit = rapid.SampledFrom([]int64{0, 1, int64(time.Microsecond), int64(time.Second)}).Draw(rt, "durunit")
			if rapid.Bool().Draw(rt, "fp") {
				p := rapid.IntRange(0, 6).Draw(rt, "prec")
				c.FloatPrec = &p
			}
		}
		msg, nt := run(c)
		b, _ := json.Marshal(c)
		rec.Case(b, nt, "logger:"+c.Logger, "build:"+buildName())
		rec.Sample(json.RawMessage(b))
		if msg != "" {
			fail(rt, "chain", c, msg)
		}
	})
}

// every family alone, on every logger kind (so a single allocating method is found at once)
func TestEachFamily(t *testing.T) {
	var n int64
	for _, lg := range []string{"bare", "ctx", "ts", "filtered", "filtered-ctx", "nop"} {
		for _, m := range families {
			for v := 0; v < 12; v++ {
				c := &Case{Logger: lg, Fin: "msg", Build: buildName(), Steps: []Step{{M: m, V: v}}}
				switch m {
				case "dict", "object", "func":
					c.Steps[0].Sub = []Step{{M: "str", V: v}, {M: "int", V: v}}
					if v%3 == 0 {
						c.Steps[0].Sub = nil // empty dict / object / func
					}
				case "array":
					c.Steps[0].Sub = []Step{{M: "str", V: v}, {M: "int", V: v}, {M: "err", V: v}}
					if v%3 == 0 {
						c.Steps[0].Sub = nil // empty array
					}
				}
				n++
				if msg, _ := run(c); msg != "" {
					fail(t, "family", c, m+": "+msg)
				}
			}
		}
	}
	// large embedded JSON documents: whoever grows the buffer for them must leave it poolable
	for _, lg := range []string{"bare", "ctx"} {
		for _, big := range []int{600, 5000, 20000, 33000, 40000, 50000, 60000} {
			c := &Case{Logger: lg, Fin: "msg", Build: buildName(), Steps: []Step{{M: "int", V: 3}}, BigRaw: big, FreshPool: true}
			n++
			if msg, _ := run(c); msg != "" {
				fail(t, "family", c, fmt.Sprintf("with a %d-byte RawJSON field: %s", big, msg))
			}
			c = &Case{Logger: lg, Fin: "msg", Build: buildName(), Steps: []Step{{M: "int", V: 3}}, Big: 20000, BigRaw: big / 2, FreshPool: true}
			n++
			if msg, _ := run(c); msg != "" {
				fail(t, "family", c, fmt.Sprintf("with a 20000-byte string and a %d-byte RawJSON field: %s", big/2, msg))
			}
		}
	}
	// events whose buffer has grown to each capacity class up to the pooling limit (64 KiB): still pooled, still free
	for _, lg := range []string{"bare", "ctx", "ts", "filtered"} {
		for _, big := range []int{500, 1100, 9000, 11000, 20000, 33000, 41000, 49500, 57400, 60000, 63000} {
			for _, esc := range []bool{false, true} {
				for _, fresh := range []bool{false, true} {
					c := &Case{Logger: lg, Fin: "msg", Build: buildName(), Steps: []Step{{M: "int", V: 3}}, Big: big, BigEsc: esc, FreshPool: fresh}
					n++
					if msg, _ := run(c); msg != "" {
						fail(t, "family", c, fmt.Sprintf("with a %d-byte field (escaped=%v, pools emptied first=%v): %s", big, esc, fresh, msg))
					}
				}
			}
		}
	}
	for _, lg := range []string{"bare", "ctx", "filtered"} {
		for _, ba := range []int{600, 4200, 5000, 9000, 20000, 40000} {
			c := &Case{Logger: lg, Fin: "msg", Build: buildName(), Steps: []Step{{M: "array", V: 1, Sub: []Step{{M: "int", V: 1}}}}, BigArr: ba}
			n++
			if msg, _ := run(c); msg != "" {
				fail(t, "family", c, fmt.Sprintf("with a %d-byte array followed by a small one: %s", ba, msg))
			}
		}
	}
	// the time/duration/float families under every time format, integer durations, another unit, a precision
	three := 3
	for _, tf := range timeFmts {
		for _, m := range []string{"time", "times", "timestamp", "timediff", "dur", "durs", "float32", "float64", "floats32", "floats64", "array"} {
			for v := 0; v < 12; v++ {
				c := &Case{Logger: "bare", Fin: "msg", Build: buildName(), Steps: []Step{{M: m, V: v}}, TimeFmt: tf, DurInt: v%2 == 0, DurUnit: []int64{0, 1, int64(time.Second)}[v%3]}
				if v%4 == 1 {
					c.FloatPrec = &three
				}
				if m == "array" {
					c.Steps[0].Sub = []Step{{M: "time", V: v}, {M: "dur", V: v}, {M: "float64", V: v}}
				}
				if !hasFamily(m) {
					continue
				}
				n++
				if msg, _ := run(c); msg != "" {
					fail(t, "family", c, m+" under settings: "+msg)
				}
			}
		}
	}
	for _, lg := range []string{"bare", "ctx", "filtered"} {
		c := &Case{Logger: lg, Fin: "msg", Build: buildName(), FailFirst: true, Steps: []Step{{M: "str", V: 1}, {M: "int", V: 2}}}
		n++
		if msg, _ := run(c); msg != "" {
			fail(t, "family", c, "after a failed write: "+msg)
		}
	}
	rec.Bulk(n, n, "each-family:"+buildName())
	rec.Exhaustive(fmt.Sprintf("every method family (%d) x 12 value selectors (incl. empty Dict/Array/Object/Func) x 6 logger kinds, %s build", len(families), buildName()))
}

// TestSizeSweep walks the encoded size of an event byte by byte across the capacity classes of the
// pooled buffer, starting from an emptied pool (fresh 500-byte buffers): an event that exactly
// fills its buffer, or overflows it by the terminator alone, must leave a buffer behind that the
// next event of that size fits into.
func TestSizeSweep(t *testing.T) {
	var n int64
	for _, lg := range []string{"bare", "ctx"} {
		for _, fin := range []string{"msg", "send"} {
			runtime.GC() // two cycles empty sync.Pool, victim cache included
			runtime.GC()
			for big := 380; big <= 1100; big++ {
				c := &Case{Logger: lg, Fin: fin, Build: buildName(), Steps: []Step{{M: "bool", V: 1}}, Big: big}
				n++
				if msg, _ := run(c); msg != "" {
					fail(t, "sweep", c, fmt.Sprintf("with a %d-byte field on a fresh pool: %s", big, msg))
				}
			}
		}
	}
	rec.Bulk(n, n, "size-sweep:"+buildName())
	rec.Sample(map[string]interface{}{"campaign": "size sweep 380..1100 bytes across the pooled buffer's capacity classes", "cases": n})
}

func hasFamily(m string) bool {
	for _, f := range families {
		if f == m {
			return true
		}
	}
	return false
}

func TestReplay(t *testing.T) {
	f := os.Getenv("VERIF_REPLAY")
	if f == "" {
		t.Skip("no VERIF_REPLAY")
	}
	b, err := os.ReadFile(f)
	if err != nil {
		t.Fatal(err)
	}
	var c Case
	if err := json.Unmarshal(b, &c); err != nil {
		t.Fatal(err)
	}
	rec.Case(b, true, "replay")
	rec.Case(append(b, 1), true, "replay")
	rec.Sample(json.RawMessage(b))
	if c.Build != "" && c.Build != buildName() {
		return
	}
	if msg, _ := run(&c); msg != "" {
		fail(t, "replay", &c, msg)
	}
}
