//go:build !binary_log

package c07

func buildName() string { return "json" }
