// C01 — every emitted event is exactly one well-formed JSON object on one line.
package c01

import (
	"encoding/json"
	"fmt"
	"os"
	"testing"

	"pgregory.net/rapid"
	"verif/harness/ev"
	"verif/harness/jsonref"
	"verif/harness/lp"
)

const rule = "cases = logging programs (settings x derivation chain x events x field ops over every type/entry point) from the rapid generator, plus exhaustive Sigma-strings and empty-shape programs; non-trivial = program contains a byte outside 0x20-0x7e, a non-finite float, a nil/empty container or value, nesting depth>=2, context+hook+event fields together, or a non-default setting; distinct = FNV-64 of the serialised program"

var rec = ev.New("C01", rule)

func TestMain(m *testing.M) {
	code := m.Run()
	rec.Flush()
	os.Exit(code)
}

// Check runs p and validates every write. Returns "" when the property held.
func Check(p *lp.Program) string {
	res := lp.Run(p)
	if res.Panic != nil {
		return fmt.Sprintf("panic while logging: %v", res.Panic)
	}
	for _, ws := range res.Dests {
		for i, w := range ws {
			if _, err := jsonref.ValidateLine(w.Data); err != nil {
				return fmt.Sprintf("write %d is not one well-formed JSON line: %v: %q", i, err, w.Data)
			}
		}
	}
	return ""
}

func record(p *lp.Program) {
	b, _ := json.Marshal(p)
	cl := lp.Classify(p)
	rec.Case(b, cl.NonTrivial(), cl.Labels()...)
	rec.Sample(json.RawMessage(b))
}

func TestRapidPrograms(t *testing.T) {
	rapid.Check(t, func(rt *rapid.T) {
		g := lp.NewG(rt, lp.DefaultCfg())
		p := g.Program(4, 3)
		record(p)
		if msg := Check(p); msg != "" {
			ev.SaveReplay("C01-rapid", p)
			rt.Fatalf("%s", msg)
		}
	})
}

func TestRapidTrees(t *testing.T) {
	rapid.Check(t, func(rt *rapid.T) {
		cfg := lp.DefaultCfg()
		cfg.Tree = true
		cfg.MaxOps = 4
		g := lp.NewG(rt, cfg)
		p := g.Program(8, 5)
		record(p)
		rec.Class("tree-program", 1)
		if msg := Check(p); msg != "" {
			ev.SaveReplay("C01-tree", p)
			fmt.Printf("VERIF-FAIL: %s\n", msg)
			rt.Fatalf("%s", msg)
		}
	})
}

func TestReplay(t *testing.T) {
	f := os.Getenv("VERIF_REPLAY")
	if f == "" {
		t.Skip("no VERIF_REPLAY")
	}
	b, err := os.ReadFile(f)
	if err != nil {
		t.Fatal(err)
	}
	var p lp.Program
	if err := json.Unmarshal(b, &p); err != nil {
		t.Fatal(err)
	}
	rec.Case(b, true, "replay")
	rec.Case(append(b, 1), true, "replay")
	rec.Sample(json.RawMessage(b))
	if msg := Check(&p); msg != "" {
		ev.SaveReplay("C01-replay", &p)
		t.Fatalf("%s", msg)
	}
}

func TestRegress(t *testing.T) {
	dir := os.Getenv("VERIF_ROOT") + "/known/regress/C01"
	fs, _ := os.ReadDir(dir)
	for _, e := range fs {
		b, err := os.ReadFile(dir + "/" + e.Name())
		if err != nil {
			t.Fatal(err)
		}
		var p lp.Program
		if err := json.Unmarshal(b, &p); err != nil {
			t.Fatal(err)
		}
		rec.Case(b, true, "regress")
		if msg := Check(&p); msg != "" {
			ev.SaveReplay("C01-regress-"+e.Name(), &p)
			t.Fatalf("%s: %s", e.Name(), msg)
		}
	}
}

// emptyShapes: every container / nil-able entry point with nothing in it.
func emptyShapes() []lp.Op {
	var out []lp.Op
	k := func(t string, v lp.Val) { v.T = t; out = append(out, lp.Op{K: []byte("e"), V: v}) }
	nk := func(t string, v lp.Val) { v.T = t; out = append(out, lp.Op{V: v}) }
	k("dict", lp.Val{})
	k("arr", lp.Val{})
	k("arrm", lp.Val{})
	k("obj", lp.Val{})
	k("obj", lp.Val{Nil: true})
	nk("embed", lp.Val{})
	nk("embed", lp.Val{Nil: true})
	nk("fieldsmap", lp.Val{})
	nk("fieldsslice", lp.Val{})
	nk("func", lp.Val{})
	for _, st := range []string{"strs", "stringers", "bools", "ints", "ints8", "ints16", "ints32", "ints64", "uints", "uints8", "uints16", "uints32", "uints64", "floats32", "floats64", "times", "durs", "errs"} {
		k(st, lp.Val{Nil: true})
		k(st, lp.Val{L: []lp.Val{}})
		if st != "stringers" && st != "uints8" {
			nk("fieldsslice", lp.Val{Ops: []lp.Op{{K: []byte("f"), V: lp.Val{T: st, Nil: true}}}})
			nk("fieldsmap", lp.Val{Ops: []lp.Op{{K: []byte("f"), V: lp.Val{T: st, L: []lp.Val{}}}}})
		}
	}
	k("bytes", lp.Val{Nil: true})
	k("hex", lp.Val{Nil: true})
	k("str", lp.Val{})
	k("stringer", lp.Val{Nil: true})
	k("anerr", lp.Val{EK: "nil"})
	k("anerr", lp.Val{EK: "typednil"})
	nk("err", lp.Val{EK: "nil"})
	nk("err", lp.Val{EK: "typednil"})
	k("iface", lp.Val{If: &lp.Iface{K: "nil"}})
	k("iface", lp.Val{If: &lp.Iface{K: "ptrnil"}})
	k("iface", lp.Val{If: &lp.Iface{K: "list"}})
	k("iface", lp.Val{If: &lp.Iface{K: "map"}})
	k("iface", lp.Val{If: &lp.Iface{K: "objmarshaler"}})
	k("type", lp.Val{If: &lp.Iface{K: "nil"}})
	k("ip", lp.Val{Nil: true})
	k("mac", lp.Val{Nil: true})
	k("rawcbor", lp.Val{})
	k("errs", lp.Val{L: []lp.Val{{T: "anerr", EK: "nil"}, {T: "anerr", EK: "typednil"}}})
	k("stringers", lp.Val{L: []lp.Val{{T: "stringer", Nil: true}}})
	k("arr", lp.Val{L: []lp.Val{{T: "obj"}, {T: "dict"}, {T: "anerr", EK: "nil"}}})
	for _, pt := range []string{"str", "bool", "int", "int8", "int16", "int32", "int64", "uint", "uint8", "uint16", "uint32", "uint64", "float32", "float64", "time", "dur"} {
		nk("fieldsslice", lp.Val{Ops: []lp.Op{{K: []byte("p"), V: lp.Val{T: pt, Ptr: true, Nil: true}}}})
	}
	nk("fieldsmap", lp.Val{Ops: []lp.Op{{K: []byte("n"), V: lp.Val{T: "nil"}}}})
	nk("fieldsslice", lp.Val{Ops: []lp.Op{{K: []byte("n"), V: lp.Val{T: "anerr", EK: "nil"}}, {K: []byte("m"), V: lp.Val{T: "errs", L: []lp.Val{}}}, {K: []byte("o"), V: lp.Val{T: "obj"}}}})
	nk("stack", lp.Val{})
	return out
}

func ctxOK(t string) bool {
	switch t {
	case "rawcbor", "timediff", "stringers", "func", "getctx":
		return false
	}
	return true
}

// TestEmptyShapes: every empty shape alone / first / middle / last, in Event and in
// Context, flat and nested inside Dict/Object/Array, under default settings and with
// an empty level field, with and without a stack marshaler returning nil.
func TestEmptyShapes(t *testing.T) {
	shapes := emptyShapes()
	s := lp.Op{K: []byte("s"), V: lp.Val{T: "str", S: []byte("v")}}
	var n int
	run := func(p *lp.Program) {
		n++
		record(p)
		if msg := Check(p); msg != "" {
			ev.SaveReplay("C01-empty", p)
			fmt.Printf("VERIF-FAIL: %s\n", msg)
			t.Fatalf("%s", msg)
		}
	}
	sets := []lp.Settings{lp.DefaultSettings(), lp.DefaultSettings(), lp.DefaultSettings()}
	empty := []byte{}
	sets[1].LevelField = &empty
	sets[2].StackMarshal = "nil"
	for _, set := range sets {
		for _, sh := range shapes {
			for _, seq := range [][]lp.Op{{sh}, {sh, s}, {s, sh}, {s, sh, s}, {sh, sh}, {s, sh, sh, s}} {
				run(lp.P(set, nil, lp.Ev(seq...)))
				run(lp.P(set, nil, lp.Ev(lp.Op{V: lp.Val{T: "stack"}}, lp.KV("d", lp.Val{T: "dict", Ops: seq}), lp.KV("o", lp.Val{T: "obj", Ops: seq}), lp.Op{V: lp.Val{T: "embed", Ops: seq}}, lp.Op{V: lp.Val{T: "func", Ops: seq}})))
				if ctxOK(sh.V.T) {
					run(lp.P(set, []lp.Step{lp.With(seq...)}, lp.Ev()))
					run(lp.P(set, []lp.Step{lp.With(seq...)}, lp.Ev(s)))
					run(lp.P(set, []lp.Step{lp.With(s), lp.With(seq...), lp.With(lp.Op{V: lp.Val{T: "stack"}}), {Kind: "update", Ops: seq}}, lp.Ev(seq...)))
					run(lp.P(set, []lp.Step{lp.With(), {Kind: "hook", Hooks: []lp.HookSpec{{Kind: "add", ID: 1, Ops: seq}}}}, lp.Ev(), lp.Ev(s)))
				}
			}
		}
	}
	rec.Exhaustive(fmt.Sprintf("%d empty/nil shapes x 6 positions x {event, nested dict/obj/embed/func, context, update, hook} x 3 settings = %d programs", len(shapes), n))
}

func sigmaStrings(maxLen int, f func([]byte)) {
	var rec func(prefix []byte, l int)
	rec = func(prefix []byte, l int) {
		f(prefix)
		if l == maxLen {
			return
		}
		for _, s := range lp.Sigma {
			rec(append(append([]byte{}, prefix...), s...), l+1)
		}
	}
	rec(nil, 0)
}

// TestSigmaExhaustive: every Sigma-string up to a small length as key and as value of every
// text-carrying type through Event, Context, Array, Dict and Fields.
func TestSigmaExhaustive(t *testing.T) {
	maxLen := 2
	if ev.Thorough() {
		maxLen = 3
	}
	sh, nsh := ev.Shard()
	set := lp.DefaultSettings()
	i := 0
	var n int64
	sigmaStrings(maxLen, func(s []byte) {
		i++
		if i%nsh != sh {
			return
		}
		vs := []lp.Val{{T: "str", S: s}, {T: "bytes", S: s}, {T: "anerr", EK: "plain", S: s}, {T: "anerr", EK: "objerr", S: s}, {T: "stringer", S: s}, {T: "iface", If: &lp.Iface{K: "str", S: s}}, {T: "iface", If: &lp.Iface{K: "map", MK: [][]byte{s}, L: []lp.Iface{{K: "str", S: s}}}}}
		var ops, cops []lp.Op
		for _, v := range vs {
			ops = append(ops, lp.Op{K: s, V: v})
			cops = append(cops, lp.Op{K: s, V: v})
		}
		ops = append(ops, lp.Op{K: s, V: lp.Val{T: "arr", L: []lp.Val{{T: "str", S: s}, {T: "bytes", S: s}, {T: "anerr", EK: "plain", S: s}}}},
			lp.Op{K: s, V: lp.Val{T: "dict", Ops: []lp.Op{{K: s, V: lp.Val{T: "str", S: s}}}}},
			lp.Op{V: lp.Val{T: "fieldsmap", Ops: []lp.Op{{K: s, V: lp.Val{T: "str", S: s}}}}},
			lp.Op{V: lp.Val{T: "fieldsslice", Ops: []lp.Op{{K: s, V: lp.Val{T: "bytes", S: s}}, {K: s, V: lp.Val{T: "anerr", EK: "plain", S: s}}, {K: s, V: lp.Val{T: "strs", L: []lp.Val{{S: s}, {S: s}}}}}}},
			lp.Op{K: s, V: lp.Val{T: "strs", L: []lp.Val{{S: s}}}}, lp.Op{K: s, V: lp.Val{T: "errs", L: []lp.Val{{EK: "plain", S: s}}}}, lp.Op{V: lp.Val{T: "err", EK: "plain", S: s}})
		p := lp.P(set, []lp.Step{lp.With(cops...)}, lp.EventSpec{Method: "info", Ops: ops, Fin: "msg", Msg: s})
		p.Set.MessageField = &s
		n++
		if msg := Check(p); msg != "" {
			ev.SaveReplay("C01-sigma", p)
			fmt.Printf("VERIF-FAIL: %s\n", msg)
			t.Fatalf("%s", msg)
		}
	})
	rec.Bulk(n, n-1, "sigma-exhaustive")
	rec.Exhaustive(fmt.Sprintf("all strings over the %d-symbol class alphabet up to length %d (shard %d/%d) as key, message, field name and text value through Event/Context/Array/Dict/Fields/slices", len(lp.Sigma), maxLen, sh, nsh))
}

// FuzzPrograms: native coverage-guided fuzzing of the same property through rapid's
// fuzz adapter (thorough tier only; the saved failing input is the reproducible unit).
func FuzzPrograms(f *testing.F) {
	f.Add([]byte{0})
	f.Add([]byte("seed-corpus: any bytes drive the rapid generators"))
	f.Fuzz(rapid.MakeFuzz(func(rt *rapid.T) {
		cfg := lp.DefaultCfg()
		cfg.Tree = true
		cfg.MaxOps = 4
		g := lp.NewG(rt, cfg)
		p := g.Program(6, 4)
		if msg := Check(p); msg != "" {
			ev.SaveReplay("C01-fuzz", p)
			fmt.Printf("VERIF-FAIL: %s\n", msg)
			rt.Fatalf("%s", msg)
		}
	}))
}
