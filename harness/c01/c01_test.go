// C01 — every emitted event is exactly one well-formed JSON object on one line.
package c01

import (
	"encoding/json"
	"fmt"
	"os"
	"testing"

	"pgregory.net/rapid"
	"verif/harness/ev"
	"verif/harness/jsonref"
	"verif/harness/lp"
)

const rule = "cases = logging programs (settings x derivation chain x events x field ops over every type/entry point) from the rapid generator, plus exhaustive Sigma-strings and empty-shape programs; non-trivial = program contains a byte outside 0x20-0x7e, a non-finite float, a nil/empty container or value, nesting depth>=2, context+hook+event fields together, or a non-default setting; distinct = FNV-64 of the serialised program"

var rec = ev.New("C01", rule)

func TestMain(m *testing.M) {
	code := m.Run()
	rec.Flush()
	os.Exit(code)
}

// Check runs p and validates every write. Returns "" when the property held.
func Check(p *lp.Program) string {
	res := lp.Run(p)
	if res.Panic != nil {
		return fmt.Sprintf("panic while logging: %v", res.Panic)
	}
	for _, ws := range [][]lp.Write{res.Writes, res.Other} {
		for i, w := range ws {
			if _, err := jsonref.ValidateLine(w.Data); err != nil {
				return fmt.Sprintf("write %d is not one well-formed JSON line: %v: %q", i, err, w.Data)
			}
		}
	}
	return ""
}

func record(p *lp.Program) {
	b, _ := json.Marshal(p)
	cl := lp.Classify(p)
	rec.Case(b, cl.NonTrivial(), cl.Labels()...)
	rec.Sample(json.RawMessage(b))
}

func TestRapidPrograms(t *testing.T) {
	rapid.Check(t, func(rt *rapid.T) {
		g := lp.NewG(rt, lp.DefaultCfg())
		p := g.Program(4, 3)
		record(p)
		if msg := Check(p); msg != "" {
			ev.SaveReplay("C01-rapid", p)
			rt.Fatalf("%s", msg)
		}
	})
}

func TestReplay(t *testing.T) {
	f := os.Getenv("VERIF_REPLAY")
	if f == "" {
		t.Skip("no VERIF_REPLAY")
	}
	b, err := os.ReadFile(f)
	if err != nil {
		t.Fatal(err)
	}
	var p lp.Program
	if err := json.Unmarshal(b, &p); err != nil {
		t.Fatal(err)
	}
	rec.Case(b, true, "replay")
	rec.Case(append(b, 1), true, "replay")
	rec.Sample(json.RawMessage(b))
	if msg := Check(&p); msg != "" {
		ev.SaveReplay("C01-replay", &p)
		t.Fatalf("%s", msg)
	}
}
