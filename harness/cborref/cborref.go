// Package cborref is an independent RFC 8949 well-formedness checker and
// generic parser (Appendix-C style). It shares no code with zerolog's
// internal/cbor.
package cborref

import (
	"encoding/binary"
	"fmt"
	"math"
)

type Kind int

const (
	Uint   Kind = iota // major 0: U
	Nint               // major 1: value is -1-U
	Bytes              // major 2
	Text               // major 3
	Array              // major 4
	Map                // major 5 (Items holds k0,v0,k1,v1,...)
	Tag                // major 6: U = tag number, Items[0] = content
	Simple             // major 7: false(20) true(21) null(22) undefined(23) other simple values in U
	Float              // major 7: F16/F32/F64; Bits holds the raw bits, Width 2/4/8
)

type Item struct {
	Kind   Kind
	U      uint64
	B      []byte
	Items  []*Item
	Indef  bool // indefinite-length container / string
	Bits   uint64
	Width  int
	HdrLen int // bytes used by the head (initial byte + argument)
	Pos    int
	End    int
}

type parser struct {
	b     []byte
	pos   int
	depth int
}

func (p *parser) errf(f string, a ...interface{}) error {
	return fmt.Errorf("cbor offset %d: %s", p.pos, fmt.Sprintf(f, a...))
}

// head reads initial byte + argument. ai is the additional information.
func (p *parser) head() (major byte, ai byte, arg uint64, err error) {
	if p.pos >= len(p.b) {
		return 0, 0, 0, p.errf("unexpected end of input (head)")
	}
	ib := p.b[p.pos]
	p.pos++
	major, ai = ib>>5, ib&0x1f
	switch {
	case ai < 24:
		arg = uint64(ai)
	case ai == 24:
		if p.pos+1 > len(p.b) {
			return 0, 0, 0, p.errf("truncated 1-byte argument")
		}
		arg = uint64(p.b[p.pos])
		p.pos++
	case ai == 25:
		if p.pos+2 > len(p.b) {
			return 0, 0, 0, p.errf("truncated 2-byte argument")
		}
		arg = uint64(binary.BigEndian.Uint16(p.b[p.pos:]))
		p.pos += 2
	case ai == 26:
		if p.pos+4 > len(p.b) {
			return 0, 0, 0, p.errf("truncated 4-byte argument")
		}
		arg = uint64(binary.BigEndian.Uint32(p.b[p.pos:]))
		p.pos += 4
	case ai == 27:
		if p.pos+8 > len(p.b) {
			return 0, 0, 0, p.errf("truncated 8-byte argument")
		}
		arg = binary.BigEndian.Uint64(p.b[p.pos:])
		p.pos += 8
	case ai >= 28 && ai <= 30:
		return 0, 0, 0, p.errf("reserved additional information %d", ai)
	case ai == 31:
		// indefinite / break: validity decided by caller
	}
	return
}

var errBreak = fmt.Errorf("break")

// item parses one data item; returns errBreak if a break stop code is found
// (only legal inside indefinite containers; the caller decides).
func (p *parser) item() (*Item, error) {
	if p.depth > 4096 {
		return nil, p.errf("nesting too deep")
	}
	start := p.pos
	major, ai, arg, err := p.head()
	if err != nil {
		return nil, err
	}
	it := &Item{Pos: start, HdrLen: p.pos - start}
	switch major {
	case 0:
		if ai == 31 {
			return nil, p.errf("additional information 31 on major type 0")
		}
		it.Kind, it.U = Uint, arg
	case 1:
		if ai == 31 {
			return nil, p.errf("additional information 31 on major type 1")
		}
		it.Kind, it.U = Nint, arg
	case 2, 3:
		it.Kind = Bytes
		if major == 3 {
			it.Kind = Text
		}
		if ai == 31 {
			it.Indef = true
			for {
				if p.pos >= len(p.b) {
					return nil, p.errf("unterminated indefinite-length string")
				}
				if p.b[p.pos] == 0xff {
					p.pos++
					break
				}
				m2, ai2, n2, err := p.head()
				if err != nil {
					return nil, err
				}
				if m2 != major || ai2 == 31 {
					return nil, p.errf("bad chunk in indefinite-length string")
				}
				if n2 > uint64(len(p.b)-p.pos) {
					return nil, p.errf("string chunk length %d exceeds remaining input", n2)
				}
				it.B = append(it.B, p.b[p.pos:p.pos+int(n2)]...)
				p.pos += int(n2)
			}
		} else {
			if arg > uint64(len(p.b)-p.pos) {
				return nil, p.errf("string length %d exceeds remaining input %d", arg, len(p.b)-p.pos)
			}
			it.B = p.b[p.pos : p.pos+int(arg)]
			p.pos += int(arg)
		}
	case 4, 5:
		it.Kind = Array
		n := arg
		if major == 5 {
			it.Kind = Map
			if ai != 31 {
				if arg > uint64(len(p.b)) {
					return nil, p.errf("map length %d exceeds input", arg)
				}
				n = 2 * arg
			}
		}
		p.depth++
		if ai == 31 {
			it.Indef = true
			for {
				c, err := p.item()
				if err == errBreak {
					break
				}
				if err != nil {
					return nil, err
				}
				it.Items = append(it.Items, c)
			}
			if major == 5 && len(it.Items)%2 != 0 {
				return nil, p.errf("indefinite-length map with odd number of items (%d)", len(it.Items))
			}
		} else {
			if n > uint64(len(p.b)-p.pos) {
				return nil, p.errf("container length %d exceeds remaining input", n)
			}
			for i := uint64(0); i < n; i++ {
				c, err := p.item()
				if err == errBreak {
					return nil, p.errf("break inside definite-length container")
				}
				if err != nil {
					return nil, err
				}
				it.Items = append(it.Items, c)
			}
		}
		p.depth--
	case 6:
		if ai == 31 {
			return nil, p.errf("additional information 31 on tag")
		}
		it.Kind, it.U = Tag, arg
		p.depth++
		c, err := p.item()
		p.depth--
		if err == errBreak {
			return nil, p.errf("break as tag content")
		}
		if err != nil {
			return nil, err
		}
		it.Items = []*Item{c}
	case 7:
		switch {
		case ai == 31:
			return nil, errBreak
		case ai < 24:
			it.Kind, it.U = Simple, arg
		case ai == 24:
			if arg < 32 {
				return nil, p.errf("two-byte simple value %d < 32", arg)
			}
			it.Kind, it.U = Simple, arg
		case ai == 25:
			it.Kind, it.Bits, it.Width = Float, arg, 2
		case ai == 26:
			it.Kind, it.Bits, it.Width = Float, arg, 4
		case ai == 27:
			it.Kind, it.Bits, it.Width = Float, arg, 8
		}
	}
	it.End = p.pos
	return it, nil
}

// ParseOne parses exactly one well-formed data item and returns it with the number of
// bytes consumed.
func ParseOne(b []byte) (*Item, int, error) {
	p := &parser{b: b}
	it, err := p.item()
	if err == errBreak {
		return nil, 0, fmt.Errorf("cbor offset 0: break outside indefinite-length container")
	}
	if err != nil {
		return nil, 0, err
	}
	return it, p.pos, nil
}

// ParseExactly requires that b is exactly one data item with no trailing bytes.
func ParseExactly(b []byte) (*Item, error) {
	it, n, err := ParseOne(b)
	if err != nil {
		return nil, err
	}
	if n != len(b) {
		return nil, fmt.Errorf("cbor: %d trailing bytes after the data item", len(b)-n)
	}
	return it, nil
}

// Float64 returns the float value of a Float item.
func (it *Item) Float64() float64 {
	switch it.Width {
	case 4:
		return float64(math.Float32frombits(uint32(it.Bits)))
	case 8:
		return math.Float64frombits(it.Bits)
	case 2:
		return float64(half(uint16(it.Bits)))
	}
	return math.NaN()
}

func half(h uint16) float32 {
	sign := uint32(h>>15) << 31
	exp := int((h >> 10) & 0x1f)
	man := uint32(h & 0x3ff)
	switch {
	case exp == 0:
		return math.Float32frombits(sign) + float32(math.Ldexp(float64(man), -24))*float32(1-2*int(h>>15))
	case exp == 31:
		return math.Float32frombits(sign | 0x7f800000 | man<<13)
	}
	return math.Float32frombits(sign | uint32(exp+112)<<23 | man<<13)
}

func (it *Item) String() string {
	switch it.Kind {
	case Uint:
		return fmt.Sprintf("%d", it.U)
	case Nint:
		return fmt.Sprintf("-1-%d", it.U)
	case Bytes:
		return fmt.Sprintf("h'%x'", it.B)
	case Text:
		return fmt.Sprintf("%q", it.B)
	case Array, Map:
		s := "["
		if it.Kind == Map {
			s = "{"
		}
		if it.Indef {
			s += "_ "
		}
		for i, c := range it.Items {
			if i > 0 {
				s += ", "
			}
			s += c.String()
		}
		if it.Kind == Map {
			return s + "}"
		}
		return s + "]"
	case Tag:
		return fmt.Sprintf("%d(%s)", it.U, it.Items[0])
	case Simple:
		switch it.U {
		case 20:
			return "false"
		case 21:
			return "true"
		case 22:
			return "null"
		}
		return fmt.Sprintf("simple(%d)", it.U)
	case Float:
		return fmt.Sprintf("float%d(0x%x)", it.Width*8, it.Bits)
	}
	return "?"
}
