//go:build binary_log

// C08 — the binary (CBOR) build, passed through the bundled decoder, yields the same
// event as the JSON build.
package c08

import (
	"bufio"
	"bytes"
	"encoding/hex"
	"encoding/json"
	"errors"
	"fmt"
	"io"
	"math"
	"net"
	"os"
	"os/exec"
	"sort"
	"strconv"
	"strings"
	"testing"
	"time"

	"github.com/rs/zerolog"
	"pgregory.net/rapid"
	"verif/harness/ev"
	"verif/harness/jsonref"
	"verif/harness/lp"
)

const rule = "cases = logging programs of the C01/C02 generator restricted to what the statement names (precision -1; 4/16-byte IPs, 6-byte MACs; whole-second instants anywhere, sub-second instants within +-2^32 s; JSON-side time formats that can express the instant), executed in this binary_log process (CBOR -> bundled decoder -> JSON) and in a co-process built from the same tree without the tag; oracle = same keys in the same order and equal decoded values (integers exactly, floats to the same float, text after unescaping, timestamps within 1us); non-trivial = program contains a value outside [0,2^31) & ASCII (large/negative integer, float, time, escaped bytes, tagged type) or nesting; distinct = FNV-64 of the serialised program"

var rec = ev.New("C08", rule)

type coproc struct {
	cmd *exec.Cmd
	in  io.WriteCloser
	out *bufio.Reader
}

var cp *coproc

func startCoproc() (*coproc, error) {
	path := os.Getenv("VERIF_LPEXEC")
	if path == "" {
		return nil, fmt.Errorf("VERIF_LPEXEC not set")
	}
	c := exec.Command(path)
	in, err := c.StdinPipe()
	if err != nil {
		return nil, err
	}
	out, err := c.StdoutPipe()
	if err != nil {
		return nil, err
	}
	c.Stderr = os.Stderr
	if err := c.Start(); err != nil {
		return nil, err
	}
	return &coproc{c, in, bufio.NewReaderSize(out, 1<<20)}, nil
}

type jsonWrite struct {
	Level int    `json:"level"`
	Data  []byte `json:"data"`
}
type jsonOut struct {
	Dests [][]jsonWrite `json:"dests"`
	Panic string        `json:"panic"`
	Err   string        `json:"err"`
}

func (c *coproc) run(p *lp.Program) (*jsonOut, error) {
	b, _ := json.Marshal(p)
	b = append(b, '\n')
	if _, err := c.in.Write(b); err != nil {
		return nil, err
	}
	line, err := c.out.ReadBytes('\n')
	if err != nil {
		return nil, err
	}
	var o jsonOut
	if err := json.Unmarshal(line, &o); err != nil {
		return nil, err
	}
	return &o, nil
}

func TestMain(m *testing.M) {
	var err error
	cp, err = startCoproc()
	if err != nil {
		fmt.Println("HARNESS-ERROR: cannot start JSON-build co-process:", err)
		os.Exit(2)
	}
	code := m.Run()
	cp.in.Close()
	cp.cmd.Wait()
	rec.Flush()
	os.Exit(code)
}

func fail(t interface{ Fatalf(string, ...interface{}) }, name string, p *lp.Program, msg string) {
	ev.SaveReplay("C08-"+name, p)
	fmt.Printf("VERIF-FAIL: %s\n", msg)
	t.Fatalf("%s", msg)
}

// parseJSONSideTime interprets a JSON-build time value (string in the configured layout or
// unix number) as an instant.
func parseJSONSideTime(n *jsonref.Node, set lp.Settings) (time.Time, bool) {
	f := set.GoTimeFormat()
	switch f {
	case "", "UNIXMS", "UNIXMICRO", "UNIXNANO":
		if n.Kind != jsonref.Num {
			return time.Time{}, false
		}
		v, err := strconv.ParseInt(n.Raw, 10, 64)
		if err != nil {
			return time.Time{}, false
		}
		switch f {
		case "":
			return time.Unix(v, 0), true
		case "UNIXMS":
			return time.Unix(0, 0).Add(time.Duration(v) * time.Millisecond), true
		case "UNIXMICRO":
			return time.Unix(0, 0).Add(time.Duration(v) * time.Microsecond), true
		}
		return time.Unix(0, v), true
	}
	if n.Kind != jsonref.Str {
		return time.Time{}, false
	}
	t, err := time.Parse(f, n.S)
	return t, err == nil
}

func parseDecodedTime(n *jsonref.Node) (time.Time, bool) {
	if n.Kind != jsonref.Str {
		return time.Time{}, false
	}
	t, err := time.Parse(time.RFC3339Nano, n.S)
	return t, err == nil
}

// same compares the JSON-build node a with the decoded-CBOR node b.
func same(a, b *jsonref.Node, set lp.Settings, path string) string {
	timeEq := func() bool {
		ta, ok1 := parseJSONSideTime(a, set)
		tb, ok2 := parseDecodedTime(b)
		if !ok1 || !ok2 {
			return false
		}
		d := ta.Sub(tb)
		return d >= -time.Microsecond && d <= time.Microsecond
	}
	if a.Kind != b.Kind {
		if timeEq() {
			return ""
		}
		return fmt.Sprintf("%s: JSON build has %s, decoded binary has %s", path, a, b)
	}
	switch a.Kind {
	case jsonref.Null:
		return ""
	case jsonref.Bool:
		if a.B != b.B {
			return fmt.Sprintf("%s: %v vs %v", path, a.B, b.B)
		}
	case jsonref.Num:
		if !numSame(a.Raw, b.Raw) {
			return fmt.Sprintf("%s: number %s (JSON build) vs %s (decoded binary)", path, a.Raw, b.Raw)
		}
	case jsonref.Str:
		if a.S != b.S && !timeEq() {
			return fmt.Sprintf("%s: string %q (JSON build) vs %q (decoded binary)", path, a.S, b.S)
		}
	case jsonref.Arr:
		if len(a.A) != len(b.A) {
			return fmt.Sprintf("%s: array length %d vs %d", path, len(a.A), len(b.A))
		}
		for i := range a.A {
			if d := same(a.A[i], b.A[i], set, fmt.Sprintf("%s[%d]", path, i)); d != "" {
				return d
			}
		}
	case jsonref.Obj:
		if len(a.O) != len(b.O) {
			return fmt.Sprintf("%s: %d keys (JSON build) vs %d keys (decoded binary): %s vs %s", path, len(a.O), len(b.O), a, b)
		}
		for i := range a.O {
			if a.O[i].Key != b.O[i].Key {
				return fmt.Sprintf("%s: key %d is %q (JSON build) vs %q (decoded binary)", path, i, a.O[i].Key, b.O[i].Key)
			}
			if d := same(a.O[i].Val, b.O[i].Val, set, path+"."+strconv.Quote(a.O[i].Key)); d != "" {
				return d
			}
		}
	}
	return ""
}

func isInt(s string) bool {
	for i, c := range s {
		if (c < '0' || c > '9') && !(i == 0 && c == '-') {
			return false
		}
	}
	return true
}

func numSame(a, b string) bool {
	if a == b {
		return true
	}
	if isInt(a) && isInt(b) {
		return false
	}
	fa, e1 := strconv.ParseFloat(a, 64)
	fb, e2 := strconv.ParseFloat(b, 64)
	if e1 != nil || e2 != nil {
		return false
	}
	return fa == fb || math.Float32bits(float32(fa)) == math.Float32bits(float32(fb)) && float64(float32(fa)) == fa
}

// Check runs p in both builds and compares.
func Check(p *lp.Program) string {
	jo, err := cp.run(p)
	if err != nil {
		return "HARNESS-ERROR: co-process: " + err.Error()
	}
	if jo.Err != "" {
		return "HARNESS-ERROR: co-process: " + jo.Err
	}
	res := lp.Run(p)
	if res.Panic != nil || jo.Panic != "" {
		return fmt.Sprintf("panic while logging: binary build %v, JSON build %q", res.Panic, jo.Panic)
	}
	if len(res.Dests) != len(jo.Dests) {
		return fmt.Sprintf("destinations: %d (binary) vs %d (JSON)", len(res.Dests), len(jo.Dests))
	}
	for d := range res.Dests {
		// the whole destination stream decoded in one go must equal the events decoded one by one
		var stream, one, whole bytes.Buffer
		for _, w := range res.Dests[d] {
			stream.Write(w.Data)
			if err := zerolog.VerifCbor2JsonManyObjects(bytes.NewReader(w.Data), &one); err != nil {
				return fmt.Sprintf("decoder returned error %v for the logger's own output %q", err, w.Data)
			}
		}
		if err := zerolog.VerifCbor2JsonManyObjects(bytes.NewReader(stream.Bytes()), &whole); err != nil || !bytes.Equal(whole.Bytes(), one.Bytes()) {
			return fmt.Sprintf("destination %d: the %d-byte stream of %d events decodes differently as a whole (err=%v, %d bytes) than event by event (%d bytes)", d, stream.Len(), len(res.Dests[d]), err, whole.Len(), one.Len())
		}
		if len(res.Dests[d]) != len(jo.Dests[d]) {
			return fmt.Sprintf("destination %d: %d events (binary build) vs %d (JSON build)", d, len(res.Dests[d]), len(jo.Dests[d]))
		}
		for i, w := range res.Dests[d] {
			jw := jo.Dests[d][i]
			jn, err := jsonref.ValidateLine(jw.Data)
			if err != nil {
				// an unparseable line is C01's finding when both builds are wrong; when the binary build
				// encodes the event fine, the two builds disagree about it, which is this property's subject
				var bb bytes.Buffer
				if derr := zerolog.VerifCbor2JsonManyObjects(bytes.NewReader(w.Data), &bb); derr == nil {
					if _, berr := jsonref.ValidateLine(bb.Bytes()); berr == nil {
						return fmt.Sprintf("event %d: the JSON build's line is not valid JSON (%v): %q, while the binary build's event decodes to %q", i, err, jw.Data, bb.Bytes())
					}
				}
				continue
			}
			var buf bytes.Buffer
			derr := zerolog.VerifCbor2JsonManyObjects(bytes.NewReader(w.Data), &buf)
			if derr != nil {
				return fmt.Sprintf("event %d: decoder returned error %v for the logger's own output %q", i, derr, w.Data)
			}
			bn, err := jsonref.ValidateLine(buf.Bytes())
			if err != nil {
				return fmt.Sprintf("event %d: decoded binary event is not one valid JSON line: %v: %q (JSON build: %q)", i, err, buf.Bytes(), jw.Data)
			}
			if int(w.Level) != jw.Level {
				return fmt.Sprintf("event %d: level %d vs %d", i, w.Level, jw.Level)
			}
			if dd := same(jn, bn, p.Set, "$"); dd != "" {
				return fmt.Sprintf("event %d: %s; JSON build %q; decoded binary %q", i, dd, jw.Data, buf.Bytes())
			}
		}
	}
	return ""
}

func nontrivial(p *lp.Program) bool {
	c := lp.Classify(p)
	if c.MaxDepth >= 2 || c.NonASCII || c.NonFinite {
		return true
	}
	for t := range c.Types {
		switch t {
		case "str", "bool", "stack", "ctx", "getctx", "caller", "type":
		default:
			return true
		}
	}
	return false
}

func cfg08() lp.Cfg {
	c := lp.DefaultCfg()
	c.C08 = true
	c.Binary = true
	c.NoCaller = true // caller line numbers are not a function of the program (same file in both builds, but keep it deterministic)
	return c
}

func norm(p *lp.Program) {
	p.Set.FloatPrec = -1
}

func check(t interface{ Fatalf(string, ...interface{}) }, name string, p *lp.Program) {
	b, _ := json.Marshal(p)
	rec.Case(b, nontrivial(p), lp.Classify(p).Labels()...)
	rec.Sample(json.RawMessage(b))
	if msg := Check(p); msg != "" {
		fail(t, name, p, msg)
	}
}

func TestRapidPrograms(t *testing.T) {
	rapid.Check(t, func(rt *rapid.T) {
		g := lp.NewG(rt, cfg08())
		p := g.Program(4, 3)
		norm(p)
		check(rt, "rapid", p)
	})
}

func TestRapidTrees(t *testing.T) {
	rapid.Check(t, func(rt *rapid.T) {
		c := cfg08()
		c.Tree = true
		c.MaxOps = 4
		g := lp.NewG(rt, c)
		p := g.Program(6, 4)
		norm(p)
		check(rt, "tree", p)
	})
}

func replayFile(t *testing.T, f string) {
	b, err := os.ReadFile(f)
	if err != nil {
		t.Fatal(err)
	}
	var p lp.Program
	if err := json.Unmarshal(b, &p); err != nil {
		t.Fatal(err)
	}
	rec.Case(b, true, "replay")
	rec.Case(append(b, 1), true, "replay")
	rec.Sample(json.RawMessage(b))
	if msg := Check(&p); msg != "" {
		fail(t, "replay", &p, msg)
	}
}

// TestBoundaryAlignment: every kind of item the encoder emits, placed at every alignment against the
// stream decoder's 4096-byte read buffer (the item's first byte at offsets 4040..4100, i.e. each of
// its bytes on either side of the refill) and followed by more than one buffer of further events:
// the stream decoded as a whole must equal the events decoded one by one.
func TestBoundaryAlignment(t *testing.T) {
	_, ipn4, _ := net.ParseCIDR("10.1.2.0/24")
	_, ipn6, _ := net.ParseCIDR("2001:db8:1:2::/64")
	_, ipnm, _ := net.ParseCIDR("::ffff:10.1.2.0/120")
	tm := time.Date(2024, 2, 3, 4, 5, 6, 789000000, time.UTC)
	kinds := map[string]func(e *zerolog.Event) *zerolog.Event{
		"ipprefix4": func(e *zerolog.Event) *zerolog.Event { return e.IPPrefix("v", *ipn4) },
		"ipprefix6": func(e *zerolog.Event) *zerolog.Event { return e.IPPrefix("v", *ipn6) },
		"ipprefixm": func(e *zerolog.Event) *zerolog.Event { return e.IPPrefix("v", *ipnm) },
		"ip4":       func(e *zerolog.Event) *zerolog.Event { return e.IPAddr("v", net.IPv4(192, 168, 7, 9).To4()) },
		"ip6":       func(e *zerolog.Event) *zerolog.Event { return e.IPAddr("v", net.ParseIP("2001:db8::7")) },
		"mac":       func(e *zerolog.Event) *zerolog.Event { return e.MACAddr("v", net.HardwareAddr{1, 2, 3, 4, 5, 6}) },
		"time":      func(e *zerolog.Event) *zerolog.Event { return e.Time("v", tm) },
		"times":     func(e *zerolog.Event) *zerolog.Event { return e.Times("v", []time.Time{tm, tm.Add(time.Hour)}) },
		"dur":       func(e *zerolog.Event) *zerolog.Event { return e.Dur("v", 1500*time.Microsecond) },
		"float64":   func(e *zerolog.Event) *zerolog.Event { return e.Float64("v", 3.141592653589793) },
		"uint64":    func(e *zerolog.Event) *zerolog.Event { return e.Uint64("v", 1<<63+5) },
		"negint":    func(e *zerolog.Event) *zerolog.Event { return e.Int64("v", -1<<62) },
		"hex":       func(e *zerolog.Event) *zerolog.Event { return e.Hex("v", []byte("0123456789abcdefXYZ")) },
		"bytes":     func(e *zerolog.Event) *zerolog.Event { return e.Bytes("v", []byte("bytes \"q\" \xff tail")) },
		"str":       func(e *zerolog.Event) *zerolog.Event { return e.Str("v", "text with é and \n and \"quotes\"") },
		"rawjson":   func(e *zerolog.Event) *zerolog.Event { return e.RawJSON("v", []byte(`{"a":[1,2,{"b":null}]}`)) },
		"rawcbor": func(e *zerolog.Event) *zerolog.Event {
			return e.RawCBOR("v", []byte{0x83, 1, 2, 0x62, 'h', 'i', 0xf6, 0xfb, 0x40, 9, 0x21, 0xfb, 0x54, 0x44, 0x2d, 0x18})
		},
		"ints": func(e *zerolog.Event) *zerolog.Event {
			return e.Ints("v", []int{1, -2, 300, -70000, int(int64(1) << 40 >> (64 - strconv.IntSize))})
		},
		"strs": func(e *zerolog.Event) *zerolog.Event { return e.Strs("v", []string{"a", "", "ccc", "é"}) },
		"dict": func(e *zerolog.Event) *zerolog.Event {
			return e.Dict("v", zerolog.Dict().Str("a", "b").Int("n", 7).Bool("t", true))
		},
		"interface": func(e *zerolog.Event) *zerolog.Event {
			return e.Interface("v", map[string]interface{}{"k": []int{1, 2}})
		},
		"err":       func(e *zerolog.Event) *zerolog.Event { return e.Err(errors.New("an error text")) },
		"bool+null": func(e *zerolog.Event) *zerolog.Event { return e.Bool("v", true).Interface("n", nil) },
		"float32":   func(e *zerolog.Event) *zerolog.Event { return e.Float32("v", 2.5) },
		"timestamp": func(e *zerolog.Event) *zerolog.Event { return e.Timestamp() },
	}
	emit := func(f func(l zerolog.Logger)) []byte {
		var b bytes.Buffer
		f(zerolog.New(&b))
		return b.Bytes()
	}
	decode := func(in []byte) (string, error) {
		var out bytes.Buffer
		err := zerolog.VerifCbor2JsonManyObjects(bytes.NewReader(in), &out)
		return out.String(), err
	}
	tail := emit(func(l zerolog.Logger) {
		l.Info().Str("filler", strings.Repeat("t", 3000)).Msg("tail 1")
		l.Warn().Str("filler", strings.Repeat("u", 3000)).Msg("tail 2")
	})
	names := make([]string, 0, len(kinds))
	for k := range kinds {
		names = append(names, k)
	}
	sort.Strings(names)
	var n int64
	for _, name := range names {
		ev1 := emit(func(l zerolog.Logger) { kinds[name](l.Info()).Msg("m") })
		// the value item starts a few bytes into the event (after the level field and the key)
		for start := 4040 - len(ev1); start <= 4100; start++ {
			if start < 20 {
				continue
			}
			// a pad event of exactly `start` bytes: {"level":"info","p":"...."} has 20-odd bytes of framing
			probe := emit(func(l zerolog.Logger) { l.Info().Str("p", "").Send() })
			padLen := start - len(probe)
			if padLen > 255 {
				padLen -= 2 // the text-string head grows from 2 to 3 bytes above 255
			} else if padLen > 23 {
				padLen--
			}
			if padLen < 0 {
				continue
			}
			pad := emit(func(l zerolog.Logger) { l.Info().Str("p", strings.Repeat("p", padLen)).Send() })
			stream := append(append(append([]byte{}, pad...), ev1...), tail...)
			a, err1 := decode(pad)
			b, err2 := decode(ev1)
			c, err3 := decode(tail)
			whole, err := decode(stream)
			n++
			rec.Case([]byte(fmt.Sprint("align", name, len(pad))), true, "boundary-alignment", "kind:"+name)
			if err1 != nil || err2 != nil || err3 != nil {
				t.Fatalf("HARNESS-ERROR: the parts do not decode alone: %v %v %v", err1, err2, err3)
			}
			if err != nil || whole != a+b+c {
				rc := map[string]interface{}{"kind": name, "event_offset": len(pad), "stream_hex": hex.EncodeToString(stream)}
				ev.SaveReplay("C08-alignment", rc)
				fmt.Printf("VERIF-FAIL: %s event at stream offset %d (item straddling the 4096-byte read buffer): whole-stream decode err=%v, %d bytes; event by event %d bytes\n", name, len(pad), err, len(whole), len(a+b+c))
				t.Fatalf("%s at offset %d: whole-stream decode differs (err=%v): got %.200q want %.200q", name, len(pad), err, whole[len(a):], b)
			}
		}
	}
	rec.Exhaustive(fmt.Sprintf("%d item kinds x every start offset from 4040-len(event) to 4100 of the stream decoder's input, followed by 6 KiB of further events", len(names)))
}

func TestReplay(t *testing.T) {
	f := os.Getenv("VERIF_REPLAY")
	if f == "" {
		t.Skip("no VERIF_REPLAY")
	}
	replayFile(t, f)
}

func TestRegress(t *testing.T) {
	dir := os.Getenv("VERIF_ROOT") + "/known/regress/C08"
	fs, _ := os.ReadDir(dir)
	for _, e := range fs {
		replayFile(t, dir+"/"+e.Name())
	}
}
