// C04 — the level gate is exact and filtered events are inert.
package c04

import (
	"encoding"
	"bytes"
	"context"
	"encoding/json"
	"errors"
	"fmt"
	"io"
	"net"
	"os"
	"os/exec"
	"reflect"
	"runtime"
	"strings"
	"sync"
	"testing"
	"time"

	"github.com/rs/zerolog"
	"pgregory.net/rapid"
	"verif/harness/ev"
)

const rule = "cases = (logger level, global level, event level) triples: the full 256^3 grid in thorough, 256x256x{-128,-2..8,127} plus random triples in quick, through WithLevel and the named methods, with and without a call-recording sampler; every exported *Event method (found by reflection) on filtered events of nine origins (Nop, level gate, WithLevel(Disabled), Discard, sampler, global level, zero-value Logger with and without a sampler, the Ctx fallback logger) with instrumented arguments and counting replacements for the global clock and marshal functions; Level text round-trips for all 256 levels; Panic/Fatal behaviour in re-executed children. oracle = written iff lvl>=logger && lvl>=global && lvl!=Disabled (and the sampler admits), WriteLevel gets lvl, sampler consulted only when both gates pass, inertness counters stay 0. non-trivial = triples where exactly one gate decides or lvl is NoLevel/Disabled/custom; one per (method, filtered-event origin). distinct by construction (enumeration) or FNV-64"

var rec = ev.New("C04", rule)

func TestMain(m *testing.M) {
	if c := os.Getenv("VERIF_C04_CHILD"); c != "" {
		child(c)
		return
	}
	code := m.Run()
	rec.Flush()
	os.Exit(code)
}

type tripleFail struct {
	Logger, Global, Event int
	Via                   string
	What                  string
}

func failf(t *testing.T, f tripleFail) {
	ev.SaveReplay("C04-grid", f)
	fmt.Printf("VERIF-FAIL: logger=%d global=%d event=%d via %s: %s\n", f.Logger, f.Global, f.Event, f.Via, f.What)
	t.Fatalf("%+v", f)
}

type lw struct {
	n    int
	lvl  zerolog.Level
	data []byte
}

func (w *lw) Write(p []byte) (int, error) {
	w.n++
	w.lvl = -100
	w.data = append(w.data[:0], p...)
	return len(p), nil
}
func (w *lw) WriteLevel(l zerolog.Level, p []byte) (int, error) {
	w.n++
	w.lvl = l
	w.data = append(w.data[:0], p...)
	return len(p), nil
}

type countSampler struct {
	calls int
	admit bool
	last  zerolog.Level
}

func (s *countSampler) Sample(l zerolog.Level) bool { s.calls++; s.last = l; return s.admit }

func want(ll, gl, el int) bool { return el >= ll && el >= gl && el != 7 }

// checkTriple exercises one triple through WithLevel, with a recording sampler.
var wrapNames = []string{"SyncWriter", "MultiLevelWriter", "SyncWriter(MultiLevelWriter)", "MultiLevelWriter(SyncWriter)", "FilteredLevelWriter(min)"}

func wrappedWriters(w *lw) []io.Writer {
	return []io.Writer{
		zerolog.SyncWriter(w),
		zerolog.MultiLevelWriter(w),
		zerolog.SyncWriter(zerolog.MultiLevelWriter(w)),
		zerolog.MultiLevelWriter(zerolog.SyncWriter(w)),
		&zerolog.FilteredLevelWriter{Writer: w, Level: zerolog.Level(-128)},
	}
}

func checkTriple(t *testing.T, w *lw, ll, gl, el int) {
	zerolog.SetGlobalLevel(zerolog.Level(gl))
	base := zerolog.New(w).Level(zerolog.Level(ll))
	// the gate's two inputs read back as set (also through a derived logger)
	if g := zerolog.GlobalLevel(); g != zerolog.Level(gl) {
		failf(t, tripleFail{ll, gl, el, "GlobalLevel", fmt.Sprintf("GlobalLevel() = %d after SetGlobalLevel(%d)", g, gl)})
	}
	if g := base.GetLevel(); g != zerolog.Level(ll) {
		failf(t, tripleFail{ll, gl, el, "GetLevel", fmt.Sprintf("GetLevel() = %d on a logger made with Level(%d)", g, ll)})
	}
	if g := base.With().Str("k", "v").Logger().GetLevel(); g != zerolog.Level(ll) {
		failf(t, tripleFail{ll, gl, el, "GetLevel", fmt.Sprintf("child GetLevel() = %d, parent Level(%d)", g, ll)})
	}
	// no sampler
	w.n = 0
	base.WithLevel(zerolog.Level(el)).Msg("m")
	exp := want(ll, gl, el)
	if (w.n == 1) != exp || w.n > 1 {
		failf(t, tripleFail{ll, gl, el, "WithLevel", fmt.Sprintf("writes=%d, want written=%v", w.n, exp)})
	}
	if exp && w.lvl != zerolog.Level(el) {
		failf(t, tripleFail{ll, gl, el, "WithLevel", fmt.Sprintf("WriteLevel received %d", w.lvl)})
	}
	// the same event through the writer wrappers that stand between a logger and a level-aware
	// destination: WriteLevel still receives exactly the event's level (NoLevel and custom levels included)
	for wi, wrap := range wrappedWriters(w) {
		w.n, w.lvl = 0, -99
		wl := zerolog.New(wrap).Level(zerolog.Level(ll))
		wl.WithLevel(zerolog.Level(el)).Msg("m")
		if (w.n == 1) != exp || w.n > 1 {
			failf(t, tripleFail{ll, gl, el, "WithLevel via " + wrapNames[wi], fmt.Sprintf("writes=%d, want written=%v", w.n, exp)})
		}
		if exp && w.lvl != zerolog.Level(el) {
			failf(t, tripleFail{ll, gl, el, "WithLevel via " + wrapNames[wi], fmt.Sprintf("the destination's WriteLevel received %d (-100 = plain Write was called instead)", w.lvl)})
		}
	}
	// admitting / rejecting sampler
	for _, admit := range [2]bool{true, false} {
		s := &countSampler{admit: admit}
		l := base.Sample(s)
		w.n = 0
		l.WithLevel(zerolog.Level(el)).Msg("m")
		if (w.n == 1) != (exp && admit) {
			failf(t, tripleFail{ll, gl, el, "WithLevel+sampler", fmt.Sprintf("writes=%d with sampler admit=%v, want written=%v", w.n, admit, exp && admit)})
		}
		wantCalls := 0
		if exp {
			wantCalls = 1
		}
		if s.calls != wantCalls {
			failf(t, tripleFail{ll, gl, el, "WithLevel+sampler", fmt.Sprintf("sampler consulted %d times, want %d (events rejected by a level gate must not consume sampler budget)", s.calls, wantCalls)})
		}
		if exp && s.last != zerolog.Level(el) {
			failf(t, tripleFail{ll, gl, el, "WithLevel+sampler", fmt.Sprintf("sampler received level %d", s.last)})
		}
	}
	// the sampling switch: off = the sampler is neither consulted nor obeyed; back on = as before,
	// whatever the global level was when the switch was thrown
	rej := &countSampler{admit: false}
	lr := base.Sample(rej)
	zerolog.DisableSampling(true)
	w.n = 0
	lr.WithLevel(zerolog.Level(el)).Msg("m")
	if (w.n == 1) != exp || rej.calls != 0 {
		zerolog.DisableSampling(false)
		failf(t, tripleFail{ll, gl, el, "DisableSampling(true)", fmt.Sprintf("writes=%d (want written=%v), rejecting sampler consulted %d times (want 0)", w.n, exp, rej.calls)})
	}
	zerolog.DisableSampling(false)
	w.n = 0
	lr.WithLevel(zerolog.Level(el)).Msg("m")
	wantCalls := 0
	if exp {
		wantCalls = 1
	}
	if w.n != 0 || rej.calls != wantCalls {
		failf(t, tripleFail{ll, gl, el, "DisableSampling(false)", fmt.Sprintf("after switching sampling back on: writes=%d (want 0: the sampler rejects), sampler consulted %d times (want %d)", w.n, rej.calls, wantCalls)})
	}
}

func nontrivialTriple(ll, gl, el int) bool {
	a, b := el >= ll, el >= gl
	return a != b || el >= 6 || el < -1
}

func TestLevelGrid(t *testing.T) {
	defer zerolog.SetGlobalLevel(zerolog.TraceLevel)
	w := &lw{}
	sh, nsh := ev.Shard()
	var n, nt int64
	var els []int
	if ev.Thorough() {
		for e := -128; e <= 127; e++ {
			els = append(els, e)
		}
	} else {
		els = []int{-128, -2, -1, 0, 1, 2, 3, 4, 5, 6, 7, 8, 127}
	}
	for ll := -128 + sh; ll <= 127; ll += nsh {
		for gl := -128; gl <= 127; gl++ {
			for _, el := range els {
				checkTriple(t, w, ll, gl, el)
				n++
				if nontrivialTriple(ll, gl, el) {
					nt++
				}
			}
		}
	}
	rec.Bulk(n, nt, "level-grid")
	if ev.Thorough() {
		rec.Exhaustive(fmt.Sprintf("all 256 logger x 256 global x 256 event levels through WithLevel, with none/admitting/rejecting sampler (shard %d/%d)", sh, nsh))
	} else {
		rec.Exhaustive("256 logger x 256 global x 13 event levels {-128,-2..8,127} through WithLevel, with none/admitting/rejecting sampler")
	}
	rec.Sample(map[string]interface{}{"campaign": "level grid", "triples": n, "example": tripleFail{Logger: 7, Global: -1, Event: 8, Via: "WithLevel", What: "custom level above Disabled on a Disabled logger must be written"}})
}

func TestRandomTriples(t *testing.T) {
	defer zerolog.SetGlobalLevel(zerolog.TraceLevel)
	w := &lw{}
	rapid.Check(t, func(rt *rapid.T) {
		ll := rapid.IntRange(-128, 127).Draw(rt, "logger")
		gl := rapid.IntRange(-128, 127).Draw(rt, "global")
		el := rapid.IntRange(-128, 127).Draw(rt, "event")
		rec.Case([]byte(fmt.Sprint(ll, gl, el)), nontrivialTriple(ll, gl, el), "random-triple")
		checkTriple(t, w, ll, gl, el)
	})
}

// named methods: Trace..Error, Log, Err(nil/non-nil), Print family, over the logger x global grid
func TestNamedMethods(t *testing.T) {
	defer zerolog.SetGlobalLevel(zerolog.TraceLevel)
	w := &lw{}
	type nm struct {
		name string
		lvl  int
		f    func(l *zerolog.Logger)
	}
	someErr := errors.New("e")
	ms := []nm{
		{"Trace", -1, func(l *zerolog.Logger) { l.Trace().Msg("m") }},
		{"Debug", 0, func(l *zerolog.Logger) { l.Debug().Msg("m") }},
		{"Info", 1, func(l *zerolog.Logger) { l.Info().Msg("m") }},
		{"Warn", 2, func(l *zerolog.Logger) { l.Warn().Msg("m") }},
		{"Error", 3, func(l *zerolog.Logger) { l.Error().Msg("m") }},
		{"Log", 6, func(l *zerolog.Logger) { l.Log().Msg("m") }},
		{"Err(nil)", 1, func(l *zerolog.Logger) { l.Err(nil).Msg("m") }},
		{"Err(err)", 3, func(l *zerolog.Logger) { l.Err(someErr).Msg("m") }},
		{"Print", 0, func(l *zerolog.Logger) { l.Print("m") }},
		{"Printf", 0, func(l *zerolog.Logger) { l.Printf("%s", "m") }},
		{"Println", 0, func(l *zerolog.Logger) { l.Println("m") }},
		{"Write", 6, func(l *zerolog.Logger) { l.Write([]byte("m\n")) }},
		{"WithLevel(Fatal)", 4, func(l *zerolog.Logger) { l.WithLevel(zerolog.FatalLevel).Msg("m") }},
		{"WithLevel(Panic)", 5, func(l *zerolog.Logger) { l.WithLevel(zerolog.PanicLevel).Msg("m") }},
	}
	var n, nt int64
	for ll := -128; ll <= 127; ll++ {
		for gl := -128; gl <= 127; gl++ {
			zerolog.SetGlobalLevel(zerolog.Level(gl))
			l := zerolog.New(w).Level(zerolog.Level(ll))
			for _, m := range ms {
				w.n = 0
				m.f(&l)
				exp := want(ll, gl, m.lvl)
				n++
				if nontrivialTriple(ll, gl, m.lvl) {
					nt++
				}
				if (w.n == 1) != exp || w.n > 1 {
					failf(t, tripleFail{ll, gl, m.lvl, m.name, fmt.Sprintf("writes=%d, want written=%v", w.n, exp)})
				}
				if exp && w.lvl != zerolog.Level(m.lvl) {
					failf(t, tripleFail{ll, gl, m.lvl, m.name, fmt.Sprintf("WriteLevel received %d", w.lvl)})
				}
			}
		}
	}
	rec.Bulk(n, nt, "named-methods")
	rec.Exhaustive("256 logger x 256 global levels x 14 named entry points (Trace..Error, Log, Err, Print family, Write, WithLevel(Fatal/Panic))")
}

func TestLevelText(t *testing.T) {
	for i := -128; i <= 127; i++ {
		l := zerolog.Level(i)
		s := l.String()
		back, err := zerolog.ParseLevel(s)
		if err != nil || back != l {
			f := tripleFail{Event: i, Via: "ParseLevel(String())", What: fmt.Sprintf("%q parses to %d, err=%v", s, back, err)}
			failf(t, f)
		}
		b, err := l.MarshalText()
		var u zerolog.Level = 99
		if err == nil {
			err = u.UnmarshalText(b)
		}
		if err != nil || u != l {
			failf(t, tripleFail{Event: i, Via: "UnmarshalText(MarshalText())", What: fmt.Sprintf("%q unmarshals to %d, err=%v", b, u, err)})
		}
		// the same through the standard interfaces, the way encoding/json, flag and configuration libraries
		// reach the text form: on a Level value (a struct field passed by value, a map value, boxed in an interface)
		if tm, ok := interface{}(l).(encoding.TextMarshaler); !ok {
			failf(t, tripleFail{Event: i, Via: "encoding.TextMarshaler", What: "a Level value does not implement encoding.TextMarshaler"})
		} else if b2, err2 := tm.MarshalText(); err2 != nil || string(b2) != string(b) {
			failf(t, tripleFail{Event: i, Via: "encoding.TextMarshaler", What: fmt.Sprintf("MarshalText through the interface gives %q, %v; directly %q", b2, err2, b)})
		}
		if _, ok := interface{}(&u).(encoding.TextUnmarshaler); !ok {
			failf(t, tripleFail{Event: i, Via: "encoding.TextUnmarshaler", What: "*Level does not implement encoding.TextUnmarshaler"})
		}
		type holder struct {
			L zerolog.Level            `json:"l"`
			M map[string]zerolog.Level `json:"m"`
			I interface{}              `json:"i"`
		}
		jb, jerr := json.Marshal(holder{L: l, M: map[string]zerolog.Level{"k": l}, I: l})
		var back2 struct {
			L zerolog.Level            `json:"l"`
			M map[string]zerolog.Level `json:"m"`
			I zerolog.Level            `json:"i"`
		}
		back2.L, back2.I = 99, 99
		if jerr == nil {
			jerr = json.Unmarshal(jb, &back2)
		}
		if jerr != nil || back2.L != l || back2.M["k"] != l || back2.I != l {
			failf(t, tripleFail{Event: i, Via: "encoding/json round trip of Level values", What: fmt.Sprintf("%s reads back as %+v, err=%v", jb, back2, jerr)})
		}
		// case-insensitive and upper-case forms of the named levels
		if i >= -1 && i <= 7 && i != 6 {
			if back, err := zerolog.ParseLevel(strings.ToUpper(s)); err != nil || back != l {
				failf(t, tripleFail{Event: i, Via: "ParseLevel(upper)", What: fmt.Sprintf("%q parses to %d, err=%v", strings.ToUpper(s), back, err)})
			}
		}
	}
	// the same round trips under customised level texts (upper/mixed case, non-ASCII) and a
	// customised LevelFieldMarshalFunc
	type vals struct{ t, d, i, w, e, f, p string }
	oldV := vals{zerolog.LevelTraceValue, zerolog.LevelDebugValue, zerolog.LevelInfoValue, zerolog.LevelWarnValue, zerolog.LevelErrorValue, zerolog.LevelFatalValue, zerolog.LevelPanicValue}
	oldF := zerolog.LevelFieldMarshalFunc
	defer func() {
		zerolog.LevelTraceValue, zerolog.LevelDebugValue, zerolog.LevelInfoValue, zerolog.LevelWarnValue, zerolog.LevelErrorValue, zerolog.LevelFatalValue, zerolog.LevelPanicValue = oldV.t, oldV.d, oldV.i, oldV.w, oldV.e, oldV.f, oldV.p
		zerolog.LevelFieldMarshalFunc = oldF
	}()
	customs := []vals{{"TRACE", "DEBUG", "INFO", "WARN", "ERROR", "FATAL", "PANIC"}, {"Trace", "Debug", "Info", "Warning", "Err", "Fatal", "Panic"}, {"spür", "ÄRGER", "Größe", "wärn", "FEHLER", "tödlich", "PÄNIK"}, {"t", "d", "i", "w", "e", "f", "p"},
		// numeric texts that are not the levels' own values (syslog-like severities; all distinct)
		{"8", "7", "6", "4", "3", "2", "1"}, {"-1", "00", "+1", "2 ", "0x3", "4.0", "05"}}
	funcs := map[string]func(zerolog.Level) string{"String": func(l zerolog.Level) string { return l.String() }, "upper": func(l zerolog.Level) string { return strings.ToUpper(l.String()) }, "bracket": func(l zerolog.Level) string { return "[" + l.String() + "]" },
		"padded": func(l zerolog.Level) string { return fmt.Sprintf("%-7s", l.String()) }, "indented": func(l zerolog.Level) string { return "  " + l.String() + "\t" }}
	for ci, cv := range customs {
		zerolog.LevelTraceValue, zerolog.LevelDebugValue, zerolog.LevelInfoValue, zerolog.LevelWarnValue, zerolog.LevelErrorValue, zerolog.LevelFatalValue, zerolog.LevelPanicValue = cv.t, cv.d, cv.i, cv.w, cv.e, cv.f, cv.p
		for fname, fn := range funcs {
			zerolog.LevelFieldMarshalFunc = fn
			for i := -1; i <= 7; i++ {
				l := zerolog.Level(i)
				b, _ := l.MarshalText()
				var u zerolog.Level = 99
				err := u.UnmarshalText(b)
				rec.Case([]byte(fmt.Sprint("custom", ci, fname, i)), true, "level-text-custom")
				if err != nil || u != l {
					failf(t, tripleFail{Event: i, Via: fmt.Sprintf("UnmarshalText(MarshalText()) with level values #%d and LevelFieldMarshalFunc %s", ci, fname), What: fmt.Sprintf("%q unmarshals to %d, err=%v", b, u, err)})
				}
			}
		}
	}
	zerolog.LevelTraceValue, zerolog.LevelDebugValue, zerolog.LevelInfoValue, zerolog.LevelWarnValue, zerolog.LevelErrorValue, zerolog.LevelFatalValue, zerolog.LevelPanicValue = oldV.t, oldV.d, oldV.i, oldV.w, oldV.e, oldV.f, oldV.p
	zerolog.LevelFieldMarshalFunc = oldF
	for _, bad := range []string{"128", "-129", "x", "1e2", " 1", "debugg"} {
		if l, err := zerolog.ParseLevel(bad); err == nil {
			failf(t, tripleFail{Via: "ParseLevel(invalid)", What: fmt.Sprintf("%q accepted as %d", bad, l)})
		}
	}
	rec.Bulk(256, 255, "level-text")
	rec.Exhaustive("all 256 levels through String/ParseLevel and MarshalText/UnmarshalText")
}

// ---------------------------------------------------------------- inertness by reflection

type counters struct{ n int }

// cSampler admits everything and counts being consulted.
type cSampler struct{ c *counters }

func (s cSampler) Sample(zerolog.Level) bool { s.c.n++; return true }

type cStringer struct{ c *counters }

func (s cStringer) String() string { s.c.n++; return "s" }

type cObj struct{ c *counters }

func (o cObj) MarshalZerologObject(e *zerolog.Event) { o.c.n++; e.Str("x", "y") }

type cArr struct{ c *counters }

func (a cArr) MarshalZerologArray(arr *zerolog.Array) { a.c.n++; arr.Str("x") }

type cErr struct{ c *counters }

func (e cErr) Error() string { e.c.n++; return "err" }

type cHook struct{ c *counters }

func (h cHook) Run(e *zerolog.Event, l zerolog.Level, m string) { h.c.n++ }

var (
	tString   = reflect.TypeOf("")
	tError    = reflect.TypeOf((*error)(nil)).Elem()
	tStringer = reflect.TypeOf((*fmt.Stringer)(nil)).Elem()
	tObj      = reflect.TypeOf((*zerolog.LogObjectMarshaler)(nil)).Elem()
	tArr      = reflect.TypeOf((*zerolog.LogArrayMarshaler)(nil)).Elem()
	tIface    = reflect.TypeOf((*interface{})(nil)).Elem()
	tEvent    = reflect.TypeOf((*zerolog.Event)(nil))
	tCtx      = reflect.TypeOf((*context.Context)(nil)).Elem()
	tTime     = reflect.TypeOf(time.Time{})
	tFuncEv   = reflect.TypeOf(func(*zerolog.Event) {})
	tFuncStr  = reflect.TypeOf(func() string { return "" })
)

// argFor builds an instrumented argument of type t. variant selects among alternatives.
func argFor(rt *rapid.T, t reflect.Type, c *counters, variadic bool) []reflect.Value {
	one := func(v interface{}) []reflect.Value { return []reflect.Value{reflect.ValueOf(v)} }
	switch t {
	case tString:
		return one(rapid.SampledFrom([]string{"", "k", "%s %d", "\xff\"", "message"}).Draw(rt, "str"))
	case tError:
		if rapid.Bool().Draw(rt, "nilerr") {
			return []reflect.Value{reflect.Zero(tError)}
		}
		return []reflect.Value{reflect.ValueOf(cErr{c}).Convert(tError)}
	case tStringer:
		return []reflect.Value{reflect.ValueOf(cStringer{c}).Convert(tStringer)}
	case tObj:
		return []reflect.Value{reflect.ValueOf(cObj{c}).Convert(tObj)}
	case tArr:
		if rapid.Bool().Draw(rt, "arrkind") {
			return []reflect.Value{reflect.ValueOf(zerolog.Arr().Str("a")).Convert(tArr)}
		}
		return []reflect.Value{reflect.ValueOf(cArr{c}).Convert(tArr)}
	case tIface:
		v := rapid.SampledFrom([]interface{}{nil, 1, "s", cObj{c}, cStringer{c}, []interface{}{"k", cObj{c}}, map[string]interface{}{"k": cObj{c}, "e": cErr{c}}, cErr{c}}).Draw(rt, "iface")
		if v == nil {
			return []reflect.Value{reflect.Zero(tIface)}
		}
		return []reflect.Value{reflect.ValueOf(v).Convert(tIface)}
	case tEvent:
		return one(zerolog.Dict().Str("a", "b"))
	case tCtx:
		return []reflect.Value{reflect.ValueOf(context.WithValue(context.Background(), "k", "v")).Convert(tCtx)}
	case tTime:
		return one(time.Unix(1, 2))
	case tFuncEv:
		return one(func(e *zerolog.Event) { c.n++; e.Str("in", "func") })
	case tFuncStr:
		return one(func() string { c.n++; return "msg" })
	}
	switch t.Kind() {
	case reflect.Slice:
		if variadic {
			n := rapid.IntRange(0, 2).Draw(rt, "nvar")
			var out []reflect.Value
			for i := 0; i < n; i++ {
				out = append(out, argFor(rt, t.Elem(), c, false)...)
			}
			return out
		}
		n := rapid.IntRange(0, 3).Draw(rt, "nslice")
		if n == 0 && rapid.Bool().Draw(rt, "nilslice") {
			return []reflect.Value{reflect.Zero(t)}
		}
		s := reflect.MakeSlice(t, 0, n)
		for i := 0; i < n; i++ {
			s = reflect.Append(s, argFor(rt, t.Elem(), c, false)[0])
		}
		return []reflect.Value{s}
	case reflect.Int, reflect.Int8, reflect.Int16, reflect.Int32, reflect.Int64:
		v := reflect.New(t).Elem()
		v.SetInt(int64(int8(rapid.IntRange(-100, 100).Draw(rt, "int"))))
		return []reflect.Value{v}
	case reflect.Uint, reflect.Uint8, reflect.Uint16, reflect.Uint32, reflect.Uint64:
		v := reflect.New(t).Elem()
		v.SetUint(uint64(rapid.IntRange(0, 200).Draw(rt, "uint")))
		return []reflect.Value{v}
	case reflect.Float32, reflect.Float64:
		v := reflect.New(t).Elem()
		v.SetFloat(1.5)
		return []reflect.Value{v}
	case reflect.Bool:
		return one(rapid.Bool().Draw(rt, "bool"))
	case reflect.Struct:
		if t == reflect.TypeOf(net.IPNet{}) {
			return one(net.IPNet{IP: net.IP{10, 0, 0, 1}, Mask: net.CIDRMask(8, 32)})
		}
	}
	panic("HARNESS-ERROR: no generator for argument type " + t.String())
}

type inertFail struct {
	Method string
	Origin string
	What   string
}

func filteredEvents(c *counters, w *lw) map[string]func() *zerolog.Event {
	return map[string]func() *zerolog.Event{
		"Nop-logger": func() *zerolog.Event { l := zerolog.Nop().Hook(cHook{c}); return l.Info() },
		"level-gated": func() *zerolog.Event {
			l := zerolog.New(w).Level(zerolog.ErrorLevel).Hook(cHook{c})
			return l.Info()
		},
		"WithLevel(Disabled)": func() *zerolog.Event {
			l := zerolog.New(w).Hook(cHook{c})
			return l.WithLevel(zerolog.Disabled)
		},
		"Discard()": func() *zerolog.Event {
			l := zerolog.New(w).Hook(cHook{c})
			return l.Info().Discard()
		},
		"sampled-out": func() *zerolog.Event {
			l := zerolog.New(w).Sample(&zerolog.BasicSampler{N: 0}).Hook(cHook{c})
			return l.Error()
		},
		"zero-value-logger": func() *zerolog.Event {
			var z zerolog.Logger // no writer: nothing can be written, so nothing may run
			l := z.Hook(cHook{c})
			return l.Warn()
		},
		"zero-value-logger+sampler": func() *zerolog.Event {
			var z zerolog.Logger
			l := z.Sample(cSampler{c}).Hook(cHook{c}) // a sampler that would admit (and counts being asked)
			return l.Error()
		},
		"Ctx-fallback-logger": func() *zerolog.Event {
			l := zerolog.Ctx(context.Background()).Sample(cSampler{c}).Hook(cHook{c})
			return l.Error()
		},
		"global-level": func() *zerolog.Event {
			zerolog.SetGlobalLevel(zerolog.PanicLevel)
			l := zerolog.New(w).Hook(cHook{c})
			e := l.Error()
			zerolog.SetGlobalLevel(zerolog.TraceLevel)
			return e
		},
	}
}

// countGlobals replaces the package-level functions an event may call while it is built (the clock, the error,
// stack, interface and caller marshalers) by counting ones: a filtered event calls none of them.
func countGlobals(c *counters) (restore func()) {
	ts, em, sm, im, cm := zerolog.TimestampFunc, zerolog.ErrorMarshalFunc, zerolog.ErrorStackMarshaler, zerolog.InterfaceMarshalFunc, zerolog.CallerMarshalFunc
	zerolog.TimestampFunc = func() time.Time { c.n++; return ts() }
	zerolog.ErrorMarshalFunc = func(err error) interface{} { c.n++; return em(err) }
	zerolog.ErrorStackMarshaler = func(err error) interface{} { c.n++; return nil }
	zerolog.InterfaceMarshalFunc = func(v interface{}) ([]byte, error) { c.n++; return im(v) }
	zerolog.CallerMarshalFunc = func(pc uintptr, file string, line int) string { c.n++; return cm(pc, file, line) }
	return func() {
		zerolog.TimestampFunc, zerolog.ErrorMarshalFunc, zerolog.ErrorStackMarshaler, zerolog.InterfaceMarshalFunc, zerolog.CallerMarshalFunc = ts, em, sm, im, cm
	}
}

func TestFilteredEventsInert(t *testing.T) {
	et := reflect.TypeOf((*zerolog.Event)(nil))
	origins := []string{"Nop-logger", "level-gated", "WithLevel(Disabled)", "Discard()", "sampled-out", "global-level", "zero-value-logger", "zero-value-logger+sampler", "Ctx-fallback-logger"}
	rec.Class(fmt.Sprintf("event-methods-found:%d", et.NumMethod()), 1)
	rapid.Check(t, func(rt *rapid.T) {
		c := &counters{}
		w := &lw{}
		origin := rapid.SampledFrom(origins).Draw(rt, "origin")
		e := filteredEvents(c, w)[origin]()
		if e != nil {
			ev.SaveReplay("C04-inert", inertFail{"", origin, "filtered event is not nil"})
			rt.Fatalf("origin %s: filtered event is not nil", origin)
		}
		w.n = 0
		// a chain of 1..4 method calls on the filtered event
		n := rapid.IntRange(1, 4).Draw(rt, "chain")
		cur := reflect.ValueOf(e)
		var names []string
		for i := 0; i < n; i++ {
			mi := rapid.IntRange(0, et.NumMethod()-1).Draw(rt, "method")
			m := et.Method(mi)
			names = append(names, m.Name)
			mt := m.Type
			var args []reflect.Value
			for a := 1; a < mt.NumIn(); a++ {
				args = append(args, argFor(rt, mt.In(a), c, mt.IsVariadic() && a == mt.NumIn()-1)...)
			}
			var out []reflect.Value
			var pan interface{}
			func() {
				defer countGlobals(c)()
				defer func() { pan = recover() }()
				out = cur.Method(mi).Call(args)
			}()
			rec.Case([]byte(m.Name+"|"+origin), true, "method:"+m.Name, "origin:"+origin)
			fail := func(what string) {
				f := inertFail{strings.Join(names, "."), origin, what}
				ev.SaveReplay("C04-inert", f)
				fmt.Printf("VERIF-FAIL: %s on a filtered event (%s): %s\n", f.Method, origin, what)
				rt.Fatalf("%+v", f)
			}
			if pan != nil {
				fail(fmt.Sprintf("panicked: %v", pan))
			}
			if c.n != 0 {
				fail(fmt.Sprintf("invoked a callback / marshaler / hook / Stringer / Error (%d calls)", c.n))
			}
			if w.n != 0 {
				fail("invoked the writer")
			}
			switch m.Name {
			case "Enabled":
				if out[0].Bool() {
					fail("Enabled() returned true")
				}
			case "GetCtx":
				if out[0].Interface().(context.Context) != context.Background() {
					fail("GetCtx() did not return the background context")
				}
			default:
				if len(out) == 1 && out[0].Type() == tEvent {
					if !out[0].IsNil() {
						fail("returned a non-nil event")
					}
				}
			}
		}
	})
	rec.Sample(map[string]interface{}{"campaign": "inertness", "methods": et.NumMethod(), "origins": origins, "example": "Nop().Info().Object(k, marshaler).Func(f).MsgFunc(g)"})
}

// every method x every origin at least once, deterministically (not left to chance)
func TestFilteredEventsInertAllMethods(t *testing.T) {
	et := reflect.TypeOf((*zerolog.Event)(nil))
	for mi := 0; mi < et.NumMethod(); mi++ {
		for oi := 0; oi < 9; oi++ {
			mi, oi := mi, oi
			seedT := &testing.T{}
			_ = seedT
			rapid.Check(t, func(rt *rapid.T) {
				// drive the generic property with the method and origin pinned via labels: reuse
				// argFor for arguments only
				c := &counters{}
				w := &lw{}
				origins := []string{"Nop-logger", "level-gated", "WithLevel(Disabled)", "Discard()", "sampled-out", "global-level", "zero-value-logger", "zero-value-logger+sampler", "Ctx-fallback-logger"}
				e := filteredEvents(c, w)[origins[oi]]()
				w.n = 0
				m := et.Method(mi)
				var args []reflect.Value
				for a := 1; a < m.Type.NumIn(); a++ {
					args = append(args, argFor(rt, m.Type.In(a), c, m.Type.IsVariadic() && a == m.Type.NumIn()-1)...)
				}
				var pan interface{}
				var out []reflect.Value
				func() {
					defer countGlobals(c)()
					defer func() { pan = recover() }()
					out = reflect.ValueOf(e).Method(mi).Call(args)
				}()
				bad := ""
				switch {
				case e != nil:
					bad = "filtered event is not nil"
				case pan != nil:
					bad = fmt.Sprintf("panicked: %v", pan)
				case c.n != 0:
					bad = fmt.Sprintf("invoked a callback / marshaler / hook (%d calls)", c.n)
				case w.n != 0:
					bad = "invoked the writer"
				case len(out) == 1 && out[0].Type() == tEvent && !out[0].IsNil():
					bad = "returned a non-nil event"
				}
				if bad != "" {
					f := inertFail{m.Name, origins[oi], bad}
					ev.SaveReplay("C04-inert", f)
					fmt.Printf("VERIF-FAIL: %s on a filtered event (%s): %s\n", f.Method, f.Origin, bad)
					rt.Fatalf("%+v", f)
				}
			})
		}
	}
	rec.Bulk(int64(et.NumMethod()*9), int64(et.NumMethod()*9), "inert-all-methods")
	rec.Exhaustive(fmt.Sprintf("every exported *Event method (%d, by reflection) x 6 filtered-event origins", et.NumMethod()))
}

// ---------------------------------------------------------------- Panic / Fatal

func TestPanicBehaviour(t *testing.T) {
	w := &lw{}
	type pc struct {
		name      string
		f         func()
		wantPanic bool
		wantWrite int
	}
	cases := []pc{
		{"Panic().Msg enabled", func() { l := zerolog.New(w); l.Panic().Msg("boom") }, true, 1},
		{"Panic() level-gated (Disabled logger)", func() { l := zerolog.New(w).Level(zerolog.Disabled); l.Panic().Msg("boom") }, true, 0},
		{"Panic() on Nop logger", func() { l := zerolog.Nop(); l.Panic().Msg("boom") }, true, 0},
		{"Panic() sampled out", func() { l := zerolog.New(w).Sample(&zerolog.BasicSampler{N: 0}); l.Panic().Msg("boom") }, true, 0},
		{"second Panic() rejected by BasicSampler{2}", func() {
			l := zerolog.New(w).Sample(&zerolog.BasicSampler{N: 2})
			func() { defer func() { recover() }(); l.Panic().Msg("first, admitted") }()
			w.n = 0
			l.Panic().Msg("second, rejected: must still panic")
		}, true, 0},
		{"Panic() whose event a hook discards", func() {
			l := zerolog.New(w).Hook(zerolog.HookFunc(func(e *zerolog.Event, _ zerolog.Level, _ string) { e.Discard() }))
			l.Panic().Str("k", "v").Msg("boom")
		}, true, 0},
		{"Panic() whose event a Func callback discards", func() {
			l := zerolog.New(w)
			l.Panic().Func(func(e *zerolog.Event) { e.Discard() }).Msg("boom")
		}, true, 0},
		{"Panic() on the zero-value Logger", func() {
			var z zerolog.Logger // no writer at all: every event is filtered, Panic still panics
			z.Panic().Msg("boom")
		}, true, 0},
		{"Panic() on the logger Ctx returns for a context without one", func() {
			zerolog.Ctx(context.Background()).Panic().Msg("boom") // the shared disabled fallback logger
		}, true, 0},
		{"Panic() on the logger Ctx returns for a nil-valued key lookup (TODO context)", func() {
			l := zerolog.Ctx(context.TODO())
			l.Panic().Str("k", "v").Msg("boom")
		}, true, 0},
		{"Panic() through Ctx with DefaultContextLogger set", func() {
			d := zerolog.New(w)
			zerolog.DefaultContextLogger = &d
			defer func() { zerolog.DefaultContextLogger = nil }()
			zerolog.Ctx(context.Background()).Panic().Msg("boom")
		}, true, 1},
		{"Panic() through Ctx with a disabled DefaultContextLogger", func() {
			d := zerolog.New(w).Level(zerolog.Disabled)
			zerolog.DefaultContextLogger = &d
			defer func() { zerolog.DefaultContextLogger = nil }()
			zerolog.Ctx(context.Background()).Panic().Msg("boom")
		}, true, 0},
		{"Panic() on a disabled logger attached to a context", func() {
			l := zerolog.New(w).Level(zerolog.Disabled)
			zerolog.Ctx(l.WithContext(context.Background())).Panic().Msg("boom")
		}, true, 0},
		{"Panic() on a child of the Ctx fallback logger", func() {
			l := zerolog.Ctx(context.Background()).With().Str("k", "v").Logger()
			l.Panic().Msg("boom")
		}, true, 0},
		{"Panic() under global Disabled", func() {
			zerolog.SetGlobalLevel(zerolog.Disabled)
			defer zerolog.SetGlobalLevel(zerolog.TraceLevel)
			l := zerolog.New(w)
			l.Panic().Msg("boom")
		}, true, 0},
		{"WithLevel(Panic) enabled", func() { l := zerolog.New(w); l.WithLevel(zerolog.PanicLevel).Msg("x") }, false, 1},
		{"WithLevel(Panic) filtered", func() { l := zerolog.New(w).Level(zerolog.Disabled); l.WithLevel(zerolog.PanicLevel).Msg("x") }, false, 0},
		{"WithLevel(Fatal) enabled", func() { l := zerolog.New(w); l.WithLevel(zerolog.FatalLevel).Msg("x") }, false, 1},
		{"WithLevel(Fatal) filtered", func() { l := zerolog.New(w).Level(zerolog.Disabled); l.WithLevel(zerolog.FatalLevel).Msg("x") }, false, 0},
		// history: an enabled, recovered Panic must not arm later events taken from the pool
		{"Info after recovered Panic", func() {
			l := zerolog.New(w)
			func() { defer func() { recover() }(); l.Panic().Msg("first") }()
			w.n = 0
			for i := 0; i < 20; i++ {
				l.Info().Msg("later")
				l.WithLevel(zerolog.PanicLevel).Msg("later")
			}
			w.n = 1
		}, false, 1},
	}
	// every way of finishing x every way a Panic() event can come to nothing (or be written): it panics
	type src struct {
		name  string
		ev    func() *zerolog.Event
		write int
	}
	discardHook := zerolog.HookFunc(func(e *zerolog.Event, _ zerolog.Level, _ string) { e.Discard() })
	srcs := []src{
		{"enabled", func() *zerolog.Event { l := zerolog.New(w); return l.Panic() }, 1},
		{"level-gated", func() *zerolog.Event { l := zerolog.New(w).Level(zerolog.Disabled); return l.Panic() }, 0},
		{"Nop", func() *zerolog.Event { l := zerolog.Nop(); return l.Panic() }, 0},
		{"sampled out", func() *zerolog.Event { l := zerolog.New(w).Sample(&zerolog.BasicSampler{N: 0}); return l.Panic() }, 0},
		{"zero-value Logger", func() *zerolog.Event { var z zerolog.Logger; return z.Panic() }, 0},
		{"Ctx fallback", func() *zerolog.Event { return zerolog.Ctx(context.Background()).Panic() }, 0},
		// (Discard returns nil, so a chain continued from its result is a chain on no event at all: not a
		// case; what counts is the event the program still holds)
		{"discarded by the caller on a kept pointer", func() *zerolog.Event {
			l := zerolog.New(w)
			e := l.Panic().Str("k", "v")
			e.Discard()
			return e
		}, 0},
		{"discarded by the caller, fields added afterwards", func() *zerolog.Event {
			l := zerolog.New(w)
			e := l.Panic()
			e.Discard()
			return e.Str("k", "v").Int("n", 1)
		}, 0},
		{"discarded by a Func callback", func() *zerolog.Event {
			l := zerolog.New(w)
			return l.Panic().Func(func(e *zerolog.Event) { e.Discard() })
		}, 0},
		{"discarded by a hook", func() *zerolog.Event { l := zerolog.New(w).Hook(discardHook); return l.Panic() }, 0},
	}
	fins := []struct {
		name string
		f    func(*zerolog.Event)
	}{
		{"Msg", func(e *zerolog.Event) { e.Msg("boom") }},
		{"Msg empty", func(e *zerolog.Event) { e.Msg("") }},
		{"Msgf", func(e *zerolog.Event) { e.Msgf("boom %d", 1) }},
		{"MsgFunc", func(e *zerolog.Event) { e.MsgFunc(func() string { return "boom" }) }},
		{"Send", func(e *zerolog.Event) { e.Send() }},
	}
	for _, sc := range srcs {
		for _, fn := range fins {
			sc, fn := sc, fn
			cases = append(cases, pc{"Panic() " + sc.name + ", finished with " + fn.name, func() { fn.f(sc.ev()) }, true, sc.write})
		}
	}
	// a Panic() event the logger itself filtered out is no event at all: the call panics there and then,
	// and nothing chained behind it (marshalers, Func and MsgFunc callbacks) ever runs
	pcount := &counters{}
	for _, sc := range srcs[1:6] { // level-gated, Nop, sampled out, zero-value Logger, Ctx fallback
		sc := sc
		cases = append(cases, pc{"Panic() " + sc.name + ", never finished", func() { _ = sc.ev() }, true, 0})
		cases = append(cases, pc{"Panic() " + sc.name + ", with counting marshalers and callbacks behind it", func() {
			defer func() {
				if pcount.n != 0 {
					pcount.n = 0
					w.n = 99 // reported below as a wrong write count
				}
			}()
			sc.ev().Object("o", cObj{pcount}).Stringer("s", cStringer{pcount}).Func(func(*zerolog.Event) { pcount.n++ }).MsgFunc(func() string { pcount.n++; return "boom" })
		}, true, 0})
	}
	cases = append(cases, pc{"Panic() enabled, never finished", func() { l := zerolog.New(w); _ = l.Panic().Str("k", "v") }, false, 0})
	for _, c := range cases {
		w.n = 0
		var pan interface{}
		func() {
			defer func() { pan = recover() }()
			c.f()
		}()
		rec.Case([]byte(c.name), true, "panic-case")
		if (pan != nil) != c.wantPanic || w.n != c.wantWrite {
			f := inertFail{c.name, "", fmt.Sprintf("panicked=%v (want %v), writes=%d (want %d)", pan != nil, c.wantPanic, w.n, c.wantWrite)}
			ev.SaveReplay("C04-panic", f)
			fmt.Printf("VERIF-FAIL: %s: %s\n", c.name, f.What)
			t.Fatalf("%+v", f)
		}
	}
}

// child process body for the Fatal cases
func child(c string) {
	var buf bytes.Buffer
	switch c {
	case "fatal-enabled":
		l := zerolog.New(os.Stdout)
		l.Fatal().Msg("bye")
	case "fatal-filtered":
		l := zerolog.New(os.Stdout).Level(zerolog.Disabled)
		l.Fatal().Msg("bye")
	case "fatal-nop":
		l := zerolog.Nop()
		l.Fatal().Msg("bye")
	case "fatal-sampled":
		l := zerolog.New(os.Stdout).Sample(&zerolog.BasicSampler{N: 0})
		l.Fatal().Msg("bye")
	case "fatal-sampled-second":
		l := zerolog.New(io.Discard).Sample(&zerolog.BasicSampler{N: 2})
		l.Info().Msg("takes the first slot")
		l.Fatal().Msg("rejected by the sampler, must still exit")
	case "fatal-discarded":
		l := zerolog.New(os.Stdout).Hook(zerolog.HookFunc(func(e *zerolog.Event, _ zerolog.Level, _ string) { e.Discard() }))
		l.Fatal().Msg("bye")
	case "fatal-ctx-fallback":
		zerolog.Ctx(context.Background()).Fatal().Msg("bye")
	case "fatal-ctx-default-disabled":
		d := zerolog.New(os.Stdout).Level(zerolog.Disabled)
		zerolog.DefaultContextLogger = &d
		zerolog.Ctx(context.Background()).Fatal().Msg("bye")
	case "fatal-ctx-attached-disabled":
		l := zerolog.New(os.Stdout).Level(zerolog.Disabled)
		zerolog.Ctx(l.WithContext(context.Background())).Fatal().Msg("bye")
	case "fatal-zero":
		var z zerolog.Logger
		z.Fatal().Msg("bye")
	case "fatal-global":
		zerolog.SetGlobalLevel(zerolog.Disabled)
		l := zerolog.New(os.Stdout)
		l.Fatal().Msg("bye")
	case "withlevel-fatal":
		l := zerolog.New(os.Stdout)
		l.WithLevel(zerolog.FatalLevel).Msg("still here")
	case "withlevel-fatal-filtered":
		l := zerolog.New(os.Stdout).Level(zerolog.Disabled)
		l.WithLevel(zerolog.FatalLevel).Msg("still here")
	case "info-after-fatal-pool":
		// nothing armed by earlier events
		l := zerolog.New(&buf)
		for i := 0; i < 10; i++ {
			l.WithLevel(zerolog.FatalLevel).Msg("x")
			l.Info().Msg("y")
		}
	}
	fmt.Println("SURVIVED")
	os.Exit(0)
}

func TestFatalBehaviour(t *testing.T) {
	cases := []struct {
		name     string
		wantExit int
		wantOut  string
	}{
		{"fatal-enabled", 1, `"level":"fatal"`},
		{"fatal-filtered", 1, ""},
		{"fatal-nop", 1, ""},
		{"fatal-sampled", 1, ""},
		{"fatal-sampled-second", 1, ""},
		{"fatal-global", 1, ""},
		{"fatal-zero", 1, ""},
		{"fatal-ctx-fallback", 1, ""},
		{"fatal-ctx-default-disabled", 1, ""},
		{"fatal-ctx-attached-disabled", 1, ""},
		{"fatal-discarded", 1, ""},
		{"withlevel-fatal", 0, "SURVIVED"},
		{"withlevel-fatal-filtered", 0, "SURVIVED"},
		{"info-after-fatal-pool", 0, "SURVIVED"},
	}
	for _, c := range cases {
		cmd := exec.Command(os.Args[0], "-test.run=^$")
		cmd.Env = append(os.Environ(), "VERIF_C04_CHILD="+c.name, "VERIF_EV_OUT=")
		out, err := cmd.CombinedOutput()
		code := 0
		if ee, ok := err.(*exec.ExitError); ok {
			code = ee.ExitCode()
		} else if err != nil {
			t.Fatalf("HARNESS-ERROR: cannot re-execute test binary: %v", err)
		}
		rec.Case([]byte(c.name), true, "fatal-case")
		if code != c.wantExit || !strings.Contains(string(out), c.wantOut) || (c.wantExit == 1 && strings.Contains(string(out), "SURVIVED")) {
			f := inertFail{c.name, "", fmt.Sprintf("exit code %d (want %d), output %q (want it to contain %q)", code, c.wantExit, out, c.wantOut)}
			ev.SaveReplay("C04-fatal", f)
			fmt.Printf("VERIF-FAIL: %s: %s\n", c.name, f.What)
			t.Fatalf("%+v", f)
		}
	}
}

func TestReplay(t *testing.T) {
	f := os.Getenv("VERIF_REPLAY")
	if f == "" {
		t.Skip("no VERIF_REPLAY")
	}
	b, err := os.ReadFile(f)
	if err != nil {
		t.Fatal(err)
	}
	rec.Case(b, true, "replay")
	rec.Case(append(b, 1), true, "replay")
	rec.Sample(string(b))
	var tf tripleFail
	var inf inertFail
	if json.Unmarshal(b, &tf); tf.Via != "" {
		defer zerolog.SetGlobalLevel(zerolog.TraceLevel)
		checkTriple(t, &lw{}, tf.Logger, tf.Global, tf.Event)
		TestNamedMethods(t)
		TestLevelText(t)
		return
	}
	json.Unmarshal(b, &inf)
	TestPanicBehaviour(t)
	TestFatalBehaviour(t)
	TestFilteredEventsInertAllMethods(t)
}

// levelLog records the level of every WriteLevel call.
type levelLog struct {
	lv []zerolog.Level
	n  []int
}

func (w *levelLog) Write(p []byte) (int, error) { return w.WriteLevel(zerolog.Level(-100), p) }
func (w *levelLog) WriteLevel(l zerolog.Level, p []byte) (int, error) {
	w.lv, w.n = append(w.lv, l), append(w.n, len(p))
	return len(p), nil
}

// TestLevelsThroughTriggerWriter: events held back by a TriggerLevelWriter arrive, when released, with
// exactly their own levels, whatever their size (a field of 70000 bytes included).
func TestLevelsThroughTriggerWriter(t *testing.T) {
	for _, big := range []int{0, 10, 300, 65500, 65536, 70000, 140000} {
		w := &levelLog{}
		tw := &zerolog.TriggerLevelWriter{Writer: w, ConditionalLevel: zerolog.DebugLevel, TriggerLevel: zerolog.ErrorLevel}
		l := zerolog.New(tw)
		pad := strings.Repeat("p", big)
		l.Debug().Str("pad", pad).Msg("held 1")
		l.Trace().Msg("held 2")
		l.Info().Msg("passes")
		l.Debug().Str("pad", pad).Str("pad2", pad).Msg("held 3")
		l.Error().Msg("trigger")
		l.Debug().Msg("after")
		l.Log().Msg("no level")
		want := []zerolog.Level{zerolog.InfoLevel, zerolog.DebugLevel, zerolog.TraceLevel, zerolog.DebugLevel, zerolog.ErrorLevel, zerolog.DebugLevel, zerolog.NoLevel}
		rec.Case([]byte(fmt.Sprintf("levels through trigger writer, pad %d", big)), true, "trigger-writer-levels")
		bad := ""
		if len(w.lv) != len(want) {
			bad = fmt.Sprintf("destination received %d events (levels %v), want %d (levels %v)", len(w.lv), w.lv, len(want), want)
		}
		for i := 0; i < len(want) && bad == ""; i++ {
			if w.lv[i] != want[i] {
				bad = fmt.Sprintf("event %d reached the destination with level %d, want %d (levels received: %v)", i, w.lv[i], want[i], w.lv)
			}
		}
		if bad != "" {
			f := inertFail{fmt.Sprintf("TriggerLevelWriter with %d-byte fields", big), "", bad}
			ev.SaveReplay("C04-trigger", f)
			fmt.Printf("VERIF-FAIL: %s: %s\n", f.Method, bad)
			t.Fatalf("%s", bad)
		}
	}
}

// ---------------------------------------------------------------- the gate while the global level moves

type gateRec struct {
	mu  sync.Mutex
	got []string
	bad string
}

func (g *gateRec) Write(p []byte) (int, error) { return g.WriteLevel(zerolog.NoLevel, p) }
func (g *gateRec) WriteLevel(l zerolog.Level, p []byte) (int, error) {
	g.mu.Lock()
	g.got = append(g.got, fmt.Sprintf("%d|%s", l, p))
	g.mu.Unlock()
	return len(p), nil
}

// TestGateUnderConcurrentGlobalChanges: while another goroutine moves the global level up and down,
// a logger's own level still holds: nothing below it is ever written, whatever the global level was
// at any moment, and what is written carries its own level.
func TestGateUnderConcurrentGlobalChanges(t *testing.T) {
	defer zerolog.SetGlobalLevel(zerolog.TraceLevel)
	rapid.Check(t, func(rt *rapid.T) {
		ng := rapid.IntRange(1, 4).Draw(rt, "G")
		n := rapid.IntRange(200, 1500).Draw(rt, "N")
		globals := rapid.SampledFrom([][]zerolog.Level{{-1, 0}, {-1, 1, 0}, {0, 3, -1, 7}, {-1, 2}}).Draw(rt, "globals")
		w := &gateRec{}
		stop := make(chan struct{})
		var tg, wg sync.WaitGroup
		tg.Add(1)
		go func() {
			defer tg.Done()
			for i := 0; ; i++ {
				select {
				case <-stop:
					return
				default:
				}
				zerolog.SetGlobalLevel(globals[i%len(globals)])
				if i%64 == 0 {
					runtime.Gosched()
				}
			}
		}()
		own := []zerolog.Level{zerolog.ErrorLevel, zerolog.WarnLevel, zerolog.InfoLevel, zerolog.DebugLevel}
		for g := 0; g < ng; g++ {
			g := g
			wg.Add(1)
			go func() {
				defer wg.Done()
				ls := make([]zerolog.Logger, len(own))
				for i, lv := range own {
					ls[i] = zerolog.New(w).Level(lv)
				}
				for i := 0; i < n; i++ {
					k := (g + i) % len(own)
					lv := zerolog.Level(i%6 - 1) // trace .. fatal-as-level (WithLevel never exits)
					ls[k].WithLevel(lv).Int("own", int(own[k])).Int("lv", int(lv)).Send()
				}
			}()
		}
		wg.Wait()
		close(stop)
		tg.Wait()
		zerolog.SetGlobalLevel(zerolog.TraceLevel)
		rec.Case([]byte(fmt.Sprintf("gate G=%d N=%d globals=%v", ng, n, globals)), true, "gate-concurrent-global")
		for _, s := range w.got {
			var wl, ownLv, lv int
			var lvlText string
			bar := strings.IndexByte(s, '|')
			fmt.Sscanf(s[:bar], "%d", &wl)
			var m map[string]interface{}
			if err := json.Unmarshal([]byte(s[bar+1:]), &m); err != nil {
				rt.Fatalf("HARNESS-ERROR: %v in %q", err, s)
			}
			ownLv, lv = int(m["own"].(float64)), int(m["lv"].(float64))
			lvlText, _ = m["level"].(string)
			bad := ""
			switch {
			case lv < ownLv:
				bad = fmt.Sprintf("a logger at level %d wrote an event of level %d while the global level was being changed by another goroutine: %s", ownLv, lv, s)
			case wl != lv:
				bad = fmt.Sprintf("WriteLevel received level %d for an event of level %d: %s", wl, lv, s)
			case lvlText != zerolog.Level(lv).String():
				bad = fmt.Sprintf("event of level %d carries level text %q: %s", lv, lvlText, s)
			}
			if bad != "" {
				ev.SaveReplay("C04-gate", inertFail{"gate under concurrent SetGlobalLevel", "", bad})
				fmt.Printf("VERIF-FAIL: %s\n", bad)
				rt.Fatalf("%s", bad)
			}
		}
	})
}
