// lpexec executes logging programs (one JSON document per line on stdin) against the
// zerolog build it was compiled with and prints one JSON result per line. It is the
// JSON-build side of the C08 differential (compiled WITHOUT the binary_log tag).
package main

import (
	"bufio"
	"encoding/json"
	"fmt"
	"os"

	"verif/harness/lp"
)

type outWrite struct {
	Level int    `json:"level"`
	Data  []byte `json:"data"`
}

type out struct {
	Dests [][]outWrite `json:"dests"`
	Panic string       `json:"panic,omitempty"`
	Err   string       `json:"err,omitempty"`
}

func main() {
	in := bufio.NewReaderSize(os.Stdin, 1<<20)
	w := bufio.NewWriter(os.Stdout)
	for {
		line, err := in.ReadBytes('\n')
		if len(line) > 0 {
			var p lp.Program
			var o out
			if e := json.Unmarshal(line, &p); e != nil {
				o.Err = e.Error()
			} else {
				res := lp.Run(&p)
				if res.Panic != nil {
					o.Panic = fmt.Sprint(res.Panic)
				}
				for _, d := range res.Dests {
					ws := []outWrite{}
					for _, x := range d {
						ws = append(ws, outWrite{int(x.Level), x.Data})
					}
					o.Dests = append(o.Dests, ws)
				}
			}
			b, _ := json.Marshal(o)
			w.Write(b)
			w.WriteByte('\n')
			w.Flush()
		}
		if err != nil {
			return
		}
	}
}
