// instrument makes a scratch copy of the zerolog working tree and rewrites the chosen
// packages so that every sync / sync/atomic / go / blocking-receive / buffered-send / time.Sleep operation
// goes through the cooperative scheduler in /verif/sched. Anything it cannot model makes
// it exit 2 rather than guess.
package main

import (
	"bytes"
	"flag"
	"fmt"
	"go/ast"
	"go/format"
	"go/parser"
	"go/token"
	"io"
	"os"
	"path/filepath"
	"strings"
)

const mod = "github.com/rs/zerolog"

func die(f string, a ...interface{}) {
	fmt.Fprintf(os.Stderr, "instrument: "+f+"\n", a...)
	os.Exit(2)
}

func copyTree(src, dst string, skip func(rel string, d os.DirEntry) bool) {
	err := filepath.WalkDir(src, func(p string, d os.DirEntry, err error) error {
		if err != nil {
			return err
		}
		rel, _ := filepath.Rel(src, p)
		if rel == "." {
			return os.MkdirAll(dst, 0o755)
		}
		if skip != nil && skip(rel, d) {
			if d.IsDir() {
				return filepath.SkipDir
			}
			return nil
		}
		if d.IsDir() {
			return os.MkdirAll(filepath.Join(dst, rel), 0o755)
		}
		if !d.Type().IsRegular() {
			return nil
		}
		in, err := os.Open(p)
		if err != nil {
			return err
		}
		defer in.Close()
		out, err := os.Create(filepath.Join(dst, rel))
		if err != nil {
			return err
		}
		defer out.Close()
		_, err = io.Copy(out, in)
		return err
	})
	if err != nil {
		die("copy %s: %v", src, err)
	}
}

type rewriter struct {
	fset      *token.FileSet
	file      string
	needSched bool
	problems  []string
}

func sel(pkg, name string) *ast.SelectorExpr {
	return &ast.SelectorExpr{X: ast.NewIdent(pkg), Sel: ast.NewIdent(name)}
}

func (r *rewriter) expr(e ast.Expr) ast.Expr {
	switch x := e.(type) {
	case *ast.UnaryExpr:
		if x.Op == token.ARROW {
			r.needSched = true
			return &ast.CallExpr{Fun: sel("vsched", "RecvDone"), Args: []ast.Expr{r.expr(x.X)}}
		}
	case *ast.CallExpr:
		if s, ok := x.Fun.(*ast.SelectorExpr); ok {
			if id, ok := s.X.(*ast.Ident); ok && id.Name == "time" && s.Sel.Name == "Sleep" {
				r.needSched = true
				x.Fun = sel("vsched", "Sleep")
			}
			if id, ok := s.X.(*ast.Ident); ok && id.Name == "time" && s.Sel.Name == "After" {
				r.needSched = true
				x.Fun = sel("vsched", "After")
			}
		}
	}
	return e
}

// walk rewrites statements in place.
func (r *rewriter) stmts(list []ast.Stmt) []ast.Stmt {
	var out []ast.Stmt
	for _, s := range list {
		out = append(out, r.stmt(s)...)
	}
	return out
}

func (r *rewriter) block(b *ast.BlockStmt) {
	if b != nil {
		b.List = r.stmts(b.List)
	}
}

func (r *rewriter) exprsIn(n ast.Node) {
	// rewrite receive expressions and time.Sleep calls inside n (not descending into
	// select comm clauses or nested function literals' statements handled separately)
	ast.Inspect(n, func(c ast.Node) bool {
		switch x := c.(type) {
		case *ast.FuncLit:
			r.block(x.Body)
			return false
		case *ast.CallExpr:
			r.expr(x)
			for i := range x.Args {
				x.Args[i] = r.expr(x.Args[i])
			}
		case *ast.AssignStmt:
			for i := range x.Rhs {
				x.Rhs[i] = r.expr(x.Rhs[i])
			}
		case *ast.ReturnStmt:
			for i := range x.Results {
				x.Results[i] = r.expr(x.Results[i])
			}
		case *ast.SendStmt:
			r.problems = append(r.problems, fmt.Sprintf("%s: channel send is not modelled", r.fset.Position(x.Pos())))
		}
		return true
	})
}

func (r *rewriter) stmt(s ast.Stmt) []ast.Stmt {
	switch x := s.(type) {
	case *ast.GoStmt:
		r.needSched = true
		r.exprsIn(x.Call)
		fl := &ast.FuncLit{Type: &ast.FuncType{Params: &ast.FieldList{}}, Body: &ast.BlockStmt{List: []ast.Stmt{&ast.ExprStmt{X: x.Call}}}}
		return []ast.Stmt{&ast.ExprStmt{X: &ast.CallExpr{Fun: sel("vsched", "Go"), Args: []ast.Expr{fl}}}}
	case *ast.SendStmt:
		// a plain (blocking) send statement `ch <- v`: the thread waits, as a scheduler-visible blocked state,
		// until the buffered channel has room, then sends for real (threads run one at a time, so the room is
		// still there):  { c := ch; vsched.SendReady(func() bool { return len(c) < cap(c) }); c <- v }
		r.needSched = true
		r.exprsIn(x.Value)
		c := ast.NewIdent("vschedSendCh")
		room := &ast.FuncLit{Type: &ast.FuncType{Params: &ast.FieldList{}, Results: &ast.FieldList{List: []*ast.Field{{Type: ast.NewIdent("bool")}}}},
			Body: &ast.BlockStmt{List: []ast.Stmt{&ast.ReturnStmt{Results: []ast.Expr{&ast.BinaryExpr{Op: token.LSS,
				X: &ast.CallExpr{Fun: ast.NewIdent("len"), Args: []ast.Expr{c}}, Y: &ast.CallExpr{Fun: ast.NewIdent("cap"), Args: []ast.Expr{c}}}}}}}}
		return []ast.Stmt{&ast.BlockStmt{List: []ast.Stmt{
			&ast.AssignStmt{Lhs: []ast.Expr{c}, Tok: token.DEFINE, Rhs: []ast.Expr{x.Chan}},
			&ast.ExprStmt{X: &ast.CallExpr{Fun: sel("vsched", "SendReady"), Args: []ast.Expr{room, &ast.CallExpr{Fun: ast.NewIdent("cap"), Args: []ast.Expr{c}}}}},
			&ast.SendStmt{Chan: c, Value: x.Value},
		}}}
	case *ast.ExprStmt:
		x.X = r.expr(x.X)
		r.exprsIn(x)
		return []ast.Stmt{x}
	case *ast.BlockStmt:
		r.block(x)
		return []ast.Stmt{x}
	case *ast.IfStmt:
		if x.Init != nil {
			x.Init = r.stmt(x.Init)[0]
		}
		r.exprsIn(x.Cond)
		r.block(x.Body)
		if x.Else != nil {
			x.Else = r.stmt(x.Else)[0]
		}
		return []ast.Stmt{x}
	case *ast.ForStmt:
		if x.Cond != nil {
			r.exprsIn(x.Cond)
		}
		r.block(x.Body)
		return []ast.Stmt{x}
	case *ast.RangeStmt:
		r.block(x.Body)
		return []ast.Stmt{x}
	case *ast.SwitchStmt:
		r.block(x.Body)
		return []ast.Stmt{x}
	case *ast.TypeSwitchStmt:
		r.block(x.Body)
		return []ast.Stmt{x}
	case *ast.CaseClause:
		x.Body = r.stmts(x.Body)
		return []ast.Stmt{x}
	case *ast.SelectStmt:
		hasDefault := false
		for _, c := range x.Body.List {
			cc := c.(*ast.CommClause)
			if cc.Comm == nil {
				hasDefault = true
			}
			cc.Body = r.stmts(cc.Body)
		}
		if !hasDefault {
			// blocking select: supported when every case is a plain receive `case <-ch:`
			var chans []ast.Expr
			sw := &ast.SwitchStmt{Body: &ast.BlockStmt{}}
			for i, c := range x.Body.List {
				cc := c.(*ast.CommClause)
				es, ok := cc.Comm.(*ast.ExprStmt)
				var ue *ast.UnaryExpr
				if ok {
					ue, ok = es.X.(*ast.UnaryExpr)
				}
				if !ok || ue.Op != token.ARROW {
					r.problems = append(r.problems, fmt.Sprintf("%s: blocking select with a case that is not a plain receive is not modelled", r.fset.Position(x.Pos())))
					return []ast.Stmt{x}
				}
				r.exprsIn(ue.X)
				chans = append(chans, r.expr(ue.X))
				sw.Body.List = append(sw.Body.List, &ast.CaseClause{List: []ast.Expr{&ast.BasicLit{Kind: token.INT, Value: fmt.Sprint(i)}}, Body: cc.Body})
			}
			r.needSched = true
			sw.Tag = &ast.CallExpr{Fun: sel("vsched", "Select"), Args: chans}
			return []ast.Stmt{sw}
		}
		r.needSched = true
		y := &ast.ExprStmt{X: &ast.CallExpr{Fun: sel("vsched", "Yield"), Args: []ast.Expr{&ast.BasicLit{Kind: token.STRING, Value: `"select"`}}}}
		return []ast.Stmt{y, x}
	case *ast.LabeledStmt:
		x.Stmt = r.stmt(x.Stmt)[0]
		return []ast.Stmt{x}
	case *ast.DeferStmt:
		r.exprsIn(x.Call)
		return []ast.Stmt{x}
	default:
		r.exprsIn(s)
		return []ast.Stmt{s}
	}
}

func rewriteFile(path string) []string {
	fset := token.NewFileSet()
	f, err := parser.ParseFile(fset, path, nil, parser.ParseComments)
	if err != nil {
		die("parse %s: %v", path, err)
	}
	r := &rewriter{fset: fset, file: path}
	usesSync := false
	for _, im := range f.Imports {
		switch im.Path.Value {
		case `"sync"`:
			im.Path.Value = `"` + mod + `/vsched/vsync"`
			im.Name = ast.NewIdent("sync")
			usesSync = true
		case `"sync/atomic"`:
			im.Path.Value = `"` + mod + `/vsched/vatomic"`
			im.Name = ast.NewIdent("atomic")
			usesSync = true
		}
	}
	_ = usesSync
	for _, d := range f.Decls {
		if fd, ok := d.(*ast.FuncDecl); ok && fd.Body != nil {
			r.block(fd.Body)
		}
		if gd, ok := d.(*ast.GenDecl); ok {
			r.exprsIn(gd)
		}
	}
	if r.needSched {
		spec := &ast.ImportSpec{Path: &ast.BasicLit{Kind: token.STRING, Value: `"` + mod + `/vsched"`}}
		added := false
		for _, d := range f.Decls {
			if gd, ok := d.(*ast.GenDecl); ok && gd.Tok == token.IMPORT {
				gd.Specs = append(gd.Specs, spec)
				if !gd.Lparen.IsValid() {
					gd.Lparen = gd.Pos()
				}
				added = true
				break
			}
		}
		if !added {
			f.Decls = append([]ast.Decl{&ast.GenDecl{Tok: token.IMPORT, Specs: []ast.Spec{spec}}}, f.Decls...)
		}
	}
	var buf bytes.Buffer
	if err := format.Node(&buf, fset, f); err != nil {
		die("print %s: %v", path, err)
	}
	src := buf.String()
	// drop a now-unused "time" import only if the identifier is no longer referenced
	if strings.Contains(src, `"time"`) && !strings.Contains(strings.Replace(src, `"time"`, "", 1), "time.") {
		src = strings.Replace(src, "\t\"time\"\n", "", 1)
	}
	if err := os.WriteFile(path, []byte(src), 0o644); err != nil {
		die("write %s: %v", path, err)
	}
	return r.problems
}

func main() {
	repo := flag.String("repo", "/repo", "zerolog working tree")
	out := flag.String("out", "", "scratch directory to create")
	sched := flag.String("sched", "/verif/sched", "directory holding vsched, vsync, vatomic and the check packages")
	evdir := flag.String("ev", "/verif/harness/ev", "evidence helper package to copy")
	pkgs := flag.String("pkgs", ".,diode,diode/internal/diodes", "comma-separated package directories to rewrite")
	flag.Parse()
	if *out == "" {
		die("-out required")
	}
	copyTree(*repo, *out, func(rel string, d os.DirEntry) bool {
		return rel == ".git" || rel == "cmd" || strings.HasSuffix(rel, "_test.go") || rel == "vsched"
	})
	for _, sub := range []string{"vsched", "vsync", "vatomic"} {
		dst := filepath.Join(*out, "vsched")
		if sub != "vsched" {
			dst = filepath.Join(*out, "vsched", sub)
		}
		copyTree(filepath.Join(*sched, sub), dst, nil)
	}
	copyTree(*evdir, filepath.Join(*out, "vsched", "ev"), nil)
	// check packages (tests that drive the instrumented code)
	entries, _ := os.ReadDir(*sched)
	for _, e := range entries {
		if e.IsDir() && strings.HasSuffix(e.Name(), "check") {
			copyTree(filepath.Join(*sched, e.Name()), filepath.Join(*out, "vsched", e.Name()), nil)
		}
	}
	var problems []string
	n := 0
	for _, p := range strings.Split(*pkgs, ",") {
		dir := filepath.Join(*out, p)
		files, err := filepath.Glob(filepath.Join(dir, "*.go"))
		if err != nil || len(files) == 0 {
			die("no go files in %s", dir)
		}
		for _, f := range files {
			problems = append(problems, rewriteFile(f)...)
			n++
		}
	}
	if len(problems) > 0 {
		die("constructs that cannot be modelled:\n  %s", strings.Join(problems, "\n  "))
	}
	// go.mod: add rapid; go.sum from the harness module
	gm, err := os.ReadFile(filepath.Join(*out, "go.mod"))
	if err != nil {
		die("go.mod: %v", err)
	}
	gm = append(gm, []byte("\nrequire pgregory.net/rapid v1.3.0\n")...)
	gm = bytes.Replace(gm, []byte("\ngo 1.15\n"), []byte("\ngo 1.21\n"), 1)
	os.WriteFile(filepath.Join(*out, "go.mod"), gm, 0o644)
	if hs, err := os.ReadFile(filepath.Join(filepath.Dir(*evdir), "go.sum")); err == nil {
		f, _ := os.OpenFile(filepath.Join(*out, "go.sum"), os.O_APPEND|os.O_WRONLY, 0o644)
		f.Write(hs)
		f.Close()
	}
	fmt.Printf("instrumented %d files in %s\n", n, *out)
}
