// Code generated here once (40 wrapper functions, one per line, between the recursive wrapper w and the
// call sites): frames near a call site are distinguishable by file:line, so a caller that is off by a
// few frames cannot pass for the right one. DO NOT EDIT.
package c19

import (
	stdlog "log"

	"github.com/rs/zerolog"
)

//go:noinline
func ch00(id int, l *zerolog.Logger, stdl *stdlog.Logger, j int) { site(id, l, stdl, j) }

//go:noinline
func ch01(id int, l *zerolog.Logger, stdl *stdlog.Logger, j int) { ch00(id, l, stdl, j) }

//go:noinline
func ch02(id int, l *zerolog.Logger, stdl *stdlog.Logger, j int) { ch01(id, l, stdl, j) }

//go:noinline
func ch03(id int, l *zerolog.Logger, stdl *stdlog.Logger, j int) { ch02(id, l, stdl, j) }

//go:noinline
func ch04(id int, l *zerolog.Logger, stdl *stdlog.Logger, j int) { ch03(id, l, stdl, j) }

//go:noinline
func ch05(id int, l *zerolog.Logger, stdl *stdlog.Logger, j int) { ch04(id, l, stdl, j) }

//go:noinline
func ch06(id int, l *zerolog.Logger, stdl *stdlog.Logger, j int) { ch05(id, l, stdl, j) }

//go:noinline
func ch07(id int, l *zerolog.Logger, stdl *stdlog.Logger, j int) { ch06(id, l, stdl, j) }

//go:noinline
func ch08(id int, l *zerolog.Logger, stdl *stdlog.Logger, j int) { ch07(id, l, stdl, j) }

//go:noinline
func ch09(id int, l *zerolog.Logger, stdl *stdlog.Logger, j int) { ch08(id, l, stdl, j) }

//go:noinline
func ch10(id int, l *zerolog.Logger, stdl *stdlog.Logger, j int) { ch09(id, l, stdl, j) }

//go:noinline
func ch11(id int, l *zerolog.Logger, stdl *stdlog.Logger, j int) { ch10(id, l, stdl, j) }

//go:noinline
func ch12(id int, l *zerolog.Logger, stdl *stdlog.Logger, j int) { ch11(id, l, stdl, j) }

//go:noinline
func ch13(id int, l *zerolog.Logger, stdl *stdlog.Logger, j int) { ch12(id, l, stdl, j) }

//go:noinline
func ch14(id int, l *zerolog.Logger, stdl *stdlog.Logger, j int) { ch13(id, l, stdl, j) }

//go:noinline
func ch15(id int, l *zerolog.Logger, stdl *stdlog.Logger, j int) { ch14(id, l, stdl, j) }

//go:noinline
func ch16(id int, l *zerolog.Logger, stdl *stdlog.Logger, j int) { ch15(id, l, stdl, j) }

//go:noinline
func ch17(id int, l *zerolog.Logger, stdl *stdlog.Logger, j int) { ch16(id, l, stdl, j) }

//go:noinline
func ch18(id int, l *zerolog.Logger, stdl *stdlog.Logger, j int) { ch17(id, l, stdl, j) }

//go:noinline
func ch19(id int, l *zerolog.Logger, stdl *stdlog.Logger, j int) { ch18(id, l, stdl, j) }

//go:noinline
func ch20(id int, l *zerolog.Logger, stdl *stdlog.Logger, j int) { ch19(id, l, stdl, j) }

//go:noinline
func ch21(id int, l *zerolog.Logger, stdl *stdlog.Logger, j int) { ch20(id, l, stdl, j) }

//go:noinline
func ch22(id int, l *zerolog.Logger, stdl *stdlog.Logger, j int) { ch21(id, l, stdl, j) }

//go:noinline
func ch23(id int, l *zerolog.Logger, stdl *stdlog.Logger, j int) { ch22(id, l, stdl, j) }

//go:noinline
func ch24(id int, l *zerolog.Logger, stdl *stdlog.Logger, j int) { ch23(id, l, stdl, j) }

//go:noinline
func ch25(id int, l *zerolog.Logger, stdl *stdlog.Logger, j int) { ch24(id, l, stdl, j) }

//go:noinline
func ch26(id int, l *zerolog.Logger, stdl *stdlog.Logger, j int) { ch25(id, l, stdl, j) }

//go:noinline
func ch27(id int, l *zerolog.Logger, stdl *stdlog.Logger, j int) { ch26(id, l, stdl, j) }

//go:noinline
func ch28(id int, l *zerolog.Logger, stdl *stdlog.Logger, j int) { ch27(id, l, stdl, j) }

//go:noinline
func ch29(id int, l *zerolog.Logger, stdl *stdlog.Logger, j int) { ch28(id, l, stdl, j) }

//go:noinline
func ch30(id int, l *zerolog.Logger, stdl *stdlog.Logger, j int) { ch29(id, l, stdl, j) }

//go:noinline
func ch31(id int, l *zerolog.Logger, stdl *stdlog.Logger, j int) { ch30(id, l, stdl, j) }

//go:noinline
func ch32(id int, l *zerolog.Logger, stdl *stdlog.Logger, j int) { ch31(id, l, stdl, j) }

//go:noinline
func ch33(id int, l *zerolog.Logger, stdl *stdlog.Logger, j int) { ch32(id, l, stdl, j) }

//go:noinline
func ch34(id int, l *zerolog.Logger, stdl *stdlog.Logger, j int) { ch33(id, l, stdl, j) }

//go:noinline
func ch35(id int, l *zerolog.Logger, stdl *stdlog.Logger, j int) { ch34(id, l, stdl, j) }

//go:noinline
func ch36(id int, l *zerolog.Logger, stdl *stdlog.Logger, j int) { ch35(id, l, stdl, j) }

//go:noinline
func ch37(id int, l *zerolog.Logger, stdl *stdlog.Logger, j int) { ch36(id, l, stdl, j) }

//go:noinline
func ch38(id int, l *zerolog.Logger, stdl *stdlog.Logger, j int) { ch37(id, l, stdl, j) }

//go:noinline
func ch39(id int, l *zerolog.Logger, stdl *stdlog.Logger, j int) { ch38(id, l, stdl, j) }

// chainDepth is the number of distinct wrapper frames above every call site.
const chainDepth = 40
