// Package log is an application-side logging helper that happens to be named like the standard
// library's: it calls zerolog.Logger.Write directly (the "direct Logger.Write call" of C19), from
// wrappers of any depth. The frames above the Write statement are recorded by here().
package log

import (
	"runtime"
	"strconv"

	"github.com/rs/zerolog"
)

// Marked holds file:line of the Write statement and of the frames above it, innermost first.
var Marked []string

//go:noinline
func here() []byte {
	var pcs [32]uintptr
	n := runtime.Callers(2, pcs[:])
	fr := runtime.CallersFrames(pcs[:n])
	Marked = Marked[:0]
	for {
		f, more := fr.Next()
		Marked = append(Marked, f.File+":"+strconv.Itoa(f.Line))
		if !more {
			break
		}
	}
	return []byte("a line\n")
}

// WriteDirect hands one line to l.Write.
//
//go:noinline
func WriteDirect(l *zerolog.Logger) { l.Write(here()) }

// WriteWrapped calls WriteDirect through depth more frames of this package.
//
//go:noinline
func WriteWrapped(l *zerolog.Logger, depth int) {
	if depth == 0 {
		WriteDirect(l)
		return
	}
	WriteWrapped(l, depth-1)
}
