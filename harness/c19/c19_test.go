// C19 — the caller field names the user's call site.
package c19

import (
	"bytes"
	"encoding/json"
	"errors"
	"fmt"
	"io"
	stdlog "log"
	"os"
	"path/filepath"
	"runtime"
	"strconv"
	"strings"
	"testing"

	"github.com/rs/zerolog"
	zlog "github.com/rs/zerolog/log"
	"pgregory.net/rapid"
	applog "verif/harness/c19/log"
	"verif/harness/ev"
	"verif/harness/jsonref"
)

//go:generate python3 gen_sites.py

const rule = "cases = (call site x caller mechanism x skip j x wrapper depth x other hooks): call sites are generated one per source line (17 entry points x 6 finalizers x {Event.Caller(), Caller(j), CallerSkipFrame(j)+Caller(), with fields} and x {Context.Caller, +CallerSkipFrame(j)}; Print/Printf/Println/Write on a Logger, package log, std log through Logger.Write; Logger.Write called from wrappers inside a package that is itself named log); context mechanisms: Context.Caller, CallerWithSkipFrameCount(2+j), global CallerSkipFrameCount=2+j; the whole product is enumerated, plus rapid sequences on shared loggers. oracle = runtime.Callers captured by mark() on the same source line, frame j. non-trivial = j>=1, a Print/Write entry point, or >=2 hooks; distinct = (site, mechanism, j, depth, hooks)"

var rec = ev.New("C19", rule)

// a line longer than any buffer or limit one is likely to meet (64 KiB), for the Write and Print call sites
var bigText = strings.Repeat("b", 70000)
var bigLine = []byte(bigText + "\n")

func TestMain(m *testing.M) {
	code := m.Run()
	rec.Flush()
	os.Exit(code)
}

var errSome = errors.New("some")

func msgFn() string { return "m" }

var marked []string // file:line of the frames above the most recent mark(), innermost first

//go:noinline
func mark() { markN(3) }

//go:noinline
func markN(skip int) {
	var pcs [512]uintptr
	n := runtime.Callers(skip, pcs[:])
	fr := runtime.CallersFrames(pcs[:n])
	marked = marked[:0]
	for {
		f, more := fr.Next()
		marked = append(marked, f.File+":"+strconv.Itoa(f.Line))
		if !more {
			break
		}
	}
}

// lg marks the call site (its caller's line) and returns l; mk does the same and returns s.
//
//go:noinline
func lg(l *zerolog.Logger) *zerolog.Logger { markN(3); return l }

//go:noinline
func lgE(e *zerolog.Event) *zerolog.Event { markN(3); return e }

//go:noinline
func mk(s string) string { markN(3); return s }

// w calls site through depth extra frames.
//
//go:noinline
func w(depth, id int, l *zerolog.Logger, stdl *stdlog.Logger, j int) {
	if depth == 0 {
		ch39(id, l, stdl, j) // 40 distinct frames, then the call site
		return
	}
	w(depth-1, id, l, stdl, j)
}

type Case struct {
	Site  int    `json:"site"`
	Name  string `json:"name"`
	Mech  string `json:"mech"` // event | ctx | ctxcount | global
	J     int    `json:"j"`
	Depth int    `json:"depth"`
	Hooks string `json:"hooks"` // none | before | after | both
	// Marshal: the program's CallerMarshalFunc while this event is logged ("" the default file:line,
	// "base" base name and line, "tag" a prefixed form): set at run time, so the same call site is
	// rendered by different functions in the course of one process
	Marshal string `json:"caller_marshal,omitempty"`
	// PanicBefore: immediately before, another logger's hook panicked and the program recovered (a
	// misbehaving plug-in): later events are not affected
	PanicBefore bool `json:"hook_panicked_before,omitempty"`
}

type panicHook struct{}

func (panicHook) Run(e *zerolog.Event, l zerolog.Level, m string) {
	panic("hook of another logger gives up")
}

// renderCaller is what the CallerMarshalFunc of kind renders for a frame given as file:line.
func renderCaller(kind, fileLine string) string {
	i := strings.LastIndexByte(fileLine, ':')
	if i < 0 {
		return fileLine
	}
	file, line := fileLine[:i], fileLine[i+1:]
	switch kind {
	case "base":
		return filepath.Base(file) + "#" + line
	case "tag":
		return "at " + line + " of " + file
	}
	return fileLine
}

type rw struct{ last []byte }

func (r *rw) Write(p []byte) (int, error) { r.last = append(r.last[:0], p...); return len(p), nil }

type addHook struct{ k string }

func (h addHook) Run(e *zerolog.Event, l zerolog.Level, m string) { e.Str(h.k, "v") }

// buildLogger returns the logger for the case and the skip the site should see.
func buildLogger(c *Case, out *rw) zerolog.Logger {
	l := zerolog.New(out)
	if c.Hooks == "before" || c.Hooks == "both" {
		l = l.Hook(addHook{"hb"})
	}
	switch c.Mech {
	case "ctx", "global":
		if sites[c.Site].Kind == "context" {
			l = l.With().Caller().Logger()
		}
	case "ctxcount":
		l = l.With().CallerWithSkipFrameCount(2 + c.J).Logger()
	case "ctxcount=global":
		// the explicit count happens to equal the global when the logger is built; the global moves afterwards
		zerolog.CallerSkipFrameCount = 2 + c.J
		l = l.With().CallerWithSkipFrameCount(2 + c.J).Logger()
	case "ctx2":
		l = l.With().Caller().Caller().Logger()
	case "event+ctx":
		l = l.With().Caller().Logger()
	}
	if c.Hooks == "after" || c.Hooks == "both" {
		l = l.Hook(addHook{"ha"}, addHook{"ha2"})
	}
	return l
}

// run executes the case and returns "" or a failure description.
func run(c *Case, shared *zerolog.Logger, out *rw) string {
	si := sites[c.Site]
	oldGlobal := zerolog.CallerSkipFrameCount
	l := shared
	if l == nil {
		lg := buildLogger(c, out)
		l = &lg
	}
	oldPkg := zlog.Logger
	oldMarshal := zerolog.CallerMarshalFunc
	defer func() {
		zerolog.CallerSkipFrameCount, zlog.Logger, zerolog.CallerMarshalFunc = oldGlobal, oldPkg, oldMarshal
	}()
	if kind := c.Marshal; kind != "" {
		zerolog.CallerMarshalFunc = func(pc uintptr, file string, line int) string {
			return renderCaller(kind, file+":"+strconv.Itoa(line))
		}
	}
	zlog.Logger = *l
	stdl := stdlog.New(*l, "", 0)
	j := c.J
	want := 0   // which frame above the site is expected
	want2 := -1 // expected frame of a second caller field, if any
	switch c.Mech {
	case "event", "ctx":
		if si.UsesJ {
			want = j
		}
	case "ctx2":
		if si.UsesJ {
			want = j
		}
		want2 = want
	case "event+ctx":
		// Event.Caller adds the first field, the logger's caller hook the second
		if si.UsesJ {
			want = j
		}
		want2 = 0
		if strings.Contains(si.Name, "EvSkipCaller") {
			want2 = j // CallerSkipFrame(j) applies to every later Caller of the event
		}
	case "ctxcount":
		// the per-logger count replaces the default 2: the hook reports j frames up, plus any
		// CallerSkipFrame(j) the site itself adds
		want = j
		if si.UsesJ {
			want = 2 * j
		}
	case "ctxcount=global":
		zerolog.CallerSkipFrameCount = 2 + j + 1 // moved after the logger was built: the logger's own count stays
		want = j
		if si.UsesJ {
			want = 2 * j
		}
	case "global":
		zerolog.CallerSkipFrameCount = 2 + j
		want = j
		if si.UsesJ {
			want = 2 * j
		}
	}
	if want > c.Depth+chainDepth+3 {
		return "" // the stack of this harness is not deep enough for the skip: not a case
	}
	if c.PanicBefore {
		func() {
			defer func() { recover() }()
			other := zerolog.New(io.Discard).Hook(panicHook{})
			other.Info().Msg("this event's hook panics")
		}()
	}
	out.last = out.last[:0]
	marked = marked[:0]
	w(c.Depth, c.Site, l, stdl, j)
	if len(out.last) == 0 {
		return "no event written"
	}
	n, err := jsonref.ValidateLine(zerolog.VerifDecodeIfBinaryToBytes(out.last)) // JSON in either build
	if err != nil {
		return "unparseable event: " + err.Error()
	}
	var got []string
	for _, m := range n.O {
		if m.Key == "caller" && m.Val.Kind == jsonref.Str {
			got = append(got, m.Val.S)
		}
	}
	if want >= len(marked) {
		return "SKIP"
	}
	nwant := 1
	if want2 >= 0 {
		nwant = 2
	}
	if len(got) != nwant {
		return fmt.Sprintf("expected %d caller field(s), got %d in %s", nwant, len(got), out.last)
	}
	if want2 >= 0 && got[1] != renderCaller(c.Marshal, marked[want2]) {
		return fmt.Sprintf("second caller field=%s, want %s (frame %d above the call site; site line %s)", got[1], renderCaller(c.Marshal, marked[want2]), want2, marked[0])
	}
	if got[0] != renderCaller(c.Marshal, marked[want]) {
		return fmt.Sprintf("caller=%s, want %s (frame %d above the call site; site line %s; CallerMarshalFunc %q)", got[0], renderCaller(c.Marshal, marked[want]), want, marked[0], c.Marshal)
	}
	return ""
}

func nontrivial(c *Case) bool {
	return c.J >= 1 || c.Hooks == "both" || c.Hooks == "after" || (sites[c.Site].Kind == "context" && len(sites[c.Site].Name) > 4 && sites[c.Site].Name[:4] == "Ctx/" && (sites[c.Site].Name[4] == 'P' || sites[c.Site].Name[4] == 'W' || sites[c.Site].Name[4] == 'S'))
}

func fail(t interface{ Fatalf(string, ...interface{}) }, name string, c interface{}, msg string) {
	ev.SaveReplay("C19-"+name, c)
	fmt.Printf("VERIF-FAIL: %s\n", msg)
	t.Fatalf("%s", msg)
}

func mechsFor(si siteInfo) []string {
	if si.Kind == "event" {
		return []string{"event", "global", "event+ctx"}
	}
	return []string{"ctx", "ctxcount", "global", "ctx2", "ctxcount=global"}
}

func TestExhaustiveProduct(t *testing.T) {
	out := &rw{}
	var n, nt int64
	maxJ, maxD := 3, 3
	if ev.Thorough() {
		maxJ, maxD = 5, 5
	}
	for id, si := range sites {
		for _, mech := range mechsFor(si) {
			for j := 0; j <= maxJ; j++ {
				if mech == "ctxcount" || mech == "global" || mech == "ctxcount=global" || si.UsesJ || j == 0 {
					for d := 0; d <= maxD; d++ {
						if d > 1 && d < maxD && j == 0 {
							continue
						}
						for _, hooks := range []string{"none", "before", "after", "both"} {
							c := &Case{Site: id, Name: si.Name, Mech: mech, J: j, Depth: d, Hooks: hooks, Marshal: []string{"", "base", "", "tag", ""}[n%5], PanicBefore: n%11 == 3}
							n++
							if nontrivial(c) {
								nt++
							}
							if msg := run(c, nil, out); msg != "" {
								fail(t, "product", c, c.Name+" ["+mech+"]: "+msg)
							}
						}
					}
				}
			}
		}
	}
	rec.Bulk(n, nt, "product")
	rec.Exhaustive(fmt.Sprintf("%d generated call sites x applicable mechanisms x skip 0..%d x wrapper depth 0..%d x 4 hook arrangements", len(sites), maxJ, maxD))
	rec.Sample(Case{Site: 0, Name: sites[0].Name, Mech: "event", J: 0, Depth: 2, Hooks: "both"})
	rec.Sample(Case{Site: len(sites) - 1, Name: sites[len(sites)-1].Name, Mech: "ctxcount", J: 2, Depth: 3, Hooks: "none"})
}

// events built and finalised on different lines
func TestSplitLines(t *testing.T) {
	out := &rw{}
	l := zerolog.New(out)
	lc := l.With().Caller().Logger()
	check := func(name string, want string) {
		n, err := jsonref.ValidateLine(zerolog.VerifDecodeIfBinaryToBytes(out.last)) // JSON in either build
		if err != nil {
			t.Fatal(err)
		}
		got := ""
		for _, m := range n.O {
			if m.Key == "caller" {
				got = m.Val.S
			}
		}
		rec.Case([]byte(name), true, "split-lines")
		if got != want {
			fail(t, "split", map[string]string{"name": name}, fmt.Sprintf("%s: caller=%s, want %s", name, got, want))
		}
	}
	e := l.Info()
	e = lgE(e).Caller()
	lineCaller := marked[0]
	e = e.Str("k", "v")
	e.Msg("m")
	check("Event.Caller on its own line", lineCaller)

	e = lc.Info().
		Str("k", "v")
	e = e.Int("n", 1)
	lgE(e).Msg("m")
	check("Context.Caller reports the finalizer's line", marked[0])

	e = lc.Warn()
	func() {
		lgE(e).Send()
	}()
	check("Context.Caller, finalised inside a closure", marked[0])

}

// sequences on shared loggers (pooled events must not inherit skip counts)
func TestRapidSequences(t *testing.T) {
	rapid.Check(t, func(rt *rapid.T) {
		out := &rw{}
		// a few shared loggers
		type sl struct {
			c Case
			l zerolog.Logger
		}
		var shared []sl
		for _, mech := range []string{"event", "ctx", "ctxcount", "ctx2", "event+ctx"} {
			c := Case{Mech: mech, J: rapid.IntRange(0, 3).Draw(rt, "j0"), Hooks: rapid.SampledFrom([]string{"none", "before", "after", "both"}).Draw(rt, "hooks"), Site: firstSite(mech)}
			shared = append(shared, sl{c, buildLogger(&c, out)})
		}
		n := rapid.IntRange(1, 12).Draw(rt, "n")
		var seq []Case
		for i := 0; i < n; i++ {
			s := shared[rapid.IntRange(0, len(shared)-1).Draw(rt, "logger")]
			id := rapid.IntRange(0, len(sites)-1).Draw(rt, "site")
			si := sites[id]
			if (si.Kind == "event") != (s.c.Mech == "event" || s.c.Mech == "event+ctx") {
				continue
			}
			c := s.c
			c.Site, c.Name = id, si.Name
			if c.Mech != "ctxcount" {
				c.J = rapid.IntRange(0, 4).Draw(rt, "j")
			}
			c.Depth = rapid.IntRange(0, 4).Draw(rt, "depth")
			c.Marshal = rapid.SampledFrom([]string{"", "", "base", "tag"}).Draw(rt, "marshal")
			c.PanicBefore = rapid.IntRange(0, 7).Draw(rt, "panicbefore") == 0
			seq = append(seq, c)
			b, _ := json.Marshal(c)
			rec.Case(b, nontrivial(&c), "sequence-step")
			lg := s.l
			if msg := run(&c, &lg, out); msg != "" {
				fail(rt, "sequence", seq, fmt.Sprintf("step %d %s [%s]: %s", i, c.Name, c.Mech, msg))
			}
		}
	})
}

func firstSite(mech string) int {
	for i, s := range sites {
		if (s.Kind == "event") == (mech == "event" || mech == "event+ctx") {
			return i
		}
	}
	return 0
}

// Helper chains far deeper than any small counter: CallerSkipFrame(j) / Caller(j) with j around
// 127/128/255/256 through 300 wrapper frames ("helper wrappers of any depth").
func TestDeepWrappers(t *testing.T) {
	out := &rw{}
	var n int64
	for id, si := range sites {
		if !si.UsesJ || !(strings.HasSuffix(si.Name, "/Info/Msg") || strings.HasSuffix(si.Name, "/PkgInfo/Msg") || strings.HasSuffix(si.Name, "/Log/Send")) {
			continue
		}
		for _, j := range []int{7, 13, 14, 15, 16, 17, 20, 31, 32, 33, 39, 100, 127, 128, 129, 200, 255, 256, 257} {
			mech := "event"
			if si.Kind == "context" {
				mech = "ctx"
			}
			c := &Case{Site: id, Name: si.Name, Mech: mech, J: j, Depth: 300, Hooks: "none"}
			msg := run(c, nil, out)
			if msg == "SKIP" {
				continue
			}
			n++
			rec.Case([]byte(fmt.Sprint("deep", id, j)), true, "deep-wrappers")
			if msg != "" {
				ev.SaveReplay("C19-deep", c)
				fmt.Printf("VERIF-FAIL: %s with skip %d through 300 wrapper frames: %s\n", si.Name, j, msg)
				t.Fatalf("%s j=%d depth=300: %s", si.Name, j, msg)
			}
		}
	}
	if n == 0 {
		t.Fatalf("HARNESS-ERROR: no deep-wrapper case ran")
	}
}

// A direct Logger.Write call made by a package that is itself named "log" (an application's own
// logging helpers): the caller field names that statement, or the frame k above it.
func TestWriteFromPackageNamedLog(t *testing.T) {
	var n int64
	for depth := 0; depth <= 3; depth++ {
		for k := 0; k <= 2; k++ {
			var out bytes.Buffer
			var l zerolog.Logger
			if k == 0 {
				l = zerolog.New(&out).With().Caller().Logger()
			} else {
				l = zerolog.New(&out).With().CallerWithSkipFrameCount(2 + k).Logger()
			}
			applog.WriteWrapped(&l, depth)
			var evt map[string]interface{}
			if err := json.Unmarshal(zerolog.VerifDecodeIfBinaryToBytes(out.Bytes()), &evt); err != nil {
				t.Fatalf("HARNESS-ERROR: %v: %q", err, out.Bytes())
			}
			n++
			rec.Case([]byte(fmt.Sprint("logpkg", depth, k)), true, "write-from-package-log")
			got, _ := evt["caller"].(string)
			if k >= len(applog.Marked) || got != applog.Marked[k] {
				c := map[string]interface{}{"site": "package log: Logger.Write", "wrapper_depth": depth, "frames_up": k}
				ev.SaveReplay("C19-logpkg", c)
				fmt.Printf("VERIF-FAIL: Logger.Write called from a package named log (wrapper depth %d, %d frames up): caller=%q, want %q\n", depth, k, got, applog.Marked[k])
				t.Fatalf("caller=%q, want %q (frames above the Write statement: %v)", got, applog.Marked[k], applog.Marked)
			}
		}
	}
}

func TestReplay(t *testing.T) {
	f := os.Getenv("VERIF_REPLAY")
	if f == "" {
		t.Skip("no VERIF_REPLAY")
	}
	b, err := os.ReadFile(f)
	if err != nil {
		t.Fatal(err)
	}
	rec.Case(b, true, "replay")
	rec.Case(append(b, 1), true, "replay")
	rec.Sample(json.RawMessage(b))
	var one Case
	var many []Case
	if json.Unmarshal(b, &many) != nil {
		json.Unmarshal(b, &one)
		many = []Case{one}
	}
	out := &rw{}
	for _, c := range many {
		c := c
		if c.Name != "" && (c.Site >= len(sites) || sites[c.Site].Name != c.Name) {
			for i, s := range sites {
				if s.Name == c.Name {
					c.Site = i
				}
			}
		}
		if msg := run(&c, nil, out); msg != "" {
			fail(t, "replay", &c, msg)
		}
	}
}
