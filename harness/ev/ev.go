// Package ev collects evidence counters inside a test process and writes
// them as a fragment file that the driver (../../check) merges.
package ev

import (
	"encoding/binary"
	"encoding/json"
	"fmt"
	"hash/fnv"
	"os"
	"path/filepath"
	"sort"
	"strconv"
	"sync"
)

type Rec struct {
	mu        sync.Mutex
	Name      string
	Rule      string
	evals     int64
	nontriv   map[uint64]struct{}
	extraNT   int64 // distinct-by-construction non-trivial cases (exhaustive enumerations)
	classes   map[string]int64
	samples   []interface{}
	sampleCap int
	excluded  map[string]int64
	notes     []string
	exhaust   []string
	seen      int64
}

func New(name, rule string) *Rec {
	return &Rec{Name: name, Rule: rule, nontriv: map[uint64]struct{}{}, classes: map[string]int64{}, excluded: map[string]int64{}, sampleCap: 6}
}

func hash(b []byte) uint64 {
	h := fnv.New64a()
	h.Write(b)
	return h.Sum64()
}

// Case records one evaluated case. key is a serialisation of the case (used
// for distinctness); nontrivial per the property's rule.
func (r *Rec) Case(key []byte, nontrivial bool, classes ...string) {
	r.mu.Lock()
	defer r.mu.Unlock()
	r.evals++
	if nontrivial {
		r.nontriv[hash(key)] = struct{}{}
	}
	for _, c := range classes {
		r.classes[c]++
	}
}

// Bulk records n evaluations of an enumeration whose members are distinct by
// construction, nt of which are non-trivial.
func (r *Rec) Bulk(n, nt int64, class string) {
	r.mu.Lock()
	defer r.mu.Unlock()
	r.evals += n
	r.extraNT += nt
	if class != "" {
		r.classes[class] += n
	}
}

func (r *Rec) Class(c string, n int64) {
	r.mu.Lock()
	r.classes[c] += n
	r.mu.Unlock()
}

// Sample keeps the first few and then a sparse selection of later samples.
func (r *Rec) Sample(s interface{}) {
	r.mu.Lock()
	defer r.mu.Unlock()
	r.seen++
	if len(r.samples) < r.sampleCap {
		r.samples = append(r.samples, s)
		return
	}
	// deterministic sparse replacement of the second half
	if r.seen&(r.seen-1) == 0 { // powers of two
		i := r.sampleCap/2 + int(r.seen>>3)%(r.sampleCap-r.sampleCap/2)
		r.samples[i] = s
	}
}

func (r *Rec) Excluded(what string) {
	r.mu.Lock()
	r.excluded[what]++
	r.mu.Unlock()
}

func (r *Rec) Note(s string) {
	r.mu.Lock()
	r.notes = append(r.notes, s)
	r.mu.Unlock()
}

// Exhaustive marks a named sub-space as completely enumerated in this run.
func (r *Rec) Exhaustive(space string) {
	r.mu.Lock()
	r.exhaust = append(r.exhaust, space)
	r.mu.Unlock()
}

type Fragment struct {
	Name       string           `json:"name"`
	Rule       string           `json:"rule"`
	Evals      int64            `json:"evaluations"`
	HashFile   string           `json:"hash_file,omitempty"`
	NHashes    int              `json:"n_hashes"`
	ExtraNT    int64            `json:"extra_nontrivial"`
	Classes    map[string]int64 `json:"classes"`
	Samples    []interface{}    `json:"samples"`
	Excluded   map[string]int64 `json:"excluded_known,omitempty"`
	Notes      []string         `json:"notes,omitempty"`
	Exhaustive []string         `json:"exhaustive_subspaces,omitempty"`
}

// Flush writes the fragment into $VERIF_EV_OUT (a directory). Without the
// variable it is a no-op (plain `go test` use).
func (r *Rec) Flush() {
	dir := os.Getenv("VERIF_EV_OUT")
	if dir == "" {
		return
	}
	r.mu.Lock()
	defer r.mu.Unlock()
	os.MkdirAll(dir, 0o755)
	base := fmt.Sprintf("%s-%d-%s", r.Name, os.Getpid(), strconv.FormatInt(int64(len(r.nontriv)), 10))
	hf := filepath.Join(dir, base+".hashes")
	hs := make([]uint64, 0, len(r.nontriv))
	for h := range r.nontriv {
		hs = append(hs, h)
	}
	sort.Slice(hs, func(i, j int) bool { return hs[i] < hs[j] })
	buf := make([]byte, 8*len(hs))
	for i, h := range hs {
		binary.LittleEndian.PutUint64(buf[8*i:], h)
	}
	os.WriteFile(hf, buf, 0o644)
	f := Fragment{Name: r.Name, Rule: r.Rule, Evals: r.evals, HashFile: hf, NHashes: len(hs), ExtraNT: r.extraNT,
		Classes: r.classes, Samples: r.samples, Excluded: r.excluded, Notes: r.notes, Exhaustive: r.exhaust}
	b, _ := json.MarshalIndent(f, "", " ")
	os.WriteFile(filepath.Join(dir, base+".frag.json"), b, 0o644)
}

// SaveReplay writes a failing case to $VERIF_REPLAY_DIR/<name>.json and
// returns the path (or "" when the variable is unset). The last write wins,
// so with rapid the file holds the shrunk case.
func SaveReplay(name string, v interface{}) string {
	dir := os.Getenv("VERIF_REPLAY_DIR")
	if dir == "" {
		return ""
	}
	os.MkdirAll(dir, 0o755)
	b, _ := json.MarshalIndent(v, "", " ")
	p := filepath.Join(dir, name+".json")
	os.WriteFile(p, b, 0o644)
	fmt.Printf("VERIF-REPLAY-FILE %s\n", p)
	return p
}

// Seed returns VERIF_SEED (0 remapped to 1).
func Seed() int64 {
	s, _ := strconv.ParseInt(os.Getenv("VERIF_SEED"), 10, 64)
	if s == 0 {
		s = 1
	}
	return s
}

// Tier returns "quick" or "thorough".
func Tier() string {
	if os.Getenv("VERIF_TIER") == "thorough" {
		return "thorough"
	}
	return "quick"
}

func Thorough() bool { return Tier() == "thorough" }

// Shard returns (index, count) of this process within a sharded run.
func Shard() (int, int) {
	i, _ := strconv.Atoi(os.Getenv("VERIF_SHARD"))
	n, _ := strconv.Atoi(os.Getenv("VERIF_NSHARDS"))
	if n <= 0 {
		n = 1
	}
	return i, n
}

// N picks a case count by tier, overridable by env VERIF_N.
func N(quick, thorough int) int {
	if v, err := strconv.Atoi(os.Getenv("VERIF_N")); err == nil && v > 0 {
		return v
	}
	if Thorough() {
		return thorough
	}
	return quick
}
