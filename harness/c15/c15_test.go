// C15 — TriggerLevelWriter holds back, releases and orders lines as specified.
package c15

import (
	"bytes"
	"encoding/json"
	"errors"
	"fmt"
	"io"
	"os"
	"strings"
	"sync"
	"sync/atomic"
	"testing"
	"time"
	"verif/harness/watch"

	"github.com/rs/zerolog"
	"pgregory.net/rapid"
	"verif/harness/ev"
)

const rule = "cases = histories over {WriteLevel(level, line), Trigger, Close, new writer instance} with levels from the whole int8 range except 10, ConditionalLevel/TriggerLevel in any order, lines = arbitrary bytes without interior newline + newline (lengths crossing the 1 KiB initial buffer and the buffer reuse limit), destination LevelWriter or plain io.Writer; exhaustive for histories <=5 (<=6 thorough) over 4 levels; rapid beyond; concurrent goroutines (race build); fault histories in which the destination refuses chosen calls (oracle there: the accepted lines are a subsequence of the fault-free delivery). oracle = TriggerLevelWriter reference model. non-trivial = history with >=2 held lines of different levels followed by a trigger; distinct by construction / FNV-64"

var rec = ev.New("C15", rule)

func TestMain(m *testing.M) {
	code := m.Run()
	rec.Flush()
	os.Exit(code)
}

type Op struct {
	I    int    `json:"i,omitempty"` // writer instance (several instances share the buffer pool)
	K    string `json:"k"`           // w | trigger | close | new | consolefail (a ConsoleWriter elsewhere fails to deliver)
	L    int    `json:"l,omitempty"`
	Line []byte `json:"line,omitempty"`
}

type Case struct {
	Cond  int  `json:"conditional"`
	Trig  int  `json:"trigger"`
	Plain bool `json:"plain_destination,omitempty"`
	Ops   []Op `json:"ops"`
	// FailAt lists the destination calls (0-based, counted per destination) that return an error
	// instead of accepting the line (fault histories, judged by runFaults)
	FailAt []int `json:"fail_at,omitempty"`
	// OddCounts: the destination accepts every line but reports a byte count different from len(p)
	// with a nil error (a decorating / prefixing writer): not a failure, nothing may be lost
	OddCounts bool `json:"odd_counts,omitempty"`
	// Echo: with >= 2 instances, the destination of instance 0 writes a copy of every line it receives
	// to instance 1 at ConditionalLevel (an audit trail fed from inside a destination): instance 1
	// starts holding lines while instance 0 is in the middle of its replay
	Echo bool `json:"echo_into_second_instance,omitempty"`
	// ClosableDest: the destination is an io.Closer that honours Close (a file): nothing in the
	// history closes it, so every line that should arrive after a TriggerLevelWriter was closed
	// (through a new writer on the same destination, or the same one) still arrives
	ClosableDest bool `json:"closable_destination,omitempty"`
}

type out struct {
	L    int
	Line string
}

type dest struct {
	log    []out
	plain  bool
	calls  int
	failAt map[int]bool
	odd    bool
	echo   func(line []byte)
	closed bool
}

var errDest = errors.New("destination refused the line")

// downOut fails every write.
type downOut struct{}

func (downOut) Write(p []byte) (int, error) { return 0, errDest }

func (d *dest) Write(p []byte) (int, error) { return d.take(-100, p) }

// closeIt is only reachable when the case wraps the destination in closableDest / closableLDest.
func (d *dest) closeIt() error { d.closed = true; return nil }

type closableDest struct{ *dest }

func (c closableDest) Close() error { return c.dest.closeIt() }

type closableLDest struct{ ldest }

func (c closableLDest) Close() error { return c.dest.closeIt() }

func (d *dest) take(l int, p []byte) (int, error) {
	d.calls++
	if d.closed {
		return 0, os.ErrClosed
	}
	if d.failAt[d.calls-1] {
		return 0, errDest
	}
	d.log = append(d.log, out{l, string(p)})
	if d.echo != nil {
		d.echo(p)
	}
	if d.odd {
		return []int{len(p) - 1, len(p) + 6, 0, len(p)}[d.calls%4], nil
	}
	return len(p), nil
}

type ldest struct{ *dest }

func (d ldest) WriteLevel(l zerolog.Level, p []byte) (int, error) { return d.take(int(l), p) }

type inst struct {
	d         *dest
	tw        *zerolog.TriggerLevelWriter
	want      []out
	held      []out
	triggered bool
}

// run judges one history; a history during which a call into the writer never returns is judged through
// package watch: the only goroutine using the writer waiting for a lock cannot be released by anybody.
func run(c *Case) (msg string, nt bool) {
	v := watch.Run(30*time.Second, "zerolog.(*TriggerLevelWriter)", func() { msg, nt = runHistory(c) })
	switch {
	case v.Done:
		return msg, nt
	case v.Blocked:
		return fmt.Sprintf("a call on the TriggerLevelWriter never returns: the only goroutine using it waits in %s:\n%s", v.State, v.Stack), true
	}
	fmt.Println("VERIF-INCONCLUSIVE: a history took more than 30 s without being blocked on a lock")
	os.Exit(2)
	return "", false
}

func runHistory(c *Case) (string, bool) {
	ninst := 1
	for _, op := range c.Ops {
		if op.I+1 > ninst {
			ninst = op.I + 1
		}
	}
	mk := func(in *inst) {
		var w io.Writer = ldest{in.d}
		if c.Plain {
			w = in.d
		}
		if c.ClosableDest {
			w = closableLDest{ldest{in.d}}
			if c.Plain {
				w = closableDest{in.d}
			}
		}
		in.tw = &zerolog.TriggerLevelWriter{Writer: w, ConditionalLevel: zerolog.Level(c.Cond), TriggerLevel: zerolog.Level(c.Trig)}
	}
	insts := make([]*inst, ninst)
	for i := range insts {
		insts[i] = &inst{d: &dest{plain: c.Plain, odd: c.OddCounts}}
		mk(insts[i])
	}
	nontrivial := false
	lv := func(l int) int {
		if c.Plain {
			return -100
		}
		return l
	}
	flush := func(in *inst) {
		if len(in.held) >= 2 {
			for _, h := range in.held[1:] {
				if h.L != in.held[0].L {
					nontrivial = true
				}
			}
		}
		in.want = append(in.want, in.held...)
		in.held = nil
		in.triggered = true
	}
	modelWrite := func(in *inst, L int, line string) {
		if !in.triggered && L >= c.Trig {
			flush(in)
		}
		if !in.triggered && L <= c.Cond {
			in.held = append(in.held, out{lv(L), line})
		} else {
			in.want = append(in.want, out{lv(L), line})
		}
	}
	echoLevel := c.Cond
	if echoLevel == 10 {
		echoLevel = 9
	}
	// what instance 0 delivered during this op was echoed, in that order, into instance 1
	echoModel := func(in *inst, before int) {
		if !c.Echo || len(insts) < 2 || in != insts[0] {
			return
		}
		for _, o := range in.want[before:] {
			modelWrite(insts[1], echoLevel, "echo:"+o.Line)
		}
	}
	if c.Echo && len(insts) >= 2 {
		insts[0].d.echo = func(line []byte) {
			insts[1].tw.WriteLevel(zerolog.Level(echoLevel), append([]byte("echo:"), line...))
		}
	}
	for i, op := range c.Ops {
		in := insts[op.I]
		switch op.K {
		case "w":
			before := len(in.want)
			n, err := in.tw.WriteLevel(zerolog.Level(op.L), op.Line)
			if err != nil || n != len(op.Line) && !c.OddCounts {
				return fmt.Sprintf("op %d: WriteLevel returned (%d, %v) for a %d-byte line", i, n, err, len(op.Line)), nontrivial
			}
			modelWrite(in, op.L, string(op.Line))
			echoModel(in, before)
		case "trigger":
			before := len(in.want)
			if err := in.tw.Trigger(); err != nil {
				return fmt.Sprintf("op %d: Trigger returned %v", i, err), nontrivial
			}
			if !in.triggered {
				flush(in)
			}
			echoModel(in, before)
		case "close":
			in.tw.Close()
			in.held = nil
		case "consolefail":
			// elsewhere in the program a ConsoleWriter fails to deliver a line (its Out is down): whatever it
			// does with its buffers, none of that text belongs to this writer's destination
			cw := zerolog.ConsoleWriter{Out: downOut{}, NoColor: true}
			cw.Write([]byte(`{"level":"info","message":"console text that must not leak","k":"` + strings.Repeat("c", 40) + `"}` + "\n"))
			cw.FormatExtra = func(map[string]interface{}, *bytes.Buffer) error { return errDest }
			cw.Out = io.Discard
			cw.Write([]byte(`{"level":"warn","message":"nor this one"}` + "\n"))
		case "new":
			in.tw.Close()
			mk(in)
			in.held = nil
			in.triggered = false
		}
		// every destination must match its model after every step
		for k, x := range insts {
			if len(x.d.log) != len(x.want) {
				return fmt.Sprintf("after op %d (%s on instance %d): destination %d has %d lines, model %d; got %v want %v", i, op.K, op.I, k, len(x.d.log), len(x.want), tail(x.d.log), tail(x.want)), nontrivial
			}
		}
	}
	for k, x := range insts {
		for i := range x.want {
			if x.d.log[i] != x.want[i] {
				return fmt.Sprintf("destination %d line %d: got %+v, want %+v", k, i, trunc(x.d.log[i]), trunc(x.want[i])), nontrivial
			}
		}
		x.tw.Close()
	}
	return "", nontrivial
}

// runFaults judges a history in which the destination refuses some calls. The statement does not say
// what a refused line costs, so only what it does say under any outcome is required: the lines
// the destination ACCEPTED are a subsequence of what it would have received without faults — none
// twice, none altered, none out of order, none invented — and nothing panics.
func runFaults(c *Case) (string, bool) {
	d := &dest{plain: c.Plain, failAt: map[int]bool{}}
	for _, k := range c.FailAt {
		d.failAt[k] = true
	}
	var w io.Writer = ldest{d}
	if c.Plain {
		w = d
	}
	mk := func() *zerolog.TriggerLevelWriter {
		return &zerolog.TriggerLevelWriter{Writer: w, ConditionalLevel: zerolog.Level(c.Cond), TriggerLevel: zerolog.Level(c.Trig)}
	}
	tw := mk()
	var want, held []out
	triggered := false
	lv := func(l int) int {
		if c.Plain {
			return -100
		}
		return l
	}
	failed := 0
	for _, op := range c.Ops {
		switch op.K {
		case "w":
			if _, err := tw.WriteLevel(zerolog.Level(op.L), op.Line); err != nil {
				failed++
			}
			if !triggered && op.L >= c.Trig {
				want, held, triggered = append(want, held...), nil, true
			}
			if !triggered && op.L <= c.Cond {
				held = append(held, out{lv(op.L), string(op.Line)})
			} else {
				want = append(want, out{lv(op.L), string(op.Line)})
			}
		case "trigger":
			if err := tw.Trigger(); err != nil {
				failed++
			}
			if !triggered {
				want, held, triggered = append(want, held...), nil, true
			}
		case "close":
			tw.Close()
			held = nil
		case "new":
			tw.Close()
			tw = mk()
			held, triggered = nil, false
		}
	}
	tw.Close()
	j := 0
	for i, got := range d.log {
		for j < len(want) && want[j] != got {
			j++
		}
		if j == len(want) {
			return fmt.Sprintf("accepted line %d (%+v) is not the continuation of a subsequence of the fault-free delivery: duplicated, altered, reordered or invented; accepted %v, fault-free %v", i, trunc(got), tail(d.log[:i+1]), tail(want)), failed > 0
		}
		j++
	}
	return "", failed > 0 && len(d.log) > 0
}

func trunc(o out) out {
	if len(o.Line) > 60 {
		o.Line = o.Line[:60] + "..."
	}
	return o
}
func tail(l []out) []out {
	if len(l) > 4 {
		l = l[len(l)-4:]
	}
	o := make([]out, len(l))
	for i := range l {
		o[i] = trunc(l[i])
	}
	return o
}

func fail(t interface{ Fatalf(string, ...interface{}) }, name string, c interface{}, msg string) {
	ev.SaveReplay("C15-"+name, c)
	fmt.Printf("VERIF-FAIL: %s\n", msg)
	t.Fatalf("%s", msg)
}

func TestExhaustive(t *testing.T) {
	maxLen := 5
	if ev.Thorough() {
		maxLen = 6
	}
	sh, nsh := ev.Shard()
	levels := []int{0, 1, 2, 3}
	// alphabet: 4 writes, trigger, close, new
	type sym struct {
		k string
		l int
	}
	alpha := []sym{{"w", 0}, {"w", 1}, {"w", 2}, {"w", 3}, {"trigger", 0}, {"close", 0}, {"new", 0}}
	var n, nt int64
	idx := 0
	for _, cond := range []int{-1, 0, 1, 2, 3} {
		for _, trig := range []int{0, 1, 2, 3, 4} {
			for _, plain := range []bool{false, true} {
				idx++
				if idx%nsh != sh {
					continue
				}
				ops := make([]Op, maxLen)
				var recur func(d int)
				recur = func(d int) {
					if d > 0 {
						c := &Case{Cond: cond, Trig: trig, Plain: plain, Ops: ops[:d]}
						msg, ntv := run(c)
						n++
						if ntv {
							nt++
						}
						if msg != "" {
							cc := *c
							cc.Ops = append([]Op{}, ops[:d]...)
							fail(t, "exhaustive", &cc, msg)
						}
					}
					if d == maxLen {
						return
					}
					for _, a := range alpha {
						ops[d] = Op{K: a.k, L: a.l}
						if a.k == "w" {
							ops[d].Line = []byte(fmt.Sprintf("line-%d-l%d\n", d, a.l))
						}
						recur(d + 1)
					}
				}
				recur(0)
			}
		}
	}
	_ = levels
	rec.Bulk(n, nt, "exhaustive")
	rec.Exhaustive(fmt.Sprintf("all histories up to length %d over {write at 4 levels, Trigger, Close, new instance} x 5 ConditionalLevels x 5 TriggerLevels x {LevelWriter, plain} destination (shard %d/%d)", maxLen, sh, nsh))
	rec.Sample(Case{Cond: 1, Trig: 3, Ops: []Op{{K: "w", L: 0, Line: []byte("a\n")}, {K: "w", L: 1, Line: []byte("b\n")}, {K: "w", L: 2, Line: []byte("c\n")}, {K: "w", L: 3, Line: []byte("d\n")}}})
}

// TestLevelSweep: every level value a line can carry (all of int8 but 10) through the held buffer: held
// first, then a second held line, then released by Trigger(), by a triggering line, and by Close; lines
// whose first bytes look like what a length/level framing could use.
func TestLevelSweep(t *testing.T) {
	var n, nt int64
	lines := [][]byte{[]byte("l\n"), []byte("\x1bn rest \x1b\x1b\n"), []byte("\n"), append(bytes.Repeat([]byte{0}, 3), 0x1b, 'n', '\n')}
	for l := -128; l <= 127; l++ {
		if l == 10 {
			continue
		}
		for _, l2 := range []int{l, -128, 0, 27, 127} {
			for li, line := range lines {
				for _, plain := range []bool{false, true} {
					for _, release := range []string{"trigger", "close", "line"} {
						c := &Case{Cond: 127, Trig: 127, Plain: plain, Ops: []Op{{K: "w", L: l, Line: append([]byte(fmt.Sprintf("first-%d-", l)), line...)}, {K: "w", L: l2, Line: lines[(li+1)%len(lines)]}}}
						switch release {
						case "trigger":
							c.Ops = append(c.Ops, Op{K: "trigger"})
						case "close":
							c.Ops = append(c.Ops, Op{K: "close"})
						default:
							if l == 127 || l2 == 127 {
								continue // would have triggered already
							}
							c.Ops = append(c.Ops, Op{K: "w", L: 127, Line: []byte("the trigger\n")})
						}
						c.Ops = append(c.Ops, Op{K: "w", L: l, Line: line})
						msg, _ := run(c)
						n++
						nt++
						if msg != "" {
							fail(t, "level-sweep", c, msg)
						}
					}
				}
			}
		}
	}
	rec.Bulk(n, nt, "level-sweep")
	rec.Exhaustive("every level of int8 except 10 x 5 second levels x 4 line shapes x {LevelWriter, plain} x release by {Trigger(), Close, a triggering line}: held, released, and written once more afterwards")
}

func genLine(rt *rapid.T) []byte {
	var b []byte
	switch rapid.IntRange(0, 9).Draw(rt, "linecls") {
	case 0:
		b = []byte{}
	case 1:
		n := rapid.SampledFrom([]int{1000, 1022, 1023, 1024, 1025, 2048, 5000}).Draw(rt, "len")
		b = make([]byte, n)
		for i := range b {
			b[i] = 'x'
		}
	case 2:
		n := rapid.SampledFrom([]int{65535, 65536, 70000}).Draw(rt, "biglen")
		b = make([]byte, n)
		for i := range b {
			b[i] = 'y'
		}
	default:
		b = rapid.SliceOfN(rapid.Byte(), 0, 30).Draw(rt, "bytes")
	}
	for i := range b {
		if b[i] == '\n' {
			b[i] = 'n'
		}
	}
	return append(b, '\n')
}

func genLevel(rt *rapid.T) int {
	l := rapid.SampledFrom([]int{-128, -5, -1, 0, 1, 2, 3, 4, 5, 6, 7, 9, 11, 127, rapid.IntRange(-128, 127).Draw(rt, "anylvl")}).Draw(rt, "lvl")
	if l == 10 {
		l = 11
	}
	return l
}

func TestRapid(t *testing.T) {
	rapid.Check(t, func(rt *rapid.T) {
		c := &Case{Cond: rapid.IntRange(-128, 127).Draw(rt, "cond"), Trig: rapid.IntRange(-128, 127).Draw(rt, "trig"), Plain: rapid.IntRange(0, 3).Draw(rt, "plain") == 0}
		if rapid.Bool().Draw(rt, "usual") {
			c.Cond = rapid.SampledFrom([]int{-1, 0, 1, 2}).Draw(rt, "cond2")
			c.Trig = rapid.SampledFrom([]int{1, 2, 3, 4, 0}).Draw(rt, "trig2")
		}
		c.OddCounts = rapid.IntRange(0, 4).Draw(rt, "odd") == 0
		c.Echo = rapid.IntRange(0, 3).Draw(rt, "echo") == 0
		c.ClosableDest = rapid.IntRange(0, 2).Draw(rt, "closable") == 0
		n := rapid.IntRange(1, 40).Draw(rt, "nops")
		ninst := rapid.SampledFrom([]int{1, 1, 2, 3}).Draw(rt, "ninst")
		if c.Echo && ninst == 1 {
			ninst = 2
		}
		for i := 0; i < n; i++ {
			switch k := rapid.SampledFrom([]string{"w", "w", "w", "w", "w", "w", "trigger", "close", "new", "consolefail"}).Draw(rt, "op"); k {
			case "w":
				c.Ops = append(c.Ops, Op{I: rapid.IntRange(0, ninst-1).Draw(rt, "inst"), K: "w", L: genLevel(rt), Line: genLine(rt)})
			default:
				c.Ops = append(c.Ops, Op{I: rapid.IntRange(0, ninst-1).Draw(rt, "inst"), K: k})
			}
		}
		msg, nt := run(c)
		b, _ := json.Marshal(c)
		rec.Case(b, nt, "rapid-history")
		if len(b) < 4000 {
			rec.Sample(json.RawMessage(b))
		}
		if msg != "" {
			fail(rt, "rapid", c, msg)
		}
	})
}

func TestRapidFaults(t *testing.T) {
	rapid.Check(t, func(rt *rapid.T) {
		c := &Case{Cond: rapid.SampledFrom([]int{-1, 0, 1, 2}).Draw(rt, "cond"), Trig: rapid.SampledFrom([]int{1, 2, 3, 4, 0}).Draw(rt, "trig"), Plain: rapid.IntRange(0, 3).Draw(rt, "plain") == 0}
		n := rapid.IntRange(2, 30).Draw(rt, "nops")
		for i := 0; i < n; i++ {
			switch k := rapid.SampledFrom([]string{"w", "w", "w", "w", "w", "w", "trigger", "close", "new"}).Draw(rt, "op"); k {
			case "w":
				// unique lines, so that a second delivery cannot pass for another line
				line := []byte(fmt.Sprintf("line-%d-%s\n", i, rapid.StringMatching(`[a-z]{0,6}`).Draw(rt, "txt")))
				c.Ops = append(c.Ops, Op{K: "w", L: rapid.IntRange(-1, 5).Draw(rt, "lvl"), Line: line})
			default:
				c.Ops = append(c.Ops, Op{K: k})
			}
		}
		nf := rapid.IntRange(1, 4).Draw(rt, "nfail")
		for i := 0; i < nf; i++ {
			c.FailAt = append(c.FailAt, rapid.IntRange(0, n).Draw(rt, "failat"))
		}
		msg, nt := runFaults(c)
		b, _ := json.Marshal(c)
		rec.Case(b, nt, "fault-history")
		rec.Sample(json.RawMessage(b))
		if msg != "" {
			fail(rt, "faults", c, msg)
		}
	})
}

// ---- concurrent

type ConcCase struct {
	Cond, Trig int
	Plans      [][]int // per goroutine: levels of its lines, in order
}

type cdest struct {
	mu      sync.Mutex
	log     []out
	inside  int32
	overlap bool
}

func (d *cdest) Write(p []byte) (int, error) { return d.WriteLevel(-100, p) }
func (d *cdest) WriteLevel(l zerolog.Level, p []byte) (int, error) {
	if atomic.AddInt32(&d.inside, 1) != 1 {
		d.overlap = true
	}
	d.log = append(d.log, out{int(l), string(p)})
	atomic.AddInt32(&d.inside, -1)
	return len(p), nil
}

func runConcurrent(c *ConcCase) string {
	d := &cdest{}
	tw := &zerolog.TriggerLevelWriter{Writer: d, ConditionalLevel: zerolog.Level(c.Cond), TriggerLevel: zerolog.Level(c.Trig)}
	var wg sync.WaitGroup
	start := make(chan struct{})
	total := 0
	for g, plan := range c.Plans {
		total += len(plan)
		wg.Add(1)
		go func(g int, plan []int) {
			defer wg.Done()
			<-start
			for i, l := range plan {
				tw.WriteLevel(zerolog.Level(l), []byte(fmt.Sprintf("g%d-%d-l%d\n", g, i, l)))
			}
		}(g, plan)
	}
	close(start)
	wg.Wait()
	if d.overlap {
		return "destination entered by two goroutines at the same time"
	}
	// every received line is one of the written lines, intact, with its level, at most once;
	// per-goroutine order inside the held block and inside the immediate stream
	seen := map[string]bool{}
	anyTrigger := false
	for _, plan := range c.Plans {
		for _, l := range plan {
			if l >= c.Trig {
				anyTrigger = true
			}
		}
	}
	firstTrig := -1
	for i, o := range d.log {
		var g, k, l int
		if _, err := fmt.Sscanf(o.Line, "g%d-%d-l%d\n", &g, &k, &l); err != nil || g >= len(c.Plans) || k >= len(c.Plans[g]) || c.Plans[g][k] != l || fmt.Sprintf("g%d-%d-l%d\n", g, k, l) != o.Line {
			return fmt.Sprintf("destination line %d %q is not one of the written lines", i, o.Line)
		}
		if o.L != l {
			return fmt.Sprintf("line %q delivered with level %d", o.Line, o.L)
		}
		if seen[o.Line] {
			return fmt.Sprintf("line %q delivered twice", o.Line)
		}
		seen[o.Line] = true
		if firstTrig < 0 && l >= c.Trig {
			firstTrig = i
		}
	}
	if anyTrigger {
		if len(d.log) != total {
			return fmt.Sprintf("a trigger-level line was written: destination has %d of %d lines", len(d.log), total)
		}
		// per goroutine: program order overall (held lines precede the goroutine's later lines)
		last := make([]int, len(c.Plans))
		for i := range last {
			last[i] = -1
		}
		for _, o := range d.log {
			var g, k, l int
			fmt.Sscanf(o.Line, "g%d-%d-l%d\n", &g, &k, &l)
			if k < last[g] {
				// allowed only if k was held (level <= Cond) and released by the trigger after a
				// later immediate line of the same goroutine had already passed
				if !(c.Plans[g][k] <= c.Cond) {
					return fmt.Sprintf("goroutine %d: immediate line %d delivered after its line %d", g, k, last[g])
				}
			}
			if k > last[g] {
				last[g] = k
			}
		}
		// held lines (level <= Cond, before the trigger) keep their per-goroutine order
		lastHeld := make([]int, len(c.Plans))
		for i := range lastHeld {
			lastHeld[i] = -1
		}
		for _, o := range d.log {
			var g, k, l int
			fmt.Sscanf(o.Line, "g%d-%d-l%d\n", &g, &k, &l)
			if l <= c.Cond && l < c.Trig {
				if k < lastHeld[g] {
					return fmt.Sprintf("goroutine %d: held line %d delivered after held line %d", g, k, lastHeld[g])
				}
				lastHeld[g] = k
			}
		}
	} else {
		// never triggered: only lines above ConditionalLevel may appear, all of them
		want := 0
		for _, plan := range c.Plans {
			for _, l := range plan {
				if l > c.Cond {
					want++
				}
			}
		}
		if len(d.log) != want {
			return fmt.Sprintf("never triggered: destination has %d lines, want the %d lines above ConditionalLevel", len(d.log), want)
		}
	}
	return ""
}

func TestConcurrent(t *testing.T) {
	rapid.Check(t, func(rt *rapid.T) {
		c := &ConcCase{Cond: rapid.SampledFrom([]int{0, 1}).Draw(rt, "cond"), Trig: rapid.SampledFrom([]int{3, 4}).Draw(rt, "trig")}
		g := rapid.IntRange(2, 8).Draw(rt, "g")
		for i := 0; i < g; i++ {
			n := rapid.IntRange(1, 60).Draw(rt, "n")
			plan := make([]int, n)
			for k := range plan {
				plan[k] = rapid.SampledFrom([]int{-1, 0, 1, 2, 2, 0, 1, 3, 5}).Draw(rt, "l")
			}
			c.Plans = append(c.Plans, plan)
		}
		b, _ := json.Marshal(c)
		rec.Case(b, true, "concurrent")
		if msg := runConcurrent(c); msg != "" {
			fail(rt, "concurrent", c, msg)
		}
	})
}

func TestReplay(t *testing.T) {
	f := os.Getenv("VERIF_REPLAY")
	if f == "" {
		t.Skip("no VERIF_REPLAY")
	}
	b, err := os.ReadFile(f)
	if err != nil {
		t.Fatal(err)
	}
	rec.Case(b, true, "replay")
	rec.Case(append(b, 1), true, "replay")
	rec.Sample(json.RawMessage(b))
	var probe map[string]json.RawMessage
	json.Unmarshal(b, &probe)
	if probe["Plans"] != nil {
		var c ConcCase
		json.Unmarshal(b, &c)
		for i := 0; i < 300; i++ {
			if msg := runConcurrent(&c); msg != "" {
				fail(t, "replay", &c, msg)
			}
		}
		return
	}
	var c Case
	json.Unmarshal(b, &c)
	if len(c.FailAt) > 0 {
		if msg, _ := runFaults(&c); msg != "" {
			fail(t, "replay", &c, msg)
		}
		return
	}
	if msg, _ := run(&c); msg != "" {
		fail(t, "replay", &c, msg)
	}
}
