//go:build !binary_log

package lp

// BinaryBuild tells whether zerolog was compiled with -tags binary_log (CBOR output).
const BinaryBuild = false
