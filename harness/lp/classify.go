package lp

import "math"

// Class summarises what a program exercises (for evidence and non-triviality).
type Class struct {
	NonASCII, NonFinite, NilOrEmpty, Deep, CtxHookEvent, NonDefaultSet bool
	Types                                                              map[string]bool
	MaxDepth                                                           int
	HasCtx, HasHook, HasEvField                                        bool
}

func (c Class) NonTrivial() bool {
	return c.NonASCII || c.NonFinite || c.NilOrEmpty || c.Deep || c.CtxHookEvent || c.NonDefaultSet
}

func (c Class) Labels() []string {
	var l []string
	add := func(b bool, s string) {
		if b {
			l = append(l, s)
		}
	}
	add(c.NonASCII, "nonascii-or-escape")
	add(c.NonFinite, "nonfinite-float")
	add(c.NilOrEmpty, "nil-or-empty")
	add(c.Deep, "depth>=2")
	add(c.CtxHookEvent, "ctx+hook+event")
	add(c.NonDefaultSet, "nondefault-settings")
	for t := range c.Types {
		l = append(l, "type:"+t)
	}
	return l
}

func plain(b []byte) bool {
	for _, c := range b {
		if c < 0x20 || c > 0x7e || c == '"' || c == '\\' {
			return false
		}
	}
	return true
}

func (c *Class) val(v Val, depth int) {
	c.Types[v.T] = true
	if depth > c.MaxDepth {
		c.MaxDepth = depth
	}
	if !plain(v.S) {
		c.NonASCII = true
	}
	switch v.T {
	case "float32":
		f := float64(math.Float32frombits(uint32(v.U)))
		if math.IsNaN(f) || math.IsInf(f, 0) {
			c.NonFinite = true
		}
	case "float64":
		f := math.Float64frombits(v.U)
		if math.IsNaN(f) || math.IsInf(f, 0) {
			c.NonFinite = true
		}
	}
	if v.Nil || v.EK == "nil" || v.EK == "typednil" {
		c.NilOrEmpty = true
	}
	switch v.T {
	case "dict", "obj", "embed", "fieldsmap", "fieldsslice", "fieldsodd", "fieldsbad", "func":
		if len(v.Ops) == 0 {
			c.NilOrEmpty = true
		}
		c.ops(v.Ops, depth+1)
	case "arr", "arrm":
		if len(v.L) == 0 {
			c.NilOrEmpty = true
		}
		for _, e := range v.L {
			c.val(e, depth+1)
		}
	default:
		if _, ok := ElemType[v.T]; ok {
			if len(v.L) == 0 {
				c.NilOrEmpty = true
			}
			for _, e := range v.L {
				c.val(e, depth)
			}
		}
	}
	if v.If != nil {
		c.iface(v.If, depth)
	}
}

func (c *Class) iface(i *Iface, depth int) {
	if !plain(i.S) {
		c.NonASCII = true
	}
	if i.K == "nil" || i.K == "ptrnil" {
		c.NilOrEmpty = true
	}
	for k := range i.L {
		c.iface(&i.L[k], depth+1)
	}
	for _, k := range i.MK {
		if !plain(k) {
			c.NonASCII = true
		}
	}
	c.ops(i.Ops, depth+1)
}

func (c *Class) ops(ops []Op, depth int) {
	for _, op := range ops {
		if !plain(op.K) {
			c.NonASCII = true
		}
		c.val(op.V, depth)
	}
}

func Classify(p *Program) Class {
	c := Class{Types: map[string]bool{}}
	d := DefaultSettings()
	s := p.Set
	if s.LevelField != nil || s.MessageField != nil || s.TimeField != nil || s.ErrorField != nil || s.CallerField != nil || s.StackField != nil || s.LevelValues != nil ||
		s.TimeFormat != d.TimeFormat || s.DurUnit != 0 || s.DurInt || s.FloatPrec != -1 || s.ErrMarshal != "" || s.StackMarshal != "" || s.IfaceMarshal != "" {
		c.NonDefaultSet = true
	}
	for _, st := range p.Steps {
		if len(st.Ops) > 0 {
			c.HasCtx = true
		}
		c.ops(st.Ops, 1)
		for _, h := range st.Hooks {
			if h.Kind == "add" && len(h.Ops) > 0 || h.Kind == "getctx" || h.Kind == "getctxif" {
				c.HasHook = true
			}
			c.ops(h.Ops, 1)
		}
	}
	for _, e := range p.Events {
		if len(e.Ops) > 0 {
			c.HasEvField = true
		}
		c.ops(e.Ops, 1)
		if !plain(e.Msg) {
			c.NonASCII = true
		}
	}
	c.Deep = c.MaxDepth >= 2
	c.CtxHookEvent = c.HasCtx && c.HasHook && c.HasEvField
	return c
}
