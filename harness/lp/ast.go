// Package lp defines "logging programs": a serialisable description of a
// complete zerolog experiment (global settings, logger derivation, events),
// an interpreter that executes it against the public API, rapid generators,
// and an expected-value model that does not reuse zerolog's encoders.
package lp

// Val is a typed value to be logged.
//
// T names the API type:
//
//	scalars:  str stringer bytes hex rawjson rawcbor bool
//	          int int8 int16 int32 int64 uint uint8 uint16 uint32 uint64
//	          float32 float64 time dur timediff timestamp
//	          err anerr iface type ip ipnet mac caller
//	slices:   strs stringers bools ints ints8 ints16 ints32 ints64
//	          uints uints8 uints16 uints32 uints64 floats32 floats64 times durs errs
//	nested:   dict arr arrm obj embed fieldsmap fieldsslice func
//	flags:    stack (Event.Stack / Context.Stack), ctx (Go context with marker S)
type Val struct {
	T    string `json:"t"`
	S    []byte `json:"s,omitempty"`    // text/bytes payload
	I    int64  `json:"i,omitempty"`    // signed ints, durations (ns)
	U    uint64 `json:"u,omitempty"`    // unsigned ints, float bit patterns
	B    bool   `json:"b,omitempty"`    // bool
	Sec  int64  `json:"sec,omitempty"`  // time: unix seconds
	Nsec int64  `json:"nsec,omitempty"` // time: nanoseconds
	Zone int    `json:"zone,omitempty"` // time: fixed zone offset (seconds east of UTC)
	Zero bool   `json:"zero,omitempty"` // time: the zero time.Time
	Sec2 int64  `json:"sec2,omitempty"` // timediff: start
	Nse2 int64  `json:"nsec2,omitempty"`
	Nil  bool   `json:"nil,omitempty"`  // nil stringer / nil []byte / nil slice / nil marshaler / nil pointer (Ptr)
	Ptr  bool   `json:"ptr,omitempty"`  // Fields only: pass *T instead of T
	EK   string `json:"ek,omitempty"`   // error kind: plain | nil | typednil | objerr
	Bits int    `json:"bits,omitempty"` // ipnet: prefix length
	L    []Val  `json:"l,omitempty"`    // slice / array elements
	Ops  []Op   `json:"ops,omitempty"`  // dict / obj / embed / fields / func sub-fields
	If   *Iface `json:"if,omitempty"`   // interface value
}

// Iface describes a value passed through Interface/Any (or the default arm
// of Fields). Kinds: nil str int float bool list map struct rawmsg unmarshalable
// objmarshaler (Ops) ptrnil.
type Iface struct {
	K   string   `json:"k"`
	S   []byte   `json:"s,omitempty"`
	I   int64    `json:"i,omitempty"`
	F   uint64   `json:"f,omitempty"`
	B   bool     `json:"b,omitempty"`
	L   []Iface  `json:"l,omitempty"`
	MK  [][]byte `json:"mk,omitempty"` // map keys (parallel to L)
	Ops []Op     `json:"ops,omitempty"`
}

// Op is one field-adding call: key plus value (key unused for embed, fields*,
// func, stack, ctx, timestamp, caller and inside arrays).
type Op struct {
	K []byte `json:"k,omitempty"`
	V Val    `json:"v"`
	// BadKey (inside fieldsslice only): the key position holds a non-string value (an int), so the
	// pair must be ignored, as documented for Fields
	BadKey bool `json:"bad_key,omitempty"`
}

// Settings are zerolog's package-level knobs, set before and restored after
// each program.
type Settings struct {
	LevelField   *[]byte `json:"level_field,omitempty"` // nil = default
	MessageField *[]byte `json:"message_field,omitempty"`
	TimeField    *[]byte `json:"time_field,omitempty"`
	ErrorField   *[]byte `json:"error_field,omitempty"`
	CallerField  *[]byte `json:"caller_field,omitempty"`
	StackField   *[]byte `json:"stack_field,omitempty"`
	LevelValues  *[]byte `json:"level_values,omitempty"` // prefix applied to all Level*Value strings
	TimeFormat   string  `json:"time_format"`            // "RFC3339" default; "" unix; UNIXMS; UNIXMICRO; UNIXNANO; other = layout
	// DefaultCtx: zerolog.DefaultContextLogger is set (a logger writing {"via":"default-context-logger"} to
	// the root destination): what Ctx returns for a context that carries no logger
	DefaultCtx   bool   `json:"default_ctx_logger,omitempty"`
	DurUnit      int64  `json:"dur_unit"` // 0 = default (ms); -1 = DurationFieldUnit 0 (float mode only)
	DurInt       bool   `json:"dur_int,omitempty"`
	FloatPrec    int    `json:"float_prec"`              // -1 default
	ErrMarshal   string `json:"err_marshal,omitempty"`   // "" identity | string | obj | othererr | nil | struct
	StackMarshal string `json:"stack_marshal,omitempty"` // "" unset | nil | string | error | obj | frames | nilerr (typed-nil error)
	IfaceMarshal string `json:"iface_marshal,omitempty"` // "" default | stdjson | wrap | fail (an error with the text IfaceErr for every non-nil value)
	IfaceErr     string `json:"iface_err,omitempty"`
	ClockSec     int64  `json:"clock_sec,omitempty"`
	ClockNsec    int64  `json:"clock_nsec,omitempty"`
	// LevelMarshal: "" default (Level.String) | upper | merged (not injective: trace=debug, error=fatal=panic) | total (a total mapping in the style of syslog
	// severities: every level, NoLevel and Disabled included, has a non-empty text of its own)
	LevelMarshal string `json:"level_marshal,omitempty"`
	// GlobalLow: 0 = global level Trace (the default); n > 0 = SetGlobalLevel(Level(-n)), which
	// admits the custom verbose levels below Trace that log.go documents as legal
	GlobalLow int `json:"global_low,omitempty"`
}

// HookSpec: kinds  add (Ops are added to the event) | discard | getctx (adds
// field K with the marker found in the event's Go context) | noop.
// Wrap: "" direct struct | func (HookFunc) | level (LevelHook with every slot set) | levelsome |
// nilptr, nilfield (hooks whose interface data word is nil; they add NilHookKey="ran").
type HookSpec struct {
	Kind string `json:"kind"`
	Wrap string `json:"wrap,omitempty"`
	ID   int    `json:"id"`
	Ops  []Op   `json:"ops,omitempty"`
	K    []byte `json:"k,omitempty"`
}

// Step derives a logger from the previous one.
//
//	with    l.With() <Ops> .Logger()   (Ops may include stack/ctx/timestamp/caller pseudo values and "reset")
//	hook    l.Hook(hooks...)
//	level   l.Level(L)
//	viactx  *zerolog.Ctx(l.WithContext(ctx))   (N=1: ctx already carries another logger; N=0 and l Disabled: the no-op logger)
//	sample  l.Sample(...)  (Sampler: all | none | basicN)
//	output  l.Output(new buffer)
//	update  l.UpdateContext(Ops)  (only directly after a with step)
//	rehook  *l = l.Hook(hooks...)  (the logger variable is reassigned in place, as update does for the context)
//	updatedefault  zerolog.Ctx(context.Background()).UpdateContext(Ops); the node is a copy of that logger afterwards
type Step struct {
	Kind    string     `json:"kind"`
	From    *int       `json:"from,omitempty"` // parent node: nil = the previous node (chain); -1 = root; i = result of Steps[i]
	Ops     []Op       `json:"ops,omitempty"`
	Hooks   []HookSpec `json:"hooks,omitempty"`
	Level   int        `json:"level,omitempty"`
	Sampler string     `json:"sampler,omitempty"`
	N       uint32     `json:"n,omitempty"`
}

// EventSpec: one event logged through the derived logger.
// Method: trace debug info warn error log err(Val in ErrV) withlevel(Level)
// Fin: msg msgf msgfunc send
type EventSpec struct {
	Node   *int   `json:"node,omitempty"` // logger node: nil = last node; -1 = root; i = result of Steps[i]
	Method string `json:"method"`
	Level  int    `json:"level,omitempty"`
	ErrV   *Val   `json:"errv,omitempty"`
	Ops    []Op   `json:"ops,omitempty"`
	Fin    string `json:"fin"`
	Msg    []byte `json:"msg,omitempty"`
}

// Act orders execution: K = step | event | open | fin ; I = index into Steps / Events.
// "open" starts an event and applies its field ops, "fin" finalises it later (several
// events may be open at once); "event" does both.
type Act struct {
	K string `json:"k"`
	I int    `json:"i"`
}

type Program struct {
	Set    Settings    `json:"settings"`
	Steps  []Step      `json:"steps,omitempty"`
	Events []EventSpec `json:"events"`
	Order  []Act       `json:"order,omitempty"` // nil = all steps, then all events
}

// Acts returns the execution order (explicit or default).
func (p *Program) Acts() []Act {
	if p.Order != nil {
		return p.Order
	}
	var a []Act
	for i := range p.Steps {
		a = append(a, Act{"step", i})
	}
	for i := range p.Events {
		a = append(a, Act{"event", i})
	}
	return a
}

// ParentOf resolves the parent node of step i (-1 = root).
func (p *Program) ParentOf(i int) int {
	if p.Steps[i].From != nil {
		return *p.Steps[i].From
	}
	return i - 1
}

// NodeOf resolves the node an event logs through.
func (p *Program) NodeOf(j int) int {
	if p.Events[j].Node != nil {
		return *p.Events[j].Node
	}
	return len(p.Steps) - 1
}
