package lp

// Helpers to construct programs by hand (exhaustive campaigns).

func P(set Settings, steps []Step, evs ...EventSpec) *Program {
	return &Program{Set: set, Steps: steps, Events: evs}
}

func Ev(ops ...Op) EventSpec { return EventSpec{Method: "info", Ops: ops, Fin: "send"} }

func KV(k string, v Val) Op { return Op{K: []byte(k), V: v} }

func With(ops ...Op) Step { return Step{Kind: "with", Ops: ops} }

// ArrayTypes: scalar types that Array has a method for.
var ArrayTypes = map[string]bool{"str": true, "bytes": true, "hex": true, "rawjson": true, "anerr": true, "bool": true, "int": true, "int8": true, "int16": true, "int32": true, "int64": true,
	"uint": true, "uint8": true, "uint16": true, "uint32": true, "uint64": true, "float32": true, "float64": true, "time": true, "dur": true, "iface": true, "ip": true, "ipnet": true, "mac": true}

// FieldsTypes: scalar types Fields() has a native arm for.
var FieldsTypes = map[string]bool{"str": true, "bytes": true, "anerr": true, "bool": true, "int": true, "int8": true, "int16": true, "int32": true, "int64": true,
	"uint": true, "uint8": true, "uint16": true, "uint32": true, "uint64": true, "float32": true, "float64": true, "time": true, "dur": true, "ip": true, "ipnet": true, "mac": true, "rawjson": true}

var PtrTypes = map[string]bool{"str": true, "bool": true, "int": true, "int8": true, "int16": true, "int32": true, "int64": true,
	"uint": true, "uint8": true, "uint16": true, "uint32": true, "uint64": true, "float32": true, "float64": true, "time": true, "dur": true}

// SliceOf maps an element type to its slice variant.
var SliceOf = map[string]string{"str": "strs", "stringer": "stringers", "bool": "bools", "int": "ints", "int8": "ints8", "int16": "ints16", "int32": "ints32", "int64": "ints64",
	"uint": "uints", "uint8": "uints8", "uint16": "uints16", "uint32": "uints32", "uint64": "uints64", "float32": "floats32", "float64": "floats64", "time": "times", "dur": "durs", "anerr": "errs"}

// AllEntryPoints builds a program that logs v through every entry point that can carry
// its type. Keys name the entry point.
func AllEntryPoints(set Settings, v Val) *Program {
	var ops []Op
	ops = append(ops, KV("event", v))
	ops = append(ops, KV("dict", Val{T: "dict", Ops: []Op{KV("x", v)}}))
	ops = append(ops, KV("obj", Val{T: "obj", Ops: []Op{KV("x", v)}}))
	ops = append(ops, Op{V: Val{T: "embed", Ops: []Op{KV("embed", v)}}})
	ops = append(ops, Op{V: Val{T: "func", Ops: []Op{KV("func", v)}}})
	if ArrayTypes[v.T] {
		ops = append(ops, KV("arr", Val{T: "arr", L: []Val{v}}))
		ops = append(ops, KV("arrm", Val{T: "arrm", L: []Val{v}}))
	}
	if FieldsTypes[v.T] && v.T != "uints8" {
		ops = append(ops, Op{V: Val{T: "fieldsmap", Ops: []Op{KV("fmap", v)}}})
		ops = append(ops, Op{V: Val{T: "fieldsslice", Ops: []Op{KV("fslice", v)}}})
	}
	if PtrTypes[v.T] && !v.Zero {
		pv := v
		pv.Ptr = true
		ops = append(ops, Op{V: Val{T: "fieldsslice", Ops: []Op{KV("fptr", pv)}}})
	}
	if st, ok := SliceOf[v.T]; ok && !(v.T == "anerr" && v.EK == "objerr") {
		ops = append(ops, KV("slice", Val{T: st, L: []Val{v, v}}))
		if st != "uints8" && st != "stringers" {
			ops = append(ops, Op{V: Val{T: "fieldsslice", Ops: []Op{KV("fsl", Val{T: st, L: []Val{v}})}}})
		}
	}
	cops := []Op{KV("ctx", v)}
	if v.T != "rawcbor" && v.T != "timediff" {
		return P(set, []Step{With(cops...)}, Ev(ops...))
	}
	return P(set, nil, Ev(ops...))
}
