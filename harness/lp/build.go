package lp

// Helpers to construct programs by hand (exhaustive campaigns).

func P(set Settings, steps []Step, evs ...EventSpec) *Program {
	return &Program{Set: set, Steps: steps, Events: evs}
}

func Ev(ops ...Op) EventSpec { return EventSpec{Method: "info", Ops: ops, Fin: "send"} }

func KV(k string, v Val) Op { return Op{K: []byte(k), V: v} }

func With(ops ...Op) Step { return Step{Kind: "with", Ops: ops} }

// ArrayTypes: scalar types that Array has a method for.
var ArrayTypes = map[string]bool{"str": true, "bytes": true, "hex": true, "rawjson": true, "anerr": true, "bool": true, "int": true, "int8": true, "int16": true, "int32": true, "int64": true,
	"uint": true, "uint8": true, "uint16": true, "uint32": true, "uint64": true, "float32": true, "float64": true, "time": true, "dur": true, "iface": true, "ip": true, "ipnet": true, "mac": true}

// FieldsTypes: scalar types Fields() has a native arm for.
var FieldsTypes = map[string]bool{"str": true, "bytes": true, "anerr": true, "bool": true, "int": true, "int8": true, "int16": true, "int32": true, "int64": true,
	"uint": true, "uint8": true, "uint16": true, "uint32": true, "uint64": true, "float32": true, "float64": true, "time": true, "dur": true, "ip": true, "ipnet": true, "mac": true, "rawjson": true}

var PtrTypes = map[string]bool{"str": true, "bool": true, "int": true, "int8": true, "int16": true, "int32": true, "int64": true,
	"uint": true, "uint8": true, "uint16": true, "uint32": true, "uint64": true, "float32": true, "float64": true, "time": true, "dur": true}

// SliceOf maps an element type to its slice variant.
var SliceOf = map[string]string{"str": "strs", "stringer": "stringers", "bool": "bools", "int": "ints", "int8": "ints8", "int16": "ints16", "int32": "ints32", "int64": "ints64",
	"uint": "uints", "uint8": "uints8", "uint16": "uints16", "uint32": "uints32", "uint64": "uints64", "float32": "floats32", "float64": "floats64", "time": "times", "dur": "durs", "anerr": "errs"}

// AllEntryPoints builds a program that logs v through every entry point that can carry
// its type. Keys name the entry point.
func AllEntryPoints(set Settings, v Val) *Program {
	var ops []Op
	ops = append(ops, KV("ep:event", v))
	ops = append(ops, KV("ep:dict", Val{T: "dict", Ops: []Op{KV("x", v)}}))
	ops = append(ops, KV("ep:obj", Val{T: "obj", Ops: []Op{KV("x", v)}}))
	ops = append(ops, Op{V: Val{T: "embed", Ops: []Op{KV("ep:embed", v)}}})
	ops = append(ops, Op{V: Val{T: "func", Ops: []Op{KV("ep:func", v)}}})
	if ArrayTypes[v.T] {
		ops = append(ops, KV("ep:arr", Val{T: "arr", L: []Val{v}}))
		ops = append(ops, KV("ep:arrm", Val{T: "arrm", L: []Val{v}}))
	}
	if FieldsTypes[v.T] && v.T != "uints8" {
		ops = append(ops, Op{V: Val{T: "fieldsmap", Ops: []Op{KV("ep:fmap", v)}}})
		ops = append(ops, Op{V: Val{T: "fieldsslice", Ops: []Op{KV("ep:fslice", v)}}})
	}
	if PtrTypes[v.T] && !v.Zero {
		pv := v
		pv.Ptr = true
		ops = append(ops, Op{V: Val{T: "fieldsslice", Ops: []Op{KV("ep:fptr", pv)}}})
	}
	if st, ok := SliceOf[v.T]; ok && !(v.T == "anerr" && v.EK == "objerr") {
		ops = append(ops, KV("ep:slice", Val{T: st, L: []Val{v, v}}))
		if st != "uints8" && st != "stringers" {
			ops = append(ops, Op{V: Val{T: "fieldsslice", Ops: []Op{KV("ep:fsl", Val{T: st, L: []Val{v}})}}})
		}
	}
	cops := []Op{KV("ep:ctx", v)}
	if v.T != "rawcbor" && v.T != "timediff" {
		return P(set, []Step{With(cops...)}, Ev(ops...))
	}
	return P(set, nil, Ev(ops...))
}

// Isolate returns the program reduced to event j and the derivation steps on the path
// from the root to the node it logs through (including UpdateContext steps applied to
// nodes on that path); sibling derivations and all other events are dropped. Indices are
// renumbered. Used as a metamorphic reference: what the same derivation path emits alone.
// InPlace: step kinds that change the logger variable they are applied to instead of deriving a new one.
func InPlace(kind string) bool { return kind == "update" || kind == "rehook" }

func Isolate(p *Program, j int) *Program {
	keep := map[int]bool{}
	// resolve aliasing of update steps: node identity
	ident := func(i int) int {
		for i >= 0 && InPlace(p.Steps[i].Kind) {
			i = p.ParentOf(i)
		}
		return i
	}
	onPath := map[int]bool{}
	for n := ident(p.NodeOf(j)); n >= 0; n = ident(p.ParentOf(n)) {
		onPath[n] = true
	}
	for i := range p.Steps {
		if onPath[ident(i)] {
			keep[i] = true
		}
	}
	q := &Program{Set: p.Set}
	renum := map[int]int{-1: -1}
	// steps keep their relative order of execution
	// an UpdateContext on a path node that happens after its on-path child was derived cannot
	// concern the event (the child took its copy / slice header before): it is other activity
	frozen := map[int]bool{}
	for _, a := range p.Acts() {
		if a.K == "step" && keep[a.I] {
			if InPlace(p.Steps[a.I].Kind) && frozen[ident(a.I)] {
				continue
			}
			if !InPlace(p.Steps[a.I].Kind) {
				frozen[ident(p.ParentOf(a.I))] = true
			}
			st := p.Steps[a.I]
			par := renum[p.ParentOf(a.I)]
			st.From = &par
			renum[a.I] = len(q.Steps)
			q.Steps = append(q.Steps, st)
		}
		if (a.K == "event" || a.K == "open") && a.I == j {
			ev := p.Events[j]
			nd := renum[p.NodeOf(j)]
			// updates applied to the node after the event was opened must not be included
			ev.Node = &nd
			q.Events = []EventSpec{ev}
			for i := range q.Steps {
				q.Order = append(q.Order, Act{"step", i})
			}
			q.Order = append(q.Order, Act{"event", 0})
			return q
		}
	}
	return q
}
