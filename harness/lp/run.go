package lp

import (
	"context"
	"encoding/json"
	"errors"
	"fmt"
	"io"
	stdlog "log"
	"math"
	"net"
	"strconv"
	"strings"
	"sync"
	"time"

	pkgerr "github.com/pkg/errors"
	"github.com/rs/zerolog"
	"github.com/rs/zerolog/pkgerrors"
)

// ---------------------------------------------------------------- values

func (v Val) Time() time.Time {
	if v.Zero {
		return time.Time{}
	}
	t := time.Unix(v.Sec, v.Nsec)
	if v.Zone != 0 {
		return t.In(time.FixedZone("Z", v.Zone))
	}
	return t.UTC()
}

func (v Val) Time2() time.Time { return time.Unix(v.Sec2, v.Nse2).UTC() }

type strer struct{ s string }

func (s strer) String() string { return s.s }

// ptrStrer is a pointer-typed Stringer whose String method is safe on a nil receiver (like
// *time.Location, *big.Int or *url.URL): a nil pointer of it still prints something.
type ptrStrer struct{ s string }

const nilStrerText = "<nil *ptrStrer>"

func (p *ptrStrer) String() string {
	if p == nil {
		return nilStrerText
	}
	return p.s
}

// sliceErr is an error of slice kind; its nil value is still an error with a text.
type sliceErr []string

const sliceErrText = "slice error with no entries"

func (s sliceErr) Error() string {
	if len(s) == 0 {
		return sliceErrText
	}
	return s[0]
}

// mkStringer builds the Stringer a Val of type stringer stands for.
func mkStringer(v Val) fmt.Stringer {
	switch {
	case v.Nil:
		return nil
	case v.EK == "nilsafe":
		return (*ptrStrer)(nil)
	case v.EK == "ptr":
		return &ptrStrer{string(v.S)}
	}
	return strer{string(v.S)}
}

type ptrErr struct{ s string }

func (p *ptrErr) Error() string {
	if p == nil {
		return "typednil"
	}
	return p.s
}

// objErr is an error that is also a LogObjectMarshaler.
type objErr struct{ s string }

func (o *objErr) Error() string { return o.s }
func (o *objErr) MarshalZerologObject(e *zerolog.Event) {
	e.Str("objerr", o.s)
}

type ctxKey struct{}

// CtxWith returns a Go context carrying marker m.
func CtxWith(m string) context.Context {
	return context.WithValue(context.Background(), ctxKey{}, m)
}

type ctxKey2 struct{}

// ctxOf builds the context a Val of type ctx stands for: EK "alt" carries its marker under another key
// (and nothing under the usual one: a context of a different part of the program).
func ctxOf(v Val) context.Context {
	switch v.EK {
	case "alt":
		return context.WithValue(context.Background(), ctxKey2{}, string(v.S))
	case "cancelled": // a request context that is over already
		return context.WithValue(cancelledParent, ctxKey{}, string(v.S))
	case "deadline": // one with a deadline (a day away)
		return context.WithValue(deadlineParent, ctxKey{}, string(v.S))
	}
	return CtxWith(string(v.S))
}

var cancelledParent, deadlineParent = func() (context.Context, context.Context) {
	c, cancel := context.WithCancel(context.Background())
	cancel()
	d, _ := context.WithDeadline(context.Background(), time.Now().Add(24*time.Hour)) //nolint: the process ends long before
	return c, d
}()

// ctxState is what a hook sees of a context besides its values: whether it is over, whether it has a deadline.
func ctxState(c context.Context) string {
	s := ""
	if c.Err() != nil {
		s += "|cancelled"
	}
	if _, ok := c.Deadline(); ok {
		s += "|deadline"
	}
	return s
}

// CtxMarker extracts the marker ("" for background, "alt:"+marker for a context that carries one under the
// other key only).
func CtxMarker(c context.Context) string {
	if c == nil {
		return "<nil-context>"
	}
	if s, ok := c.Value(ctxKey{}).(string); ok {
		return s + ctxState(c)
	}
	if s, ok := c.Value(ctxKey2{}).(string); ok {
		return "alt:" + s + ctxState(c)
	}
	return "" + ctxState(c)
}

func mkErr(v Val) error {
	switch v.EK {
	case "nil":
		return nil
	case "typednil":
		return (*ptrErr)(nil)
	case "objerr":
		return &objErr{string(v.S)}
	case "nilslice":
		return sliceErr(nil) // an error of slice type (like scanner.ErrorList) holding a nil slice: not a nil error
	case "stacked":
		return pkgerr.New(string(v.S)) // github.com/pkg/errors: carries a stack trace for pkgerrors.MarshalStack
	}
	return errors.New(string(v.S))
}

// objM replays Ops on the event it is given.
type objM struct {
	ops []Op
}

func (o *objM) MarshalZerologObject(e *zerolog.Event) {
	if o == nil {
		return // a nil-safe pointer receiver: the nil pointer is an object without fields
	}
	ApplyEvent(e, o.ops)
}

// mapObjM is a map type that logs itself; the nil map is an object without fields.
type mapObjM map[string]string

func (m mapObjM) MarshalZerologObject(e *zerolog.Event) {
	for k, v := range m {
		e.Str(k, v)
	}
}

// mkObj builds the LogObjectMarshaler a Val of type obj/embed stands for: EK "nilptr" is a typed nil pointer
// whose method copes, "nilmap" a nil map with a value receiver (both non-nil interfaces, both {}).
func mkObj(v Val) zerolog.LogObjectMarshaler {
	switch v.EK {
	case "nilptr":
		return (*objM)(nil)
	case "nilmap":
		return mapObjM(nil)
	}
	return &objM{v.Ops}
}

// arrM replays elements on the array it is given.
type arrM struct{ l []Val }

func (a *arrM) MarshalZerologArray(arr *zerolog.Array) { ApplyArray(arr, a.l) }

type unmarshalable struct{ C chan int }

// badMarshal fails to marshal with an error text of the generator's choosing (any bytes).
// indentMarshal renders itself as indented, multi-line JSON (what json.MarshalIndent gives a type that
// wants to look nice in files): whatever marshals it for an event has to compact that.
type indentMarshal struct {
	A string
	N int64
}

func (m indentMarshal) MarshalJSON() ([]byte, error) {
	b, err := json.MarshalIndent(map[string]interface{}{"a": m.A, "n": m.N, "l": []interface{}{1, "two", nil}}, "", "  ")
	return append(append([]byte("\n "), b...), "\n\t"...), err
}

type badMarshal struct{ msg string }

func (b badMarshal) MarshalJSON() ([]byte, error) { return nil, errors.New(b.msg) }

type jstruct struct {
	A string  `json:"a"`
	N int64   `json:"n"`
	F float64 `json:"f,omitempty"`
	P *int    `json:"p"`
}

// Go value of an Iface description.
func (i *Iface) Go() interface{} {
	if i == nil {
		return nil
	}
	switch i.K {
	case "nil":
		return nil
	case "str":
		return string(i.S)
	case "int":
		return i.I
	case "float":
		return math.Float64frombits(i.F)
	case "bool":
		return i.B
	case "list":
		l := make([]interface{}, len(i.L))
		for k := range i.L {
			l[k] = i.L[k].Go()
		}
		return l
	case "map":
		m := map[string]interface{}{}
		for k := range i.L {
			m[string(i.MK[k])] = i.L[k].Go()
		}
		return m
	case "struct":
		return jstruct{A: string(i.S), N: i.I, F: math.Float64frombits(i.F)}
	case "rawmsg":
		return json.RawMessage(i.S)
	case "indentmarshal":
		return indentMarshal{A: string(i.S), N: i.I}
	case "unmarshalable":
		return unmarshalable{}
	case "badmarshal":
		return badMarshal{string(i.S)}
	case "objmarshaler":
		return &objM{i.Ops}
	case "ptrnil":
		return (*jstruct)(nil)
	case "anon":
		// an anonymous struct with field tags: its type name contains quotes and backslashes
		return struct {
			A string `json:"a,omitempty" db:"col\\a"`
			N int64  `json:"n"`
		}{string(i.S), i.I}
	case "anonptr":
		return &struct {
			A string `json:"a" note:"say \"hi\""`
		}{string(i.S)}
	case "anonslice":
		return []struct {
			N int64 `json:"n,string"`
		}{{i.I}, {-i.I}}
	}
	panic("lp: unknown iface kind " + i.K)
}

func strs(l []Val) []string {
	if l == nil {
		return nil
	}
	o := make([]string, len(l))
	for i, v := range l {
		o[i] = string(v.S)
	}
	return o
}

func ip(v Val) net.IP {
	if v.Nil {
		return nil
	}
	return net.IP(append([]byte{}, v.S...))
}

func ipnet(v Val) net.IPNet {
	return net.IPNet{IP: net.IP(append([]byte{}, v.S...)), Mask: net.CIDRMask(v.Bits, 8*len(v.S))}
}

func mac(v Val) net.HardwareAddr {
	if v.Nil {
		return nil
	}
	return net.HardwareAddr(append([]byte{}, v.S...))
}

func bytesOf(v Val) []byte {
	if v.Nil {
		return nil
	}
	return append([]byte{}, v.S...)
}

func sliceInts(l []Val) []int64 {
	o := make([]int64, len(l))
	for i, v := range l {
		o[i] = v.I
	}
	return o
}

// slice helpers (nil when Val.Nil)
func mkSlice[T any](v Val, f func(Val) T) []T {
	if v.Nil {
		return nil
	}
	o := make([]T, len(v.L))
	for i, e := range v.L {
		o[i] = f(e)
	}
	return o
}

// BuildDict builds a *zerolog.Event via zerolog.Dict() and applies ops.
func BuildDict(ops []Op) *zerolog.Event { return ApplyEvent(zerolog.Dict(), ops) }

// ApplyEvent applies ops to e in order (e may be nil = filtered event).
func ApplyEvent(e *zerolog.Event, ops []Op) *zerolog.Event {
	for _, op := range ops {
		k := string(op.K)
		v := op.V
		switch v.T {
		case "str":
			e = e.Str(k, string(v.S))
		case "stringer":
			e = e.Stringer(k, mkStringer(v))
		case "bytes":
			e = e.Bytes(k, bytesOf(v))
		case "hex":
			e = e.Hex(k, bytesOf(v))
		case "rawjson":
			e = e.RawJSON(k, v.S)
		case "rawcbor":
			e = e.RawCBOR(k, v.S)
		case "bool":
			e = e.Bool(k, v.B)
		case "int":
			e = e.Int(k, int(v.I))
		case "int8":
			e = e.Int8(k, int8(v.I))
		case "int16":
			e = e.Int16(k, int16(v.I))
		case "int32":
			e = e.Int32(k, int32(v.I))
		case "int64":
			e = e.Int64(k, v.I)
		case "uint":
			e = e.Uint(k, uint(v.U))
		case "uint8":
			e = e.Uint8(k, uint8(v.U))
		case "uint16":
			e = e.Uint16(k, uint16(v.U))
		case "uint32":
			e = e.Uint32(k, uint32(v.U))
		case "uint64":
			e = e.Uint64(k, v.U)
		case "float32":
			e = e.Float32(k, math.Float32frombits(uint32(v.U)))
		case "float64":
			e = e.Float64(k, math.Float64frombits(v.U))
		case "time":
			e = e.Time(k, v.Time())
		case "dur":
			e = e.Dur(k, time.Duration(v.I))
		case "timediff":
			e = e.TimeDiff(k, v.Time(), v.Time2())
		case "timestamp":
			e = e.Timestamp()
		case "err":
			e = e.Err(mkErr(v))
		case "anerr":
			e = e.AnErr(k, mkErr(v))
		case "iface":
			e = e.Interface(k, v.If.Go())
		case "any":
			e = e.Any(k, v.If.Go())
		case "type":
			e = e.Type(k, v.If.Go())
		case "ip":
			e = e.IPAddr(k, ip(v))
		case "ipnet":
			e = e.IPPrefix(k, ipnet(v))
		case "mac":
			e = e.MACAddr(k, mac(v))
		case "caller":
			e = e.Caller()
		case "stack":
			e = e.Stack()
		case "ctx":
			if v.Nil {
				e = e.Ctx(nil) // forget the context inherited from the logger: hooks see Background again
			} else {
				e = e.Ctx(ctxOf(v))
			}
		case "getctx":
			// Func-style read of the event's Go context, logged under K
			e = e.Func(func(e *zerolog.Event) { e.Str(k, CtxMarker(e.GetCtx())) })
		case "strs":
			e = e.Strs(k, mkSlice(v, func(x Val) string { return string(x.S) }))
		case "stringers":
			e = e.Stringers(k, mkSlice(v, mkStringer))
		case "bools":
			e = e.Bools(k, mkSlice(v, func(x Val) bool { return x.B }))
		case "ints":
			e = e.Ints(k, mkSlice(v, func(x Val) int { return int(x.I) }))
		case "ints8":
			e = e.Ints8(k, mkSlice(v, func(x Val) int8 { return int8(x.I) }))
		case "ints16":
			e = e.Ints16(k, mkSlice(v, func(x Val) int16 { return int16(x.I) }))
		case "ints32":
			e = e.Ints32(k, mkSlice(v, func(x Val) int32 { return int32(x.I) }))
		case "ints64":
			e = e.Ints64(k, mkSlice(v, func(x Val) int64 { return x.I }))
		case "uints":
			e = e.Uints(k, mkSlice(v, func(x Val) uint { return uint(x.U) }))
		case "uints8":
			e = e.Uints8(k, mkSlice(v, func(x Val) uint8 { return uint8(x.U) }))
		case "uints16":
			e = e.Uints16(k, mkSlice(v, func(x Val) uint16 { return uint16(x.U) }))
		case "uints32":
			e = e.Uints32(k, mkSlice(v, func(x Val) uint32 { return uint32(x.U) }))
		case "uints64":
			e = e.Uints64(k, mkSlice(v, func(x Val) uint64 { return x.U }))
		case "floats32":
			e = e.Floats32(k, mkSlice(v, func(x Val) float32 { return math.Float32frombits(uint32(x.U)) }))
		case "floats64":
			e = e.Floats64(k, mkSlice(v, func(x Val) float64 { return math.Float64frombits(x.U) }))
		case "times":
			e = e.Times(k, mkSlice(v, func(x Val) time.Time { return x.Time() }))
		case "durs":
			e = e.Durs(k, mkSlice(v, func(x Val) time.Duration { return time.Duration(x.I) }))
		case "errs":
			e = e.Errs(k, mkSlice(v, mkErr))
		case "dict":
			e = e.Dict(k, BuildDict(v.Ops))
		case "arr":
			e = e.Array(k, ApplyArray(zerolog.Arr(), v.L))
		case "arrm":
			e = e.Array(k, &arrM{v.L})
		case "obj":
			if v.Nil {
				e = e.Object(k, nil)
			} else {
				e = e.Object(k, mkObj(v))
			}
		case "embed":
			if v.Nil {
				e = e.EmbedObject(nil)
			} else {
				e = e.EmbedObject(mkObj(v))
			}
		case "fieldsmap":
			e = e.Fields(FieldsMap(v.Ops))
		case "fieldsslice":
			e = e.Fields(FieldsSlice(v.Ops))
		case "fieldsodd":
			e = e.Fields(append(FieldsSlice(v.Ops), "dangling-key"))
		case "fieldsbad":
			e = e.Fields(FieldsBad(v.I))
		case "func":
			ops := v.Ops
			e = e.Func(func(e *zerolog.Event) { ApplyEvent(e, ops) })
		default:
			panic("lp: ApplyEvent: unknown type " + v.T)
		}
	}
	return e
}

// ApplyContext applies ops to a Context.
func ApplyContext(c zerolog.Context, ops []Op) zerolog.Context {
	for _, op := range ops {
		k := string(op.K)
		v := op.V
		switch v.T {
		case "str":
			c = c.Str(k, string(v.S))
		case "stringer":
			c = c.Stringer(k, mkStringer(v))
		case "bytes":
			c = c.Bytes(k, bytesOf(v))
		case "hex":
			c = c.Hex(k, bytesOf(v))
		case "rawjson":
			c = c.RawJSON(k, v.S)
		case "bool":
			c = c.Bool(k, v.B)
		case "int":
			c = c.Int(k, int(v.I))
		case "int8":
			c = c.Int8(k, int8(v.I))
		case "int16":
			c = c.Int16(k, int16(v.I))
		case "int32":
			c = c.Int32(k, int32(v.I))
		case "int64":
			c = c.Int64(k, v.I)
		case "uint":
			c = c.Uint(k, uint(v.U))
		case "uint8":
			c = c.Uint8(k, uint8(v.U))
		case "uint16":
			c = c.Uint16(k, uint16(v.U))
		case "uint32":
			c = c.Uint32(k, uint32(v.U))
		case "uint64":
			c = c.Uint64(k, v.U)
		case "float32":
			c = c.Float32(k, math.Float32frombits(uint32(v.U)))
		case "float64":
			c = c.Float64(k, math.Float64frombits(v.U))
		case "time":
			c = c.Time(k, v.Time())
		case "dur":
			c = c.Dur(k, time.Duration(v.I))
		case "timestamp":
			c = c.Timestamp()
		case "err":
			c = c.Err(mkErr(v))
		case "anerr":
			c = c.AnErr(k, mkErr(v))
		case "iface":
			c = c.Interface(k, v.If.Go())
		case "any":
			c = c.Any(k, v.If.Go())
		case "type":
			c = c.Type(k, v.If.Go())
		case "ip":
			c = c.IPAddr(k, ip(v))
		case "ipnet":
			c = c.IPPrefix(k, ipnet(v))
		case "mac":
			c = c.MACAddr(k, mac(v))
		case "caller":
			c = c.Caller()
		case "stack":
			c = c.Stack()
		case "ctx":
			if v.Nil {
				c = c.Ctx(nil)
			} else {
				c = c.Ctx(ctxOf(v))
			}
		case "reset":
			c = c.Reset()
		case "strs":
			c = c.Strs(k, mkSlice(v, func(x Val) string { return string(x.S) }))
		case "bools":
			c = c.Bools(k, mkSlice(v, func(x Val) bool { return x.B }))
		case "ints":
			c = c.Ints(k, mkSlice(v, func(x Val) int { return int(x.I) }))
		case "ints8":
			c = c.Ints8(k, mkSlice(v, func(x Val) int8 { return int8(x.I) }))
		case "ints16":
			c = c.Ints16(k, mkSlice(v, func(x Val) int16 { return int16(x.I) }))
		case "ints32":
			c = c.Ints32(k, mkSlice(v, func(x Val) int32 { return int32(x.I) }))
		case "ints64":
			c = c.Ints64(k, mkSlice(v, func(x Val) int64 { return x.I }))
		case "uints":
			c = c.Uints(k, mkSlice(v, func(x Val) uint { return uint(x.U) }))
		case "uints8":
			c = c.Uints8(k, mkSlice(v, func(x Val) uint8 { return uint8(x.U) }))
		case "uints16":
			c = c.Uints16(k, mkSlice(v, func(x Val) uint16 { return uint16(x.U) }))
		case "uints32":
			c = c.Uints32(k, mkSlice(v, func(x Val) uint32 { return uint32(x.U) }))
		case "uints64":
			c = c.Uints64(k, mkSlice(v, func(x Val) uint64 { return x.U }))
		case "floats32":
			c = c.Floats32(k, mkSlice(v, func(x Val) float32 { return math.Float32frombits(uint32(x.U)) }))
		case "floats64":
			c = c.Floats64(k, mkSlice(v, func(x Val) float64 { return math.Float64frombits(x.U) }))
		case "times":
			c = c.Times(k, mkSlice(v, func(x Val) time.Time { return x.Time() }))
		case "durs":
			c = c.Durs(k, mkSlice(v, func(x Val) time.Duration { return time.Duration(x.I) }))
		case "errs":
			c = c.Errs(k, mkSlice(v, mkErr))
		case "dict":
			c = c.Dict(k, BuildDict(v.Ops))
		case "arr":
			c = c.Array(k, ApplyArray(zerolog.Arr(), v.L))
		case "arrm":
			c = c.Array(k, &arrM{v.L})
		case "obj":
			if v.Nil {
				c = c.Object(k, nil)
			} else {
				c = c.Object(k, mkObj(v))
			}
		case "embed":
			if v.Nil {
				c = c.EmbedObject(nil)
			} else {
				c = c.EmbedObject(mkObj(v))
			}
		case "fieldsmap":
			c = c.Fields(FieldsMap(v.Ops))
		case "fieldsslice":
			c = c.Fields(FieldsSlice(v.Ops))
		case "fieldsodd":
			c = c.Fields(append(FieldsSlice(v.Ops), "dangling-key"))
		case "fieldsbad":
			c = c.Fields(FieldsBad(v.I))
		default:
			panic("lp: ApplyContext: unknown type " + v.T)
		}
	}
	return c
}

// ApplyArray appends elements to a.
func ApplyArray(a *zerolog.Array, l []Val) *zerolog.Array {
	for _, v := range l {
		switch v.T {
		case "str":
			a = a.Str(string(v.S))
		case "bytes":
			a = a.Bytes(bytesOf(v))
		case "hex":
			a = a.Hex(bytesOf(v))
		case "rawjson":
			a = a.RawJSON(v.S)
		case "anerr", "err":
			a = a.Err(mkErr(v))
		case "bool":
			a = a.Bool(v.B)
		case "int":
			a = a.Int(int(v.I))
		case "int8":
			a = a.Int8(int8(v.I))
		case "int16":
			a = a.Int16(int16(v.I))
		case "int32":
			a = a.Int32(int32(v.I))
		case "int64":
			a = a.Int64(v.I)
		case "uint":
			a = a.Uint(uint(v.U))
		case "uint8":
			a = a.Uint8(uint8(v.U))
		case "uint16":
			a = a.Uint16(uint16(v.U))
		case "uint32":
			a = a.Uint32(uint32(v.U))
		case "uint64":
			a = a.Uint64(v.U)
		case "float32":
			a = a.Float32(math.Float32frombits(uint32(v.U)))
		case "float64":
			a = a.Float64(math.Float64frombits(v.U))
		case "time":
			a = a.Time(v.Time())
		case "dur":
			a = a.Dur(time.Duration(v.I))
		case "iface", "any":
			a = a.Interface(v.If.Go())
		case "ip":
			a = a.IPAddr(ip(v))
		case "ipnet":
			a = a.IPPrefix(ipnet(v))
		case "mac":
			a = a.MACAddr(mac(v))
		case "obj":
			a = a.Object(mkObj(v))
		case "dict":
			a = a.Dict(BuildDict(v.Ops))
		default:
			panic("lp: ApplyArray: unknown type " + v.T)
		}
	}
	return a
}

func ptrOf[T any](x T, isNil bool) *T {
	if isNil {
		return nil
	}
	return &x
}

// FieldsGo converts a value to what a user would put into Fields().
func FieldsGo(v Val) interface{} {
	if v.Ptr {
		switch v.T {
		case "str":
			return ptrOf(string(v.S), v.Nil)
		case "bool":
			return ptrOf(v.B, v.Nil)
		case "int":
			return ptrOf(int(v.I), v.Nil)
		case "int8":
			return ptrOf(int8(v.I), v.Nil)
		case "int16":
			return ptrOf(int16(v.I), v.Nil)
		case "int32":
			return ptrOf(int32(v.I), v.Nil)
		case "int64":
			return ptrOf(v.I, v.Nil)
		case "uint":
			return ptrOf(uint(v.U), v.Nil)
		case "uint8":
			return ptrOf(uint8(v.U), v.Nil)
		case "uint16":
			return ptrOf(uint16(v.U), v.Nil)
		case "uint32":
			return ptrOf(uint32(v.U), v.Nil)
		case "uint64":
			return ptrOf(v.U, v.Nil)
		case "float32":
			return ptrOf(math.Float32frombits(uint32(v.U)), v.Nil)
		case "float64":
			return ptrOf(math.Float64frombits(v.U), v.Nil)
		case "time":
			return ptrOf(v.Time(), v.Nil)
		case "dur":
			return ptrOf(time.Duration(v.I), v.Nil)
		}
		panic("lp: FieldsGo: no pointer form for " + v.T)
	}
	switch v.T {
	case "nil":
		return nil
	case "str":
		return string(v.S)
	case "bytes":
		return bytesOf(v)
	case "anerr", "err":
		return mkErr(v)
	case "errs":
		return mkSlice(v, mkErr)
	case "bool":
		return v.B
	case "int":
		return int(v.I)
	case "int8":
		return int8(v.I)
	case "int16":
		return int16(v.I)
	case "int32":
		return int32(v.I)
	case "int64":
		return v.I
	case "uint":
		return uint(v.U)
	case "uint8":
		return uint8(v.U)
	case "uint16":
		return uint16(v.U)
	case "uint32":
		return uint32(v.U)
	case "uint64":
		return v.U
	case "float32":
		return math.Float32frombits(uint32(v.U))
	case "float64":
		return math.Float64frombits(v.U)
	case "time":
		return v.Time()
	case "dur":
		return time.Duration(v.I)
	case "strs":
		return mkSlice(v, func(x Val) string { return string(x.S) })
	case "bools":
		return mkSlice(v, func(x Val) bool { return x.B })
	case "ints":
		return mkSlice(v, func(x Val) int { return int(x.I) })
	case "ints8":
		return mkSlice(v, func(x Val) int8 { return int8(x.I) })
	case "ints16":
		return mkSlice(v, func(x Val) int16 { return int16(x.I) })
	case "ints32":
		return mkSlice(v, func(x Val) int32 { return int32(x.I) })
	case "ints64":
		return mkSlice(v, func(x Val) int64 { return x.I })
	case "uints":
		return mkSlice(v, func(x Val) uint { return uint(x.U) })
	case "uints16":
		return mkSlice(v, func(x Val) uint16 { return uint16(x.U) })
	case "uints32":
		return mkSlice(v, func(x Val) uint32 { return uint32(x.U) })
	case "uints64":
		return mkSlice(v, func(x Val) uint64 { return x.U })
	case "floats32":
		return mkSlice(v, func(x Val) float32 { return math.Float32frombits(uint32(x.U)) })
	case "floats64":
		return mkSlice(v, func(x Val) float64 { return math.Float64frombits(x.U) })
	case "times":
		return mkSlice(v, func(x Val) time.Time { return x.Time() })
	case "durs":
		return mkSlice(v, func(x Val) time.Duration { return time.Duration(x.I) })
	case "ip":
		return ip(v)
	case "ipnet":
		return ipnet(v)
	case "mac":
		return mac(v)
	case "rawjson":
		return json.RawMessage(v.S)
	case "obj":
		return mkObj(v)
	case "iface", "any":
		return v.If.Go()
	}
	panic("lp: FieldsGo: unsupported type " + v.T)
}

// FieldsBad returns an argument Fields() documents as ignored: neither a
// map[string]interface{} nor a []interface{}.
func FieldsBad(sel int64) interface{} {
	switch sel % 5 {
	case 0:
		return nil
	case 1:
		return "a string"
	case 2:
		return map[string]string{"k": "v"}
	case 3:
		return []string{"k", "v"}
	}
	return 42
}

func FieldsMap(ops []Op) map[string]interface{} {
	m := make(map[string]interface{}, len(ops))
	for _, op := range ops {
		m[string(op.K)] = FieldsGo(op.V)
	}
	return m
}

func FieldsSlice(ops []Op) []interface{} {
	s := make([]interface{}, 0, 2*len(ops))
	for _, op := range ops {
		if op.BadKey {
			s = append(s, len(op.K), FieldsGo(op.V))
			continue
		}
		s = append(s, string(op.K), FieldsGo(op.V))
	}
	return s
}

// ---------------------------------------------------------------- settings

var setMu sync.Mutex

type saved struct {
	lf, mf, tf, ef, cf, sf      string
	lt, ld, li, lw, le, lfa, lp string
	tfmt                        string
	du                          time.Duration
	di                          bool
	fp                          int
	em                          func(error) interface{}
	sm                          func(error) interface{}
	im                          func(interface{}) ([]byte, error)
	ts                          func() time.Time
}

func errText(err error) string { return err.Error() }

type errObj struct{ s string }

func (o *errObj) MarshalZerologObject(e *zerolog.Event) { e.Str("msg", o.s) }

type errStruct struct {
	Msg string `json:"msg"`
}

func isNilErr(err error) bool {
	if err == nil {
		return true
	}
	if p, ok := err.(*ptrErr); ok && p == nil {
		return true
	}
	return false
}

// Apply installs the settings and returns a restore function. Programs must
// not run concurrently (package-level state).
func (s Settings) Apply() (restore func()) {
	setMu.Lock()
	o := saved{zerolog.LevelFieldName, zerolog.MessageFieldName, zerolog.TimestampFieldName, zerolog.ErrorFieldName, zerolog.CallerFieldName, zerolog.ErrorStackFieldName,
		zerolog.LevelTraceValue, zerolog.LevelDebugValue, zerolog.LevelInfoValue, zerolog.LevelWarnValue, zerolog.LevelErrorValue, zerolog.LevelFatalValue, zerolog.LevelPanicValue,
		zerolog.TimeFieldFormat, zerolog.DurationFieldUnit, zerolog.DurationFieldInteger, zerolog.FloatingPointPrecision,
		zerolog.ErrorMarshalFunc, zerolog.ErrorStackMarshaler, zerolog.InterfaceMarshalFunc, zerolog.TimestampFunc}
	set := func(dst *string, src *[]byte) {
		if src != nil {
			*dst = string(*src)
		}
	}
	if s.GlobalLow > 0 {
		zerolog.SetGlobalLevel(zerolog.Level(-s.GlobalLow))
	}
	oldLM := zerolog.LevelFieldMarshalFunc
	switch s.LevelMarshal {
	case "upper":
		zerolog.LevelFieldMarshalFunc = func(l zerolog.Level) string { return strings.ToUpper(l.String()) }
	case "total":
		zerolog.LevelFieldMarshalFunc = TotalLevelText
	case "merged":
		zerolog.LevelFieldMarshalFunc = MergedLevelText
	}
	set(&zerolog.LevelFieldName, s.LevelField)
	set(&zerolog.MessageFieldName, s.MessageField)
	set(&zerolog.TimestampFieldName, s.TimeField)
	set(&zerolog.ErrorFieldName, s.ErrorField)
	set(&zerolog.CallerFieldName, s.CallerField)
	set(&zerolog.ErrorStackFieldName, s.StackField)
	if s.LevelValues != nil {
		p := string(*s.LevelValues)
		zerolog.LevelTraceValue = p + "trace"
		zerolog.LevelDebugValue = p + "debug"
		zerolog.LevelInfoValue = p + "info"
		zerolog.LevelWarnValue = p + "warn"
		zerolog.LevelErrorValue = p + "error"
		zerolog.LevelFatalValue = p + "fatal"
		zerolog.LevelPanicValue = p + "panic"
	}
	zerolog.TimeFieldFormat = s.GoTimeFormat()
	if s.DurUnit > 0 {
		zerolog.DurationFieldUnit = time.Duration(s.DurUnit)
	} else if s.DurUnit == -1 && !s.DurInt {
		zerolog.DurationFieldUnit = 0
	}
	zerolog.DurationFieldInteger = s.DurInt
	zerolog.FloatingPointPrecision = s.FloatPrec
	switch s.ErrMarshal {
	case "string":
		zerolog.ErrorMarshalFunc = func(err error) interface{} {
			if isNilErr(err) {
				return nil
			}
			return "S:" + err.Error()
		}
	case "obj":
		zerolog.ErrorMarshalFunc = func(err error) interface{} {
			if isNilErr(err) {
				return nil
			}
			return &errObj{err.Error()}
		}
	case "othererr":
		zerolog.ErrorMarshalFunc = func(err error) interface{} {
			if isNilErr(err) {
				return nil
			}
			return errors.New("W:" + err.Error())
		}
	case "nil":
		zerolog.ErrorMarshalFunc = func(err error) interface{} { return nil }
	case "nilobj":
		// errors rendered as objects, and errors without details as a typed nil pointer of that type
		zerolog.ErrorMarshalFunc = func(err error) interface{} {
			if isNilErr(err) {
				return nil
			}
			return (*objM)(nil)
		}
	case "struct":
		zerolog.ErrorMarshalFunc = func(err error) interface{} {
			if isNilErr(err) {
				return nil
			}
			return errStruct{err.Error()}
		}
	}
	switch s.StackMarshal {
	case "nil":
		zerolog.ErrorStackMarshaler = func(err error) interface{} { return nil }
	case "string":
		zerolog.ErrorStackMarshaler = func(err error) interface{} { return "stack-of-error" }
	case "error":
		zerolog.ErrorStackMarshaler = func(err error) interface{} { return errors.New("stack-as-error") }
	case "obj":
		zerolog.ErrorStackMarshaler = func(err error) interface{} { return &errObj{"stack-obj"} }
	case "pkgerrors":
		zerolog.ErrorStackMarshaler = pkgerrors.MarshalStack // the marshaler the repository ships
	case "nilerr":
		// the usual errors.As idiom on an error that wraps nothing: a typed-nil error in an interface
		zerolog.ErrorStackMarshaler = func(err error) interface{} { var pe *ptrErr; return pe }
	case "frames":
		zerolog.ErrorStackMarshaler = func(err error) interface{} {
			return []map[string]string{{"func": "f", "line": "1"}, {"func": "g", "line": "2"}}
		}
	default:
		zerolog.ErrorStackMarshaler = nil
	}
	switch s.IfaceMarshal {
	case "fail":
		// the program's marshal function gives up on everything but nil, with a text of its own
		text := s.IfaceErr
		zerolog.InterfaceMarshalFunc = func(v interface{}) ([]byte, error) {
			if v == nil {
				return []byte("null"), nil
			}
			return nil, errors.New(text)
		}
	case "stdjson":
		zerolog.InterfaceMarshalFunc = json.Marshal
	case "wrap":
		// a marshal function that changes the *value*: a build that ignores the setting is visible
		zerolog.InterfaceMarshalFunc = func(v interface{}) ([]byte, error) {
			if v == nil {
				return []byte("null"), nil // zerolog renders nil Stringers / nil errors through this function too
			}
			b, err := json.Marshal(v)
			if err != nil {
				return nil, err
			}
			return append(append([]byte(`{"w":`), b...), '}'), nil
		}
	}
	clk := time.Unix(s.ClockSec, s.ClockNsec).UTC()
	zerolog.TimestampFunc = func() time.Time { return clk }
	return func() {
		zerolog.LevelFieldName, zerolog.MessageFieldName, zerolog.TimestampFieldName, zerolog.ErrorFieldName, zerolog.CallerFieldName, zerolog.ErrorStackFieldName = o.lf, o.mf, o.tf, o.ef, o.cf, o.sf
		zerolog.LevelTraceValue, zerolog.LevelDebugValue, zerolog.LevelInfoValue, zerolog.LevelWarnValue, zerolog.LevelErrorValue, zerolog.LevelFatalValue, zerolog.LevelPanicValue = o.lt, o.ld, o.li, o.lw, o.le, o.lfa, o.lp
		zerolog.TimeFieldFormat, zerolog.DurationFieldUnit, zerolog.DurationFieldInteger, zerolog.FloatingPointPrecision = o.tfmt, o.du, o.di, o.fp
		zerolog.ErrorMarshalFunc, zerolog.ErrorStackMarshaler, zerolog.InterfaceMarshalFunc, zerolog.TimestampFunc = o.em, o.sm, o.im, o.ts
		zerolog.SetGlobalLevel(zerolog.TraceLevel)
		zerolog.LevelFieldMarshalFunc = oldLM
		setMu.Unlock()
	}
}

// GoTimeFormat maps the serialised name to the zerolog constant / layout.
func (s Settings) GoTimeFormat() string {
	switch s.TimeFormat {
	case "RFC3339", "default":
		return time.RFC3339
	case "RFC3339Nano":
		return time.RFC3339Nano
	case "UNIX":
		return zerolog.TimeFormatUnix
	}
	return s.TimeFormat // UNIXMS, UNIXMICRO, UNIXNANO or a literal layout
}

// DefaultSettings are zerolog's defaults plus a fixed clock.
func DefaultSettings() Settings {
	return Settings{TimeFormat: "RFC3339", FloatPrec: -1, ClockSec: 1700000000, ClockNsec: 123456789}
}

// ---------------------------------------------------------------- hooks

// HookLog records every hook invocation of a run.
type HookCall struct {
	ID    int
	Level zerolog.Level
	Msg   string
	Ctx   string
}

type Rt struct {
	mu        sync.Mutex
	HookCalls []HookCall
}

type hookImpl struct {
	spec HookSpec
	rt   *Rt
}

func (h hookImpl) Run(e *zerolog.Event, level zerolog.Level, msg string) {
	h.rt.mu.Lock()
	h.rt.HookCalls = append(h.rt.HookCalls, HookCall{h.spec.ID, level, msg, CtxMarker(e.GetCtx())})
	h.rt.mu.Unlock()
	switch h.spec.Kind {
	case "add":
		ApplyEvent(e, h.spec.Ops)
	case "discard":
		e.Discard()
	case "getctx":
		e.Str(string(h.spec.K), CtxMarker(e.GetCtx()))
	case "getctxif":
		// a trace-id style hook: a field only when the event's context carries a marker
		if m := CtxMarker(e.GetCtx()); m != "" && m != "<nil-context>" {
			e.Str(string(h.spec.K), m)
		}
	case "noop":
	default:
		panic("lp: unknown hook kind " + h.spec.Kind)
	}
}

// MergedLevelText is a mapping a program may well use although it is not injective: the two verbose
// levels share a text, so do error, fatal and panic (three severities are all a downstream system knows).
func MergedLevelText(l zerolog.Level) string {
	switch l {
	case zerolog.TraceLevel, zerolog.DebugLevel:
		return "DEBUG"
	case zerolog.ErrorLevel, zerolog.FatalLevel, zerolog.PanicLevel:
		return "ERROR"
	}
	return strings.ToUpper(l.String())
}

// TotalLevelText maps every level to a non-empty text of its own (syslog-like severities).
func TotalLevelText(l zerolog.Level) string {
	switch l {
	case zerolog.TraceLevel:
		return "7t"
	case zerolog.DebugLevel:
		return "7"
	case zerolog.InfoLevel:
		return "6"
	case zerolog.WarnLevel:
		return "4"
	case zerolog.ErrorLevel:
		return "3"
	case zerolog.FatalLevel:
		return "2"
	case zerolog.PanicLevel:
		return "0"
	case zerolog.NoLevel:
		return "notice"
	case zerolog.Disabled:
		return "off"
	}
	return "L" + strconv.Itoa(int(l))
}

// poisonHook marks every event it ever runs on.
type poisonHook struct{}

func (poisonHook) Run(e *zerolog.Event, l zerolog.Level, m string) {
	e.Str("POISON", "a hook slice reused by the caller reached the logger")
}

// nilPtrHook is used as a typed-nil pointer, nilFieldHook as a struct whose only field is a nil
// pointer: either way the interface value's data word is nil while the hook is perfectly usable.
type nilPtrHook struct{ _ int }

func (*nilPtrHook) Run(e *zerolog.Event, l zerolog.Level, m string) {
	nilHookRt.HookCalls = append(nilHookRt.HookCalls, HookCall{nilHookID["nilptr"], l, m, CtxMarker(e.GetCtx())})
	e.Str(NilHookKey, "ran")
}

type nilFieldHook struct{ p *int }

func (nilFieldHook) Run(e *zerolog.Event, l zerolog.Level, m string) {
	nilHookRt.HookCalls = append(nilHookRt.HookCalls, HookCall{nilHookID["nilfield"], l, m, CtxMarker(e.GetCtx())})
	e.Str(NilHookKey, "ran")
}

// such hooks have no state of their own: the run they belong to and their id (at most one hook of
// each of the two kinds per program) are kept here
var (
	nilHookRt *Rt
	nilHookID = map[string]int{}
)

// DefaultCtxKey is the context field of the DefaultContextLogger a program may install.
const DefaultCtxKey = "via"

// NilHookKey is the field the two hooks above add.
const NilHookKey = "nilhook"

func (rt *Rt) MkHook(s HookSpec) zerolog.Hook {
	h := hookImpl{s, rt}
	switch s.Wrap {
	case "nilptr":
		nilHookRt, nilHookID["nilptr"] = rt, s.ID
		return (*nilPtrHook)(nil)
	case "nilfield":
		nilHookRt, nilHookID["nilfield"] = rt, s.ID
		return nilFieldHook{}
	case "func":
		return zerolog.HookFunc(h.Run)
	case "level":
		return zerolog.LevelHook{NoLevelHook: h, TraceHook: h, DebugHook: h, InfoHook: h, WarnHook: h, ErrorHook: h, FatalHook: h, PanicHook: h}
	case "levelsome":
		// only some slots filled: the others (and levels without a slot) run nothing
		lh := zerolog.NewLevelHook()
		lh.InfoHook, lh.ErrorHook, lh.NoLevelHook = h, h, h
		return lh
	}
	return h
}

// ---------------------------------------------------------------- writer

type Write struct {
	Level zerolog.Level
	Data  []byte
}

// RecWriter records every WriteLevel call (copying the slice).
type RecWriter struct {
	mu     sync.Mutex
	Writes []Write
}

func (w *RecWriter) Write(p []byte) (int, error) { return w.WriteLevel(zerolog.NoLevel+100, p) }
func (w *RecWriter) WriteLevel(l zerolog.Level, p []byte) (int, error) {
	w.mu.Lock()
	w.Writes = append(w.Writes, Write{l, append([]byte{}, p...)})
	w.mu.Unlock()
	return len(p), nil
}

// ---------------------------------------------------------------- program

// basicSampler etc.
func mkSampler(st Step) zerolog.Sampler {
	switch st.Sampler {
	case "all":
		return &zerolog.BasicSampler{N: 1}
	case "none":
		return &zerolog.BasicSampler{N: 0}
	case "basic":
		return &zerolog.BasicSampler{N: st.N}
	case "nil":
		return nil // Sample(nil): the child has no sampler, whatever the parent had
	}
	panic("lp: unknown sampler " + st.Sampler)
}

// applyStep derives a logger from parent (for "update": mutates *parent in place and
// returns it).
func (rt *Rt) applyStep(parent *zerolog.Logger, st Step) (zerolog.Logger, *RecWriter) {
	switch st.Kind {
	case "with":
		return ApplyContext(parent.With(), st.Ops).Logger(), nil
	case "update":
		ops := st.Ops
		parent.UpdateContext(func(c zerolog.Context) zerolog.Context { return ApplyContext(c, ops) })
		return *parent, nil
	case "rehook":
		// l = l.Hook(...): the program reassigns its logger variable; events already started keep the hooks
		// they were created with
		hs := make([]zerolog.Hook, len(st.Hooks))
		for i, h := range st.Hooks {
			hs[i] = rt.MkHook(h)
		}
		*parent = parent.Hook(hs...)
		return *parent, nil
	case "hook":
		hs := make([]zerolog.Hook, len(st.Hooks))
		for i, h := range st.Hooks {
			hs[i] = rt.MkHook(h)
		}
		l := parent.Hook(hs...)
		// the caller's slice stays the caller's: reusing it afterwards (here: poisoning every entry)
		// must not reach the logger
		for i := range hs {
			hs[i] = poisonHook{}
		}
		return l, nil
	case "level":
		return parent.Level(zerolog.Level(st.Level)), nil
	case "updatedefault":
		ops := st.Ops
		dl := zerolog.Ctx(context.Background())
		dl.UpdateContext(func(c zerolog.Context) zerolog.Context { return ApplyContext(c, ops) })
		return *zerolog.Ctx(context.Background()), nil
	case "viactx":
		base := context.Background()
		if st.N == 1 {
			other := zerolog.New(io.Discard).With().Str("other", "logger").Logger()
			base = other.WithContext(base)
		}
		return *zerolog.Ctx(parent.WithContext(base)), nil
	case "sample":
		return parent.Sample(mkSampler(st)), nil
	case "output":
		if st.N == 1 {
			return parent.Output(io.Discard), nil // muted; a later Output must find context and hooks intact
		}
		if st.N == 2 {
			return parent.Output(nil), nil
		}
		w := &RecWriter{}
		return parent.Output(w), w
	}
	panic("lp: unknown step " + st.Kind)
}

// Start opens the event for spec on l.
func Start(l *zerolog.Logger, ev EventSpec) *zerolog.Event {
	switch ev.Method {
	case "trace":
		return l.Trace()
	case "debug":
		return l.Debug()
	case "info":
		return l.Info()
	case "warn":
		return l.Warn()
	case "error":
		return l.Error()
	case "log":
		return l.Log()
	case "err":
		return l.Err(mkErr(*ev.ErrV))
	case "withlevel":
		return l.WithLevel(zerolog.Level(ev.Level))
	}
	panic("lp: unknown method " + ev.Method)
}

// Direct reports whether the method is an entry point that takes the whole event in one call: the io.Writer
// entry Logger.Write ("write"; "stdlog": the same behind a standard library log.Logger) and Print/Printf/Println.
func Direct(method string) bool {
	switch method {
	case "write", "stdlog", "print", "printf", "println":
		return true
	}
	return false
}

// Emit logs the event through l: Start, ApplyEvent and Finish, or the one call of a Direct method.
func Emit(l *zerolog.Logger, ev EventSpec) {
	m := string(ev.Msg)
	switch ev.Method {
	case "write":
		l.Write(append(append([]byte{}, ev.Msg...), '\n'))
	case "stdlog":
		stdlog.New(l, "", 0).Print(m)
	case "print":
		l.Print(m)
	case "printf":
		l.Printf("%s", m)
	case "println":
		l.Println(m)
	default:
		Finish(ApplyEvent(Start(l, ev), ev.Ops), ev)
	}
}

// Finish finalises the event.
func Finish(e *zerolog.Event, ev EventSpec) {
	m := string(ev.Msg)
	switch ev.Fin {
	case "msg":
		e.Msg(m)
	case "msgf":
		e.Msgf("%s", m)
	case "msgf2":
		e.Msgf("%s%d", m, 7)
	case "msgf0":
		e.Msgf(m) // the message is the format itself, no arguments
	case "msgfunc":
		e.MsgFunc(func() string { return m })
	case "send":
		e.Send()
	default:
		panic("lp: unknown finalizer " + ev.Fin)
	}
}

// Result of running a program.
type Result struct {
	Dests [][]Write // writes per destination: 0 = root writer, then one per output step in step order
	Rt    *Rt
	Panic interface{}
}

// Run executes the program and returns everything the writers received.
func Run(p *Program) (res Result) {
	restore := p.Set.Apply()
	defer restore()
	ScrubPools()
	rt := &Rt{}
	res.Rt = rt
	writers := []*RecWriter{{}}
	defer func() {
		if r := recover(); r != nil {
			res.Panic = r
		}
		for _, w := range writers {
			res.Dests = append(res.Dests, w.Writes)
		}
	}()
	root := zerolog.New(writers[0])
	if p.Set.DefaultCtx {
		// the program's fallback for contexts without a logger: writes to the root destination
		dl := zerolog.New(writers[0]).With().Str(DefaultCtxKey, "default-context-logger").Logger()
		zerolog.DefaultContextLogger = &dl
		defer func() { zerolog.DefaultContextLogger = nil }()
	}
	nodes := make([]*zerolog.Logger, len(p.Steps))
	get := func(i int) *zerolog.Logger {
		if i < 0 {
			return &root
		}
		return nodes[i]
	}
	open := map[int]*zerolog.Event{}
	for _, a := range p.Acts() {
		switch a.K {
		case "step":
			st := p.Steps[a.I]
			par := get(p.ParentOf(a.I))
			l, w := rt.applyStep(par, st)
			if InPlace(st.Kind) {
				nodes[a.I] = par // same logger variable
			} else {
				nodes[a.I] = &l
			}
			if w != nil {
				writers = append(writers, w)
			}
		case "event", "open":
			ev := p.Events[a.I]
			if Direct(ev.Method) {
				Emit(get(p.NodeOf(a.I)), ev)
				continue
			}
			e := Start(get(p.NodeOf(a.I)), ev)
			e = ApplyEvent(e, ev.Ops)
			if a.K == "open" {
				open[a.I] = e
			} else {
				Finish(e, ev)
			}
		case "fin":
			Finish(open[a.I], p.Events[a.I])
			delete(open, a.I)
		}
	}
	return
}

// RunConcurrent builds the program's logger tree (all steps, in order), then emits every event reps
// times: with g <= 1 one after the other, otherwise spread over g goroutines that start together and
// log through their nodes at the same time. Open/finish ordering is not used.
func RunConcurrent(p *Program, g, reps int) (res Result) {
	restore := p.Set.Apply()
	defer restore()
	ScrubPools()
	rt := &Rt{}
	res.Rt = rt
	writers := []*RecWriter{{}}
	defer func() {
		if r := recover(); r != nil {
			res.Panic = r
		}
		for _, w := range writers {
			res.Dests = append(res.Dests, w.Writes)
		}
	}()
	root := zerolog.New(writers[0])
	if p.Set.DefaultCtx {
		dl := zerolog.New(writers[0]).With().Str(DefaultCtxKey, "default-context-logger").Logger()
		zerolog.DefaultContextLogger = &dl
		defer func() { zerolog.DefaultContextLogger = nil }()
	}
	nodes := make([]*zerolog.Logger, len(p.Steps))
	get := func(i int) *zerolog.Logger {
		if i < 0 {
			return &root
		}
		return nodes[i]
	}
	for i, st := range p.Steps {
		par := get(p.ParentOf(i))
		l, w := rt.applyStep(par, st)
		if InPlace(st.Kind) {
			nodes[i] = par
		} else {
			nodes[i] = &l
		}
		if w != nil {
			writers = append(writers, w)
		}
	}
	emit := func(i int) {
		ev := p.Events[i]
		Emit(get(p.NodeOf(i)), ev)
	}
	if g <= 1 {
		for r := 0; r < reps; r++ {
			for i := range p.Events {
				emit(i)
			}
		}
		return
	}
	var wg sync.WaitGroup
	start := make(chan struct{})
	var pmu sync.Mutex
	for k := 0; k < g; k++ {
		k := k
		wg.Add(1)
		go func() {
			defer wg.Done()
			defer func() {
				if r := recover(); r != nil {
					pmu.Lock()
					res.Panic = r
					pmu.Unlock()
				}
			}()
			<-start
			for r := 0; r < reps; r++ {
				for i := range p.Events {
					if i%g == k {
						emit(i)
					}
				}
			}
		}()
	}
	close(start)
	wg.Wait()
	return
}

// ScrubPools makes a program's behaviour independent of what earlier programs left in
// zerolog's event pool: it takes a batch of pooled events through a plain logger (which
// resets their Go context) and returns them.
func ScrubPools() {
	l := zerolog.New(io.Discard)
	var evs [48]*zerolog.Event
	for i := range evs {
		evs[i] = l.Log()
	}
	for _, e := range evs {
		e.Send()
	}
}
