package lp

import (
	"fmt"

	"verif/harness/jsonref"
)

// Issue kinds: invalid (C01), value (C02), layout (C03), hook (C03), gate (C04-ish), panic.
type Issue struct {
	Kind string
	Msg  string
}

func (i Issue) String() string { return i.Kind + ": " + i.Msg }

// Mode selects the comparison: "valid" only validates; "values" checks that every
// expected (key,value) is present (order-insensitive); "layout" checks the exact key
// sequence (values only for level and message); "full" checks sequence and values.
func Check(p *Program, mode string) []Issue {
	res := Run(p)
	return CheckResult(p, res, mode)
}

func CheckResult(p *Program, res Result, mode string) []Issue {
	var out []Issue
	if res.Panic != nil {
		return []Issue{{"panic", fmt.Sprintf("panic while logging: %v", res.Panic)}}
	}
	nodes := make([][]*jsonref.Node, len(res.Dests))
	for d, ws := range res.Dests {
		for i, w := range ws {
			n, err := jsonref.ValidateLine(w.Data)
			if err != nil {
				return []Issue{{"invalid", fmt.Sprintf("write %d to destination %d is not one well-formed JSON line: %v: %q", i, d, err, w.Data)}}
			}
			nodes[d] = append(nodes[d], n)
		}
	}
	if mode == "valid" {
		return nil
	}
	m := Model{Set: p.Set}
	root := &LoggerModel{Level: -1}
	lms := make([]*LoggerModel, len(p.Steps))
	get := func(i int) *LoggerModel {
		if i < 0 {
			return root
		}
		return lms[i]
	}
	ndest := 0
	wi := make([]int, len(res.Dests)+len(p.Steps)+1)
	var wantCalls []HookCall
	pending := map[int]ExpEvent{}
	finish := func(ei int, exp ExpEvent, dest int) {
		wantCalls = append(wantCalls, exp.HookCalls...)
		if !exp.Written {
			return
		}
		if dest >= len(nodes) || wi[dest] >= len(nodes[dest]) {
			got := 0
			if dest < len(nodes) {
				got = len(nodes[dest])
			}
			out = append(out, Issue{"gate", fmt.Sprintf("event %d: expected a write to destination %d, which received only %d", ei, dest, got)})
			return
		}
		k := wi[dest]
		wi[dest]++
		n := nodes[dest][k]
		w := res.Dests[dest][k]
		if got := int(w.Level); got != exp.Level {
			out = append(out, Issue{"gate", fmt.Sprintf("event %d: WriteLevel got level %d, want %d", ei, got, exp.Level)})
		}
		switch mode {
		case "values":
			if d := ContainsFields(n.O, exp.Fields); d != "" {
				out = append(out, Issue{"value", fmt.Sprintf("event %d: %s; line %q", ei, d, w.Data)})
			}
		case "layout":
			if d := MatchFields(n.O, exp.Fields, false); d != "" {
				out = append(out, Issue{"layout", fmt.Sprintf("event %d: %s; line %q", ei, d, w.Data)})
			} else {
				// level and message values
				for k, f := range exp.Fields {
					if f.V.Role != "" {
						if d := Match(n.O[k].Val, f.V); d != "" {
							out = append(out, Issue{"layout", fmt.Sprintf("event %d: %s field %q: %s; line %q", ei, f.V.Role, f.Key, d, w.Data)})
						}
					}
				}
			}
		default:
			if d := MatchFields(n.O, exp.Fields, true); d != "" {
				out = append(out, Issue{"full", fmt.Sprintf("event %d: %s; line %q", ei, d, w.Data)})
			}
		}
	}
	dests := map[int]int{}
	for _, a := range p.Acts() {
		switch a.K {
		case "step":
			lms[a.I] = m.ApplyStep(get(p.ParentOf(a.I)), p.Steps[a.I], &ndest)
		case "event", "open":
			lm := get(p.NodeOf(a.I))
			exp := m.Event(lm, p.Events[a.I])
			if a.K == "open" {
				pending[a.I] = exp
				dests[a.I] = lm.Dest
			} else {
				finish(a.I, exp, lm.Dest)
			}
		case "fin":
			finish(a.I, pending[a.I], dests[a.I])
		}
	}
	for d := range nodes {
		if wi[d] != len(nodes[d]) {
			out = append(out, Issue{"gate", fmt.Sprintf("destination %d received %d writes, expected %d", d, len(nodes[d]), wi[d])})
		}
	}
	if mode == "layout" || mode == "full" {
		got := res.Rt.HookCalls
		if len(got) != len(wantCalls) {
			out = append(out, Issue{"hook", fmt.Sprintf("hook invocations: got %d %v, want %d %v", len(got), got, len(wantCalls), wantCalls)})
		} else {
			for i := range got {
				g, w := got[i], wantCalls[i]
				if g.ID != w.ID || g.Msg != w.Msg || g.Level != w.Level {
					out = append(out, Issue{"hook", fmt.Sprintf("hook invocation %d: got %+v, want %+v", i, g, w)})
					break
				}
			}
		}
	}
	return out
}
