package lp

import (
	"fmt"

	"verif/harness/cborref"
	"verif/harness/jsonref"
)

// Issue kinds: invalid (C01), value (C02), layout (C03), hook (C03), gate (C04-ish), panic.
type Issue struct {
	Kind string
	Msg  string
}

func (i Issue) String() string { return i.Kind + ": " + i.Msg }

// Mode selects the comparison: "valid" only validates; "values" checks that every
// expected (key,value) is present (order-insensitive); "layout" checks the exact key
// sequence (values only for level and message); "full" checks sequence and values.
func Check(p *Program, mode string) []Issue {
	res := Run(p)
	return CheckResult(p, res, mode)
}

func CheckResult(p *Program, res Result, mode string) []Issue {
	if BinaryBuild {
		// the properties that are not about an encoding hold in both builds: under binary_log every write is
		// parsed as CBOR and compared with the same expected events (keys in order, values in zerolog's
		// CBOR representation; the comparison is always a full one there)
		return checkResult(p, res, mode, cborCodec{})
	}
	return checkResult(p, res, mode, jsonCodec{p})
}

// CheckCBOR is Check for the binary_log build: every write must be exactly one
// well-formed CBOR item (an indefinite-length map with text keys) carrying the expected
// fields in zerolog's documented representation.
func CheckCBOR(p *Program, mode string) []Issue {
	res := Run(p)
	return checkResult(p, res, mode, cborCodec{})
}

func CheckResultCBOR(p *Program, res Result, mode string) []Issue {
	return checkResult(p, res, mode, cborCodec{})
}

type codec interface {
	parse(w Write) (interface{}, error)
	match(h interface{}, exp []ExpField, mode string, m Model) string
}

type jsonCodec struct{ p *Program }

func (jsonCodec) parse(w Write) (interface{}, error) { return jsonref.ValidateLine(w.Data) }
func (jsonCodec) match(h interface{}, exp []ExpField, mode string, m Model) string {
	n := h.(*jsonref.Node)
	switch mode {
	case "values":
		return ContainsFields(n.O, exp)
	case "layout":
		if d := MatchFields(n.O, exp, false); d != "" {
			return d
		}
		for k, f := range exp {
			if f.V.Role != "" {
				if d := Match(n.O[k].Val, f.V); d != "" {
					return fmt.Sprintf("%s field %q: %s", f.V.Role, f.Key, d)
				}
			}
		}
		return ""
	}
	return MatchFields(n.O, exp, true)
}

type cborCodec struct{}

func (cborCodec) parse(w Write) (interface{}, error) {
	it, err := cborref.ParseExactly(w.Data)
	if err != nil {
		return nil, err
	}
	if it.Kind != cborref.Map || !it.Indef {
		return nil, fmt.Errorf("event is not an indefinite-length map: %s", it)
	}
	for i := 0; i < len(it.Items); i += 2 {
		if it.Items[i].Kind != cborref.Text {
			return nil, fmt.Errorf("map key %d is not a text string: %s", i/2, it.Items[i])
		}
	}
	return it, nil
}
func (cborCodec) match(h interface{}, exp []ExpField, mode string, m Model) string {
	return MatchFieldsCBOR(h.(*cborref.Item), exp)
}

func checkResult(p *Program, res Result, mode string, cd codec) []Issue {
	var out []Issue
	if res.Panic != nil {
		return []Issue{{"panic", fmt.Sprintf("panic while logging: %v", res.Panic)}}
	}
	nodes := make([][]interface{}, len(res.Dests))
	for d, ws := range res.Dests {
		for i, w := range ws {
			n, err := cd.parse(w)
			if err != nil {
				return []Issue{{"invalid", fmt.Sprintf("write %d to destination %d is not one well-formed event: %v: %q", i, d, err, w.Data)}}
			}
			nodes[d] = append(nodes[d], n)
		}
	}
	if mode == "valid" {
		return nil
	}
	m := Model{Set: p.Set, StrictCtx: mode == "fullctx", Def: &[]ExpField{{DefaultCtxKey, strS("default-context-logger")}}}
	root := &LoggerModel{Level: -1}
	lms := make([]*LoggerModel, len(p.Steps))
	get := func(i int) *LoggerModel {
		if i < 0 {
			return root
		}
		return lms[i]
	}
	ndest := 0
	wi := make([]int, len(res.Dests)+len(p.Steps)+1)
	var wantCalls []HookCall
	pending := map[int]ExpEvent{}
	finish := func(ei int, exp ExpEvent, dest int) {
		wantCalls = append(wantCalls, exp.HookCalls...)
		if !exp.Written || dest < 0 { // dest -1: the no-op logger's io.Discard
			return
		}
		if dest >= len(nodes) || wi[dest] >= len(nodes[dest]) {
			got := 0
			if dest < len(nodes) {
				got = len(nodes[dest])
			}
			out = append(out, Issue{"gate", fmt.Sprintf("event %d: expected a write to destination %d, which received only %d", ei, dest, got)})
			return
		}
		k := wi[dest]
		wi[dest]++
		w := res.Dests[dest][k]
		if got := int(w.Level); got != exp.Level {
			out = append(out, Issue{"gate", fmt.Sprintf("event %d: WriteLevel got level %d, want %d", ei, got, exp.Level)})
		}
		if d := cd.match(nodes[dest][k], exp.Fields, mode, m); d != "" {
			kind := map[string]string{"values": "value", "layout": "layout"}[mode]
			if kind == "" {
				kind = "full"
			}
			out = append(out, Issue{kind, fmt.Sprintf("event %d: %s; line %q", ei, d, w.Data)})
		}
	}
	dests := map[int]int{}
	for _, a := range p.Acts() {
		switch a.K {
		case "step":
			lms[a.I] = m.ApplyStep(get(p.ParentOf(a.I)), p.Steps[a.I], &ndest)
		case "event", "open":
			lm := get(p.NodeOf(a.I))
			exp := m.Event(lm, p.Events[a.I])
			if a.K == "open" {
				pending[a.I] = exp
				dests[a.I] = lm.Dest
			} else {
				finish(a.I, exp, lm.Dest)
			}
		case "fin":
			finish(a.I, pending[a.I], dests[a.I])
		}
	}
	for d := range nodes {
		if wi[d] != len(nodes[d]) {
			out = append(out, Issue{"gate", fmt.Sprintf("destination %d received %d writes, expected %d", d, len(nodes[d]), wi[d])})
		}
	}
	if mode == "layout" || mode == "full" || mode == "fullctx" {
		got := res.Rt.HookCalls
		if len(got) != len(wantCalls) {
			out = append(out, Issue{"hook", fmt.Sprintf("hook invocations: got %d %v, want %d %v", len(got), got, len(wantCalls), wantCalls)})
		} else {
			for i := range got {
				g, w := got[i], wantCalls[i]
				if g.ID != w.ID || g.Msg != w.Msg || g.Level != w.Level || (mode == "fullctx" && g.Ctx != w.Ctx) {
					out = append(out, Issue{"hook", fmt.Sprintf("hook invocation %d: got %+v, want %+v", i, g, w)})
					break
				}
			}
		}
	}
	return out
}

// Interference returns an unparseable line of res that no event of p emits when it is run through
// its own derivation path alone (Isolate), or nil. Such a line cannot be blamed on the encoder
// (C01): it exists only because another logger or event was around.
func Interference(p *Program, res Result) []byte {
	var alone map[string]bool
	for _, d := range res.Dests {
		for _, w := range d {
			if _, err := jsonref.ValidateLine(w.Data); err == nil {
				continue
			}
			if alone == nil {
				alone = map[string]bool{}
				for j := range p.Events {
					r := Run(Isolate(p, j))
					for _, d2 := range r.Dests {
						for _, w2 := range d2 {
							alone[string(w2.Data)] = true
						}
					}
				}
			}
			if !alone[string(w.Data)] {
				return w.Data
			}
		}
	}
	return nil
}
