package lp

import (
	"bytes"
	"fmt"
	"math"
	"strconv"

	"verif/harness/cborref"
	"verif/harness/jsonref"
)

// MatchCBOR reports "" if the CBOR item carries expectation e in the representation
// zerolog documents for its binary format.
func MatchCBOR(it *cborref.Item, e Exp) string {
	switch e.CK {
	case "bytes":
		if it.Kind != cborref.Bytes || !bytes.Equal(it.B, e.CB) {
			return fmt.Sprintf("expected byte string h'%x', got %s", e.CB, it)
		}
		return ""
	case "hex", "rawcbor", "addr":
		tag := map[string]uint64{"hex": 263, "rawcbor": 63, "addr": 260}[e.CK]
		if it.Kind != cborref.Tag || it.U != tag || it.Items[0].Kind != cborref.Bytes || !bytes.Equal(it.Items[0].B, e.CB) {
			return fmt.Sprintf("expected %d(h'%x'), got %s", tag, e.CB, it)
		}
		return ""
	case "ipnet":
		if it.Kind != cborref.Tag || it.U != 261 || it.Items[0].Kind != cborref.Map || len(it.Items[0].Items) != 2 ||
			it.Items[0].Items[0].Kind != cborref.Bytes || !bytes.Equal(it.Items[0].Items[0].B, e.CB) ||
			it.Items[0].Items[1].Kind != cborref.Uint || int64(it.Items[0].Items[1].U) != e.CI {
			return fmt.Sprintf("expected 261({h'%x': %d}), got %s", e.CB, e.CI, it)
		}
		return ""
	case "time":
		if it.Kind != cborref.Tag || it.U != 1 {
			return fmt.Sprintf("expected tag 1 (time), got %s", it)
		}
		c := it.Items[0]
		switch c.Kind {
		case cborref.Uint:
			if e.CN != 0 || e.CI < 0 || c.U != uint64(e.CI) {
				return fmt.Sprintf("time %d.%09d: got 1(%s)", e.CI, e.CN, c)
			}
		case cborref.Nint:
			if e.CN != 0 || e.CI >= 0 || c.U != uint64(-e.CI-1) {
				return fmt.Sprintf("time %d.%09d: got 1(%s)", e.CI, e.CN, c)
			}
		case cborref.Float:
			want := float64(e.CI) + float64(e.CN)*1e-9
			got := c.Float64()
			tol := 1e-6
			if ulp := math.Abs(want) * 2.3e-16; ulp > tol {
				tol = ulp // beyond ±2^32 s a float64 cannot resolve 1µs (outside the statement's time classes)
			}
			if math.Abs(got-want) > tol {
				return fmt.Sprintf("time %d.%09d: got float %v", e.CI, e.CN, got)
			}
		default:
			return fmt.Sprintf("time: unexpected content %s", c)
		}
		return ""
	case "f32", "f64":
		w := 8
		if e.CK == "f32" {
			w = 4
		}
		if it.Kind != cborref.Float || it.Width != w {
			return fmt.Sprintf("expected float%d, got %s", w*8, it)
		}
		var want float64
		if w == 4 {
			want = float64(math.Float32frombits(uint32(e.Bits)))
		} else {
			want = math.Float64frombits(e.Bits)
		}
		if math.IsNaN(want) {
			if !math.IsNaN(it.Float64()) {
				return fmt.Sprintf("expected NaN, got %s", it)
			}
			return ""
		}
		if it.Bits != e.Bits {
			return fmt.Sprintf("expected float%d bits 0x%x, got 0x%x", w*8, e.Bits, it.Bits)
		}
		return ""
	case "embjson":
		if it.Kind != cborref.Tag || it.U != 262 || it.Items[0].Kind != cborref.Bytes {
			return fmt.Sprintf("expected 262(embedded JSON), got %s", it)
		}
		got, err := jsonref.Parse(it.Items[0].B)
		if err != nil {
			return fmt.Sprintf("embedded JSON does not parse: %v", err)
		}
		want, err := jsonref.Parse([]byte(e.S))
		if err != nil {
			return "HARNESS-ERROR: reference JSON does not parse"
		}
		if !jsonref.Equal(got, want) {
			return fmt.Sprintf("embedded JSON %s, want %s", it.Items[0].B, e.S)
		}
		return ""
	}
	switch e.Kind {
	case "any":
		return ""
	case "anystr":
		if it.Kind != cborref.Text {
			return "expected text string, got " + it.String()
		}
		return ""
	case "anynum", "ftext":
		if it.Kind != cborref.Uint && it.Kind != cborref.Nint && it.Kind != cborref.Float {
			return "expected a number, got " + it.String()
		}
		return ""
	case "null":
		// nil reaches the encoder either as AppendNil (simple 22) or through the interface
		// path as embedded JSON "null" (tag 262); both are zerolog's representations of nil
		if it.Kind == cborref.Tag && it.U == 262 && it.Items[0].Kind == cborref.Bytes && string(it.Items[0].B) == "null" {
			return ""
		}
		if it.Kind != cborref.Simple || it.U != 22 {
			return "expected null, got " + it.String()
		}
		return ""
	case "bool":
		want := uint64(20)
		if e.B {
			want = 21
		}
		if it.Kind != cborref.Simple || it.U != want {
			return fmt.Sprintf("expected %v, got %s", e.B, it)
		}
		return ""
	case "str":
		if it.Kind != cborref.Text || ValidText(it.B) != e.S {
			return fmt.Sprintf("expected text %q, got %s", e.S, it)
		}
		return ""
	case "num":
		if len(e.S) > 0 && e.S[0] == '-' {
			v, err := strconv.ParseInt(e.S, 10, 64)
			if err != nil {
				return "HARNESS-ERROR: bad expected integer " + e.S
			}
			if it.Kind != cborref.Nint || it.U != uint64(-(v+1)) {
				return fmt.Sprintf("expected integer %s, got %s", e.S, it)
			}
			return ""
		}
		v, err := strconv.ParseUint(e.S, 10, 64)
		if err != nil {
			return "HARNESS-ERROR: bad expected integer " + e.S
		}
		if it.Kind != cborref.Uint || it.U != v {
			return fmt.Sprintf("expected integer %s, got %s", e.S, it)
		}
		return ""
	case "arr":
		if it.Kind != cborref.Array {
			return "expected array, got " + it.String()
		}
		if len(it.Items) != len(e.A) {
			return fmt.Sprintf("expected array of %d elements, got %d", len(e.A), len(it.Items))
		}
		for i := range e.A {
			if d := MatchCBOR(it.Items[i], e.A[i]); d != "" {
				return fmt.Sprintf("[%d]: %s", i, d)
			}
		}
		return ""
	case "obj":
		if it.Kind != cborref.Map {
			return "expected map, got " + it.String()
		}
		return MatchFieldsCBOR(it, e.O)
	}
	return "HARNESS-ERROR: expectation kind " + e.Kind + " has no CBOR form"
}

// MatchFieldsCBOR: the map must hold exactly the expected fields, in order, with text keys.
func MatchFieldsCBOR(m *cborref.Item, want []ExpField) string {
	if len(m.Items)%2 != 0 {
		return "map with odd item count"
	}
	var keys []string
	for i := 0; i < len(m.Items); i += 2 {
		k := m.Items[i]
		if k.Kind != cborref.Text {
			return fmt.Sprintf("map key %d is not a text string: %s", i/2, k)
		}
		keys = append(keys, ValidText(k.B))
	}
	n := len(keys)
	for i := 0; i < n && i < len(want); i++ {
		if keys[i] != want[i].Key {
			return fmt.Sprintf("field %d: expected key %q, got %q (expected keys %q, got %q)", i, want[i].Key, keys[i], keysE(want), keys)
		}
		if d := MatchCBOR(m.Items[2*i+1], want[i].V); d != "" {
			return fmt.Sprintf("field %q: %s", want[i].Key, d)
		}
	}
	if n != len(want) {
		return fmt.Sprintf("expected %d fields %q, got %d fields %q", len(want), keysE(want), n, keys)
	}
	return ""
}
