package lp

import (
	"bytes"
	"encoding/json"
	"fmt"
	"math"
	"strings"

	"pgregory.net/rapid"
)

// Sigma: one representative per escaping / UTF-8 class.
var Sigma = [][]byte{
	[]byte("a"), []byte(`"`), []byte(`\`), []byte("/"), []byte("<"), []byte("\n"), {0x01}, {0x1f}, {0x7f},
	[]byte("é"), []byte("€"), []byte(" "), []byte("😀"),
	{0x80}, {0xC3}, {0xC0, 0x80}, {0xED, 0xA0, 0x80}, {0xFF}, []byte(" "), []byte("\t"), []byte("\r"), {0x00}, []byte("{"), []byte(","),
}

// Cfg steers the generator.
type Cfg struct {
	MaxOps     int  // per op list
	MaxDepth   int  // nesting
	UniqueKeys bool // keys are unique tokens (layout checks)
	C08        bool // restrict to what C08's statement names
	NoLong     bool // never generate the long (>500 B) payload classes
	NoScale    bool // never blow a dimension up (hundreds of fields, hooks, derivation steps, events; deep nesting)
	PlainOnly  bool // only allocation-free types (C07) – unused here
	NoCaller   bool
	NoSettings bool // default settings only
	NoHooks    bool
	NoDirect   bool // no Logger.Write / Print* entry points
	Binary     bool // running under binary_log (no effect on generation, recorded only)
	Tree       bool // derivation trees, interleaved steps/events, several open events
	NoFocus    bool // never narrow a program's value types to one family (see focusSets)
}

// focusSets: one program in four draws its values from one family only (plus the containers), with
// the settings of that family always varied: combinations such as "Stack() + Fields{error} + a
// stack marshaler returning a typed nil" or "Times under UNIXMS before 1970" need three or four
// rare ingredients at once and are out of reach when every ingredient is drawn from ~60 types.
var focusSets = map[string]map[string]bool{
	"errors": set("stack", "err", "anerr", "errs", "any", "str", "nil"),
	"time":   set("time", "times", "dur", "durs", "timediff", "timestamp", "ptr"),
	"num":    set("float32", "float64", "floats32", "floats64", "int", "int64", "ints", "uint64", "uints64", "uint8", "ints8", "ptr"),
	"net":    set("ip", "ipnet", "mac", "hex", "bytes", "rawcbor", "rawjson"),
	"iface":  set("iface", "any", "type", "stringer", "stringers", "nil", "ptr", "anerr"),
	"goctx":  set("ctx", "getctx", "str", "int"),
}

var focusNames = []string{"errors", "time", "num", "net", "iface", "goctx"}

var containers = set("dict", "arr", "arrm", "obj", "embed", "fieldsmap", "fieldsslice", "func")

func set(xs ...string) map[string]bool {
	m := map[string]bool{}
	for _, x := range xs {
		m[x] = true
	}
	return m
}

func (g *G) focused(ts []string) []string {
	if g.focus == "" {
		return ts
	}
	keep := focusSets[g.focus]
	var out []string
	for _, x := range ts {
		if keep[x] || containers[x] {
			out = append(out, x)
		}
	}
	if len(out) == 0 {
		return ts
	}
	return out
}

func DefaultCfg() Cfg { return Cfg{MaxOps: 6, MaxDepth: 3} }

type G struct {
	nilHooks map[string]bool // kinds of nil-data-word hooks already used in this program
	t        *rapid.T
	cfg      Cfg
	set      Settings
	nkey     int

	compositeOnly bool
	inFields      bool
	focus         string
}

func NewG(t *rapid.T, cfg Cfg) *G { return &G{t: t, cfg: cfg} }

var longLens = []int{254, 255, 256, 257, 499, 500, 501, 1023, 1025, 4095, 4096, 4097, 8193, 12290, 20000, 33000, 65535, 65536, 65537}

// Bytes draws an arbitrary byte string from the class alphabet.
func (g *G) Bytes(label string) []byte {
	t := g.t
	switch c := rapid.IntRange(0, 19).Draw(t, label+".cls"); {
	case c == 0:
		return []byte{}
	case c <= 9:
		n := rapid.IntRange(1, 5).Draw(t, label+".n")
		var b []byte
		for i := 0; i < n; i++ {
			b = append(b, rapid.SampledFrom(Sigma).Draw(t, label+".s")...)
		}
		return b
	case c <= 13:
		// plain ascii of boundary-ish small length
		n := rapid.SampledFrom([]int{1, 2, 22, 23, 24, 25, 30}).Draw(t, label+".len")
		return bytes.Repeat([]byte("x"), n)
	case c <= 16:
		return rapid.SliceOfN(rapid.Byte(), 0, 12).Draw(t, label+".raw")
	case c == 17 && !g.cfg.NoLong:
		n := rapid.SampledFrom(longLens).Draw(t, label+".long")
		if rapid.IntRange(0, 2).Draw(t, label+".longmb") == 0 {
			// long non-ASCII text: a run of 2-, 3- or 4-byte runes at every phase, so that some rune lies across
			// whatever block boundary an implementation may have; optionally a byte that needs escaping up front
			var b []byte
			if rapid.Bool().Draw(t, label+".longq") {
				b = append(b, '"')
			}
			b = append(b, bytes.Repeat([]byte("a"), rapid.IntRange(0, 3).Draw(t, label+".phase"))...)
			r := rapid.SampledFrom([]string{"é", "€", "😀", "é€"}).Draw(t, label+".rune")
			for len(b)+len(r) <= n {
				b = append(b, r...)
			}
			return b
		}
		b := bytes.Repeat([]byte("y"), n)
		if rapid.Bool().Draw(t, label+".longesc") {
			copy(b[n/2:], rapid.SampledFrom(Sigma).Draw(t, label+".ls"))
		}
		if rapid.IntRange(0, 3).Draw(t, label+".longtail") == 0 && n > 10 {
			copy(b[n-6:], "\"\\\n<&") // bytes that need escaping only at the far end, after kilobytes of clean text
		}
		return b
	case c == 18:
		// code points a sanitiser may single out, all valid UTF-8 and all legitimate text: C1 controls, line and
		// paragraph separators, bidi controls, zero-width joiner, BOM, soft hyphen, format characters beyond the
		// basic plane (tag characters of flag emoji, musical formatting), non-characters, the ends of the planes,
		// the replacement character itself, an ANSI colour sequence
		n := rapid.IntRange(1, 4).Draw(t, label+".un")
		var b []byte
		for i := 0; i < n; i++ {
			b = append(b, rapid.SampledFrom(UnicodeSpecials).Draw(t, label+".u")...)
		}
		return b
	default:
		return []byte(rapid.StringMatching(`[a-z]{1,8}`).Draw(t, label+".w"))
	}
}

// UnicodeSpecials: see Bytes.
var UnicodeSpecials = []string{"\u0080", "\u0085", "\u009f", "\u00ad", "\u2028", "\u2029", "\u202a", "\u202e", "\u2066", "\u2069", "\u200b", "\u200d", "\ufeff", "\ufffd", "\ufffe", "\uffff",
	"\ud7ff", "\ue000", "\U0001d173", "\U000e0001", "\U000e0067", "\U000e007f", "\U0001f3f4\U000e0067\U000e0062\U000e0065\U000e006e\U000e0067\U000e007f", "\U0010ffff", "\U00010000", "\x1b[31mred\x1b[0m", "a", " "}

func (g *G) Key(label string) []byte {
	if g.cfg.UniqueKeys {
		g.nkey++
		k := []byte("k")
		k = append(k, []byte(itoa(g.nkey))...)
		if rapid.IntRange(0, 3).Draw(g.t, label+".kx") == 0 {
			k = append(k, rapid.SampledFrom(Sigma).Draw(g.t, label+".ks")...)
		}
		if rapid.IntRange(0, 9).Draw(g.t, label+".kpad") == 0 {
			// still unique, but of a length on either side of the string-head boundaries of CBOR (23/24, 31/32, 255/256)
			n := rapid.SampledFrom([]int{22, 23, 24, 25, 30, 31, 32, 33, 255, 256}).Draw(g.t, label+".klen")
			for len(k) < n {
				k = append(k, '_')
			}
		}
		return k
	}
	// short keys mostly
	if rapid.IntRange(0, 2).Draw(g.t, label+".kc") == 0 {
		return []byte(rapid.SampledFrom([]string{"a", "b", "key", "level", "message", "time", "error", "caller", "stack", ""}).Draw(g.t, label+".kw"))
	}
	return g.Bytes(label)
}

func itoa(n int) string {
	if n == 0 {
		return "0"
	}
	var b []byte
	for n > 0 {
		b = append([]byte{byte('0' + n%10)}, b...)
		n /= 10
	}
	return string(b)
}

var intBounds = []int64{math.MinInt64, math.MinInt64 + 1, -1 << 31, -1<<31 - 1, -65537, -65536, -32769, -32768, -257, -256, -129, -128, -25, -24, -23, -1, 0, 1, 23, 24, 25, 127, 128, 255, 256, 32767, 32768, 65535, 65536, 1<<31 - 1, 1 << 31, 1<<32 - 1, 1 << 32, math.MaxInt64 - 1, math.MaxInt64}
var uintBounds = []uint64{0, 1, 23, 24, 255, 256, 65535, 65536, 1<<32 - 1, 1 << 32, 1<<63 - 1, 1 << 63, 1<<63 + 1, math.MaxUint64 - 1, math.MaxUint64}

func clampI(v int64, bits int) int64 {
	switch bits {
	case 8:
		return int64(int8(v))
	case 16:
		return int64(int16(v))
	case 32:
		return int64(int32(v))
	}
	return v
}
func clampU(v uint64, bits int) uint64 {
	switch bits {
	case 8:
		return uint64(uint8(v))
	case 16:
		return uint64(uint16(v))
	case 32:
		return uint64(uint32(v))
	}
	return v
}

func (g *G) Int(bits int, label string) int64 {
	t := g.t
	if rapid.Bool().Draw(t, label+".b") {
		v := rapid.SampledFrom(intBounds).Draw(t, label+".bound") + int64(rapid.IntRange(-2, 2).Draw(t, label+".d"))
		return clampI(v, bits)
	}
	return clampI(rapid.Int64().Draw(t, label+".v"), bits)
}

func (g *G) Uint(bits int, label string) uint64 {
	t := g.t
	if rapid.Bool().Draw(t, label+".b") {
		v := rapid.SampledFrom(uintBounds).Draw(t, label+".bound") + uint64(int64(rapid.IntRange(-2, 2).Draw(t, label+".d")))
		return clampU(v, bits)
	}
	return clampU(rapid.Uint64().Draw(t, label+".v"), bits)
}

var f64Special = []float64{0, math.Copysign(0, -1), 1, -1, 0.1, 1.5, 1e-7, 1e-6, 9.999999e-7, 1e21, 9.99999999999e20, 1e20, 16777216, 9007199254740992, 9007199254740993,
	math.SmallestNonzeroFloat64, math.MaxFloat64, 2.2250738585072014e-308, 2.225073858507201e-308, math.NaN(), math.Inf(1), math.Inf(-1), 123456789.125, 3.4028234663852886e38, 1e-9, 1.2e-9, 1e-10, 5e-324, 100, 1e6, 123456.789e3}

func (g *G) F64(label string) uint64 {
	t := g.t
	switch rapid.IntRange(0, 3).Draw(t, label+".c") {
	case 0:
		f := rapid.SampledFrom(f64Special).Draw(t, label+".sp")
		b := math.Float64bits(f)
		return b + uint64(int64(rapid.IntRange(-1, 1).Draw(t, label+".ulp")))
	case 1:
		return rapid.Uint64().Draw(t, label+".bits")
	case 2:
		return math.Float64bits(float64(rapid.Int64Range(-1000000, 1000000).Draw(t, label+".i")) / float64(rapid.SampledFrom([]int{1, 2, 4, 8, 10, 100, 1000}).Draw(t, label+".den")))
	}
	return math.Float64bits(rapid.Float64().Draw(t, label+".f"))
}

func (g *G) F32(label string) uint64 {
	t := g.t
	switch rapid.IntRange(0, 4).Draw(t, label+".c") {
	case 4:
		// the values with an encoding of their own, exactly
		return uint64(math.Float32bits(rapid.SampledFrom([]float32{0, float32(math.Copysign(0, -1)), 1, -1, float32(math.NaN()), float32(math.Inf(1)), float32(math.Inf(-1)), math.MaxFloat32, -math.MaxFloat32, math.SmallestNonzeroFloat32, 65504, 1e-7}).Draw(t, label+".sp32")))
	case 0:
		f := float32(rapid.SampledFrom(f64Special).Draw(t, label+".sp"))
		b := math.Float32bits(f)
		return uint64(b + uint32(int32(rapid.IntRange(-1, 1).Draw(t, label+".ulp"))))
	case 1:
		return uint64(rapid.Uint32().Draw(t, label+".bits"))
	case 2:
		return uint64(math.Float32bits(float32(rapid.Int32Range(-100000, 100000).Draw(t, label+".i")) / float32(rapid.SampledFrom([]int{1, 2, 4, 8, 10, 100, 1000}).Draw(t, label+".den"))))
	}
	return uint64(math.Float32bits(rapid.Float32().Draw(t, label+".f")))
}

const (
	minSec  = -62135596800 // 0001-01-01
	maxSec  = 253402300799 // 9999-12-31
	nanoMin = -9223372036  // UnixNano range in seconds (approx, inside)
	nanoMax = 9223372035
)

func (g *G) timeInto(v *Val, label string) {
	t := g.t
	nanoFmt := g.set.TimeFormat == "UNIXMS" || g.set.TimeFormat == "UNIXMICRO" || g.set.TimeFormat == "UNIXNANO"
	lo, hi := int64(minSec), int64(maxSec)
	if nanoFmt {
		lo, hi = nanoMin, nanoMax
	}
	c := rapid.IntRange(0, 9).Draw(t, label+".tc")
	switch {
	case c == 0 && !nanoFmt && !g.cfg.C08:
		v.Zero = true
		return
	case c <= 3:
		v.Sec = rapid.SampledFrom([]int64{0, 1, -1, 1700000000, 946684800, -86400, 4102444800, 2147483647, 2147483648, -2147483648, 4294967295, 4294967296}).Draw(t, label+".ts")
	case c <= 5:
		v.Sec = rapid.Int64Range(lo, hi).Draw(t, label+".tr")
	default:
		v.Sec = rapid.Int64Range(-4294967296, 4294967296).Draw(t, label+".tn")
	}
	if v.Sec < lo {
		v.Sec = lo
	}
	if v.Sec > hi {
		v.Sec = hi
	}
	if g.cfg.C08 {
		// sub-second instants only where float64 seconds resolve < 1µs
		if v.Sec >= -4294967296 && v.Sec <= 4294967296 {
			v.Nsec = rapid.SampledFrom([]int64{0, 0, 1000, 500000000, 999999000, 123456000, 1000000, 999000000}).Draw(t, label+".ns")
		} else {
			// further out only binary fractions of a second, which float64 seconds carry exactly
			v.Nsec = rapid.SampledFrom([]int64{0, 500000000, 250000000, 750000000, 125000000}).Draw(t, label+".nsfar")
		}
	} else {
		v.Nsec = rapid.SampledFrom([]int64{0, 0, 1, 999, 1000, 999999, 1000000, 500000000, 999999999, 123456789}).Draw(t, label+".ns")
	}
	if rapid.IntRange(0, 3).Draw(t, label+".zc") == 0 {
		zones := []int{3600, -3600, 19800, -28800, 50400, -12600, -34200, -1800, 20700, 1, -1, 45296, -45296}
		if g.cfg.C08 {
			zones = zones[:9] // RFC 3339 offsets have minute resolution: the JSON side could not express the instant
		}
		v.Zone = rapid.SampledFrom(zones).Draw(t, label+".zone")
		// keep year within 1..9999 after zone shift
		if v.Sec+int64(v.Zone) < minSec || v.Sec+int64(v.Zone) > maxSec {
			v.Zone = 0
		}
	}
}

func (g *G) Dur(label string) int64 {
	t := g.t
	unit := g.set.DurUnit
	if unit <= 0 {
		unit = 1000000
	}
	if rapid.IntRange(0, 2).Draw(t, label+".dc") == 0 {
		// arbitrary values of every magnitude: how a quotient rounds depends on all the digits
		m := rapid.SampledFrom([]int64{10000000000, 10000000000000, 10000000000000000, math.MaxInt64}).Draw(t, label+".mag")
		return rapid.Int64Range(-m, m).Draw(t, label+".any")
	}
	return rapid.SampledFrom([]int64{0, 1, -1, unit - 1, unit, unit + 1, -unit, 3 * unit / 2, 1000000007, math.MaxInt64, math.MinInt64, math.MinInt64 + 1, 1500000, 1000, 60000000000, 1140000000,
		rapid.Int64().Draw(t, label+".rand"), rapid.Int64Range(-10000000000, 10000000000).Draw(t, label+".small")}).Draw(t, label+".d")
}

// JSONText draws valid one-line JSON.
func (g *G) JSONText(label string) []byte {
	t := g.t
	if rapid.IntRange(0, 4).Draw(t, label+".jc") == 0 {
		return []byte(rapid.SampledFrom([]string{`{}`, `[]`, `null`, `0`, `-0`, `""`, `{"a": 1, "b": [true, false, null]}`, `[1,2,3]`, `"é😀\n"`, `1e5`, `-1.5E-3`, `{"a":{"b":{"c":[]}}}`, ` {"sp":"aces"} `, `18446744073709551615`, `"\/"`}).Draw(t, label+".js"))
	}
	ifc := g.Iface(2, label+".ji", true)
	b, err := json.Marshal(ifc.Go())
	if err != nil {
		return []byte(`{"fallback":true}`)
	}
	return b
}

// Iface draws an interface value description. jsonable: only values that
// encoding/json marshals without error.
func (g *G) Iface(depth int, label string, jsonable bool) *Iface {
	t := g.t
	kinds := []string{"nil", "str", "int", "float", "bool", "struct", "ptrnil", "anon", "anonptr", "anonslice", "indentmarshal"}
	if depth > 0 {
		kinds = append(kinds, "list", "map", "list", "map")
	}
	if !jsonable {
		kinds = append(kinds, "unmarshalable", "objmarshaler", "rawmsg", "badmarshal")
	}
	if g.compositeOnly {
		// Fields() handles string/int64/float64/bool/nil/RawMessage natively: only
		// values that reach its reflection arm are drawn here
		g.compositeOnly = false
		kinds = []string{"struct", "ptrnil", "list", "map", "anon", "anonptr", "anonslice", "indentmarshal"}
		if !jsonable {
			kinds = append(kinds, "unmarshalable", "objmarshaler", "badmarshal")
		}
	}
	k := rapid.SampledFrom(kinds).Draw(t, label+".k")
	i := &Iface{K: k}
	switch k {
	case "str":
		i.S = g.Bytes(label + ".s")
		if rapid.IntRange(0, 7).Draw(t, label+".sesc") == 0 {
			// text that looks like what an encoder writes: a literal backslash in front of an escape name,
			// characters encoding/json escapes for HTML, escape sequences spelled out
			i.S = []byte(rapid.SampledFrom([]string{`\u003c`, `a\u0026b`, `\u003e\u003c`, `<&>`, `\\u003c`, `\n`, `\"`, `\u2028`, "\u2028\u2029", `\ud800`, `%s %d`, `{"a":1}`, `\`}).Draw(t, label+".sescv"))
		}
	case "int":
		i.I = g.Int(64, label+".i")
	case "float":
		i.F = g.F64(label + ".f")
		if jsonable {
			f := math.Float64frombits(i.F)
			if math.IsNaN(f) || math.IsInf(f, 0) {
				i.F = math.Float64bits(1.25)
			}
		}
	case "bool":
		i.B = rapid.Bool().Draw(t, label+".b")
	case "badmarshal":
		i.S = g.Bytes(label + ".errtext")
	case "anon", "anonptr", "anonslice", "indentmarshal":
		i.S = g.Bytes(label + ".s")
		i.I = g.Int(64, label+".i")
	case "struct":
		i.S = g.Bytes(label + ".s")
		i.I = g.Int(64, label+".i")
		i.F = math.Float64bits(float64(rapid.IntRange(-5, 5).Draw(t, label+".sf")) / 4)
	case "list":
		n := rapid.IntRange(0, 3).Draw(t, label+".n")
		for j := 0; j < n; j++ {
			i.L = append(i.L, *g.Iface(depth-1, label+".e", jsonable))
		}
	case "map":
		n := rapid.IntRange(0, 3).Draw(t, label+".n")
		seen := map[string]bool{}
		for j := 0; j < n; j++ {
			k := g.Bytes(label + ".mk")
			if seen[string(k)] {
				continue
			}
			seen[string(k)] = true
			i.MK = append(i.MK, k)
			i.L = append(i.L, *g.Iface(depth-1, label+".mv", jsonable))
		}
	case "rawmsg":
		i.S = g.JSONText(label + ".raw")
	case "objmarshaler":
		i.Ops = g.Ops("event", depth-1, label+".ops")
	}
	return i
}

var scalarTypes = []string{"str", "bytes", "hex", "bool", "int", "int8", "int16", "int32", "int64", "uint", "uint8", "uint16", "uint32", "uint64", "float32", "float64", "time", "dur", "anerr", "iface", "ip", "ipnet", "mac", "rawjson"}
var sliceTypes = []string{"strs", "bools", "ints", "ints8", "ints16", "ints32", "ints64", "uints", "uints8", "uints16", "uints32", "uints64", "floats32", "floats64", "times", "durs", "errs"}

// ElemType maps a slice type to its element type.
var ElemType = map[string]string{"strs": "str", "stringers": "stringer", "bools": "bool", "ints": "int", "ints8": "int8", "ints16": "int16", "ints32": "int32", "ints64": "int64",
	"uints": "uint", "uints8": "uint8", "uints16": "uint16", "uints32": "uint32", "uints64": "uint64", "floats32": "float32", "floats64": "float64", "times": "time", "durs": "dur", "errs": "anerr"}

func typesFor(where string, depth int, cfg Cfg) []string {
	var ts []string
	switch where {
	case "event":
		ts = append(ts, scalarTypes...)
		ts = append(ts, sliceTypes...)
		ts = append(ts, "stringer", "stringers", "rawcbor", "timediff", "timestamp", "err", "any", "type", "stack", "ctx", "getctx")
		if !cfg.NoCaller {
			ts = append(ts, "caller")
		}
		// Func at every depth, also in the innermost sub-events (those of Dict, Object, Fields marshalers:
		// events that have no writer of their own): its callback adds scalar fields there
		ts = append(ts, "func")
		if depth > 0 {
			ts = append(ts, "dict", "arr", "arrm", "obj", "embed", "fieldsmap", "fieldsslice", "func", "dict", "arr", "obj", "embed", "fieldsmap", "fieldsslice", "fieldsodd", "fieldsbad")
		}
	case "context":
		ts = append(ts, scalarTypes...)
		ts = append(ts, sliceTypes...)
		ts = append(ts, "stringer", "timestamp", "err", "any", "type", "stack", "ctx", "reset")
		if !cfg.NoCaller {
			ts = append(ts, "caller")
		}
		if depth > 0 {
			ts = append(ts, "dict", "arr", "arrm", "obj", "embed", "fieldsmap", "fieldsslice", "dict", "arr", "obj", "embed", "fieldsmap", "fieldsslice", "fieldsodd", "fieldsbad")
		}
	case "array":
		ts = append(ts, scalarTypes...)
		if depth > 0 {
			ts = append(ts, "obj", "dict", "obj", "dict")
		}
	case "fields":
		ts = append(ts, scalarTypes...)
		for _, s := range sliceTypes {
			if s != "uints8" {
				ts = append(ts, s)
			}
		}
		ts = append(ts, "nil", "ptr", "ptr", "ptr")
		if depth > 0 {
			ts = append(ts, "obj", "obj")
		}
		// hex has no Fields representation
		out := ts[:0]
		for _, x := range ts {
			if x != "hex" {
				out = append(out, x)
			}
		}
		ts = out
	}
	return ts
}

var ptrTypes = []string{"str", "bool", "int", "int8", "int16", "int32", "int64", "uint", "uint8", "uint16", "uint32", "uint64", "float32", "float64", "time", "dur"}

func (g *G) errInto(v *Val, label string) {
	v.EK = rapid.SampledFrom([]string{"plain", "plain", "plain", "nil", "typednil", "objerr", "stacked", "nilslice"}).Draw(g.t, label+".ek")
	if v.EK == "stacked" && g.cfg.C08 {
		v.EK = "plain" // stack frames differ between the two processes of the differential run
	}
	if v.EK == "plain" || v.EK == "objerr" || v.EK == "stacked" {
		v.S = g.Bytes(label + ".et")
	}
}

// Scalar fills a scalar value of type typ.
func (g *G) Scalar(typ string, depth int, label string) Val {
	t := g.t
	v := Val{T: typ}
	switch typ {
	case "str":
		v.S = g.Bytes(label + ".s")
	case "stringer":
		switch rapid.IntRange(0, 7).Draw(t, label+".nil") {
		case 0:
			v.Nil = true
		case 1:
			v.EK = "nilsafe"
		case 2:
			v.EK, v.S = "ptr", g.Bytes(label+".s")
		default:
			v.S = g.Bytes(label + ".s")
		}
	case "bytes", "hex":
		if rapid.IntRange(0, 7).Draw(t, label+".nil") == 0 {
			v.Nil = true
		} else {
			v.S = g.Bytes(label + ".s")
		}
	case "rawjson":
		v.S = g.JSONText(label + ".j")
	case "rawcbor":
		v.S = rapid.SliceOfN(rapid.Byte(), 0, 20).Draw(t, label+".c")
		if rapid.IntRange(0, 3).Draw(t, label+".clong") == 0 {
			// payload lengths on both sides of the one-byte / two-byte length heads
			n := rapid.SampledFrom([]int{23, 24, 25, 30, 255, 256, 300, 400, 1000, 5000}).Draw(t, label+".clen")
			v.S = rapid.SliceOfN(rapid.Byte(), n, n).Draw(t, label+".cl")
		}
		if rapid.IntRange(0, 3).Draw(t, label+".chead") == 0 {
			// "no sanity check is performed on b": payloads that look like CBOR themselves, among them the
			// heads this very field kind is wrapped in (tag 63 + byte string), breaks and open containers
			h := rapid.SampledFrom([][]byte{{0xd8, 0x3f}, {0xd8, 0x3f, 0x43}, {0xd8, 0x3f, 0x58, 0x20}, {0xd8, 0x3f, 0x5f}, {0xbf}, {0xff}, {0x5f}, {0x7f}, {0x9f}, {0xc0}, {0xc1}, {0xd9, 0x01, 0x07}, {0xd9, 0x01, 0x04}, {0xf6}, {0xfb}, {0x5b, 0xff, 0xff}}).Draw(t, label+".chd")
			v.S = append(append([]byte{}, h...), v.S...)
		}
	case "bool":
		v.B = rapid.Bool().Draw(t, label+".b")
	case "int":
		v.I = g.Int(64, label)
	case "int8":
		v.I = g.Int(8, label)
	case "int16":
		v.I = g.Int(16, label)
	case "int32":
		v.I = g.Int(32, label)
	case "int64":
		v.I = g.Int(64, label)
	case "uint":
		v.U = g.Uint(64, label)
	case "uint8":
		v.U = g.Uint(8, label)
	case "uint16":
		v.U = g.Uint(16, label)
	case "uint32":
		v.U = g.Uint(32, label)
	case "uint64":
		v.U = g.Uint(64, label)
	case "float32":
		v.U = g.F32(label)
	case "float64":
		v.U = g.F64(label)
	case "time":
		g.timeInto(&v, label)
	case "dur":
		v.I = g.Dur(label)
	case "timediff":
		g.timeInto(&v, label)
		v.Zero = false
		v.Sec2 = v.Sec + rapid.Int64Range(-5, 5).Draw(t, label+".d2")
		if rapid.IntRange(0, 3).Draw(t, label+".far") == 0 {
			v.Sec2 = rapid.Int64Range(nanoMin, nanoMax).Draw(t, label+".far2")
		}
		v.Nse2 = rapid.SampledFrom([]int64{0, 1, 999999999, 500000000}).Draw(t, label+".n2")
		if rapid.IntRange(0, 7).Draw(t, label+".zerostart") == 0 {
			// a start that was never set (the zero time.Time), or the epoch: the difference is still t - start
			v.Sec2, v.Nse2 = rapid.SampledFrom([]int64{-62135596800, 0}).Draw(t, label+".z2"), 0
		}
	case "timestamp", "caller", "stack", "reset":
	case "ctx":
		v.S = []byte("ctx-" + rapid.StringMatching(`[a-z]{3}`).Draw(t, label+".cm"))
		if rapid.IntRange(0, 4).Draw(t, label+".cnil") == 0 {
			v.S, v.Nil = nil, true
		} else if c := rapid.IntRange(0, 5).Draw(t, label+".calt"); c <= 1 {
			v.EK = "alt" // a context with other keys: what an earlier context carried is not visible through it
		} else if c == 2 {
			v.EK = "cancelled" // hooks see Err() / Done() of the context they are given
		} else if c == 3 {
			v.EK = "deadline"
		}
	case "getctx":
	case "err", "anerr":
		g.errInto(&v, label)
	case "iface", "any":
		g.compositeOnly = g.inFields
		v.If = g.Iface(depth, label+".if", false)
	case "type":
		v.If = g.Iface(1, label+".ty", false)
	case "ip":
		switch c := rapid.IntRange(0, 9).Draw(t, label+".ipc"); {
		case c < 4:
			v.S = rapid.SliceOfN(rapid.Byte(), 4, 4).Draw(t, label+".ip4")
		case c < 8:
			v.S = rapid.SliceOfN(rapid.Byte(), 16, 16).Draw(t, label+".ip6")
		case c == 8:
			v.S = append([]byte{0, 0, 0, 0, 0, 0, 0, 0, 0, 0, 0xff, 0xff}, rapid.SliceOfN(rapid.Byte(), 4, 4).Draw(t, label+".ipm")...)
		default:
			if g.cfg.C08 {
				v.S = []byte{127, 0, 0, 1}
			} else {
				v.Nil = true
			}
		}
	case "ipnet":
		if c := rapid.IntRange(0, 4).Draw(t, label+".v6"); c == 0 {
			// an IPv4-mapped network as net.ParseCIDR("::ffff:a.b.c.d/n") returns it: 16-byte address and mask
			v.S = append([]byte{0, 0, 0, 0, 0, 0, 0, 0, 0, 0, 0xff, 0xff}, rapid.SliceOfN(rapid.Byte(), 4, 4).Draw(t, label+".ipm")...)
			v.Bits = rapid.IntRange(88, 128).Draw(t, label+".bits")
		} else if c <= 2 {
			v.S = rapid.SliceOfN(rapid.Byte(), 16, 16).Draw(t, label+".ip6")
			v.Bits = rapid.IntRange(0, 128).Draw(t, label+".bits")
		} else {
			v.S = rapid.SliceOfN(rapid.Byte(), 4, 4).Draw(t, label+".ip4")
			v.Bits = rapid.IntRange(0, 32).Draw(t, label+".bits")
		}
	case "mac":
		n := 6
		if !g.cfg.C08 {
			n = rapid.SampledFrom([]int{6, 6, 6, 8, 20, 23, 24, 32, 256}).Draw(t, label+".macn") // (20: IP over InfiniBand; longer ones: whatever a driver reports, a net.HardwareAddr is just bytes)
		}
		v.S = rapid.SliceOfN(rapid.Byte(), n, n).Draw(t, label+".mac")
	case "nil":
	default:
		panic("lp gen: scalar type " + typ)
	}
	return v
}

func (g *G) sliceLen(label string) (n int, isNil bool) {
	c := rapid.IntRange(0, 11).Draw(g.t, label+".slc")
	switch {
	case c == 0:
		return 0, true
	case c == 1:
		return 0, false
	case c == 2 && !g.cfg.NoLong:
		return rapid.SampledFrom([]int{23, 24, 25, 255, 256, 257}).Draw(g.t, label+".sll"), false
	}
	return rapid.IntRange(1, 4).Draw(g.t, label+".sln"), false
}

// Val draws a value of one of the types legal at `where`.
func (g *G) Val(where string, depth int, label string) Val {
	t := g.t
	typ := rapid.SampledFrom(g.focused(typesFor(where, depth, g.cfg))).Draw(t, label+".typ")
	return g.ValOf(typ, where, depth, label)
}

func (g *G) ValOf(typ, where string, depth int, label string) Val {
	t := g.t
	if et, ok := ElemType[typ]; ok {
		v := Val{T: typ}
		n, isNil := g.sliceLen(label)
		v.Nil = isNil
		if n > 4 {
			// long slices: cheap elements
			e := g.Scalar(et, 0, label+".e0")
			for i := 0; i < n; i++ {
				v.L = append(v.L, e)
			}
			return v
		}
		for i := 0; i < n; i++ {
			v.L = append(v.L, g.Scalar(et, 0, label+".e"))
		}
		return v
	}
	switch typ {
	case "ptr":
		pt := rapid.SampledFrom(ptrTypes).Draw(t, label+".pt")
		v := g.Scalar(pt, 0, label+".pv")
		v.Zero = false
		v.Ptr = true
		v.Nil = rapid.IntRange(0, 2).Draw(t, label+".pnil") == 0
		return v
	case "dict", "func":
		return Val{T: typ, Ops: g.Ops("event", depth-1, label+".sub")}
	case "obj", "embed":
		if where != "array" && where != "fields" && rapid.IntRange(0, 6).Draw(t, label+".onil") == 0 {
			return Val{T: typ, Nil: true}
		}
		if rapid.IntRange(0, 7).Draw(t, label+".otnil") == 0 {
			// a typed nil: a nil pointer with a nil-safe method, a nil map with a value receiver -- not the nil
			// interface, so every entry point calls the method and gets an object without fields
			return Val{T: typ, EK: rapid.SampledFrom([]string{"nilptr", "nilmap"}).Draw(t, label+".otk")}
		}
		return Val{T: typ, Ops: g.Ops("event", depth-1, label+".sub")}
	case "arr", "arrm":
		v := Val{T: typ}
		n := rapid.IntRange(0, 4).Draw(t, label+".an")
		for i := 0; i < n; i++ {
			v.L = append(v.L, g.Val("array", depth-1, label+".ae"))
		}
		return v
	case "fieldsbad":
		return Val{T: typ, I: int64(rapid.IntRange(0, 4).Draw(t, label+".bad"))}
	case "fieldsmap", "fieldsslice", "fieldsodd":
		v := Val{T: typ}
		n := rapid.IntRange(0, 4).Draw(t, label+".fn")
		seen := map[string]bool{}
		for i := 0; i < n; i++ {
			k := g.Key(label + ".fk")
			if typ == "fieldsmap" && seen[string(k)] {
				continue
			}
			seen[string(k)] = true
			g.inFields = true
			fv := g.Val("fields", depth-1, label+".fv")
			g.inFields = false
			op := Op{K: k, V: fv}
			if typ != "fieldsmap" && rapid.IntRange(0, 7).Draw(t, label+".badkey") == 0 {
				op.BadKey = true
			}
			v.Ops = append(v.Ops, op)
		}
		return v
	}
	return g.Scalar(typ, depth, label)
}

// Ops draws a list of field operations for Event ("event") or Context ("context").
func (g *G) Ops(where string, depth int, label string) []Op {
	if depth < 0 {
		depth = 0
	}
	n := rapid.IntRange(0, g.cfg.MaxOps).Draw(g.t, label+".nops")
	ops := make([]Op, 0, n)
	if g.focus == "errors" && n > 0 && (where == "event" || where == "context") && rapid.Bool().Draw(g.t, label+".stackfirst") {
		// the stack marshaler is consulted only after Stack(): switch it on before the error-bearing fields
		ops = append(ops, Op{V: Val{T: "stack"}})
	}
	for i := 0; i < n; i++ {
		v := g.Val(where, depth, label+".v")
		op := Op{V: v}
		switch v.T {
		case "embed", "fieldsmap", "fieldsslice", "fieldsodd", "fieldsbad", "func", "stack", "ctx", "timestamp", "caller", "err", "reset":
			if v.T == "getctx" {
				op.K = g.Key(label + ".k")
			}
		default:
			op.K = g.Key(label + ".k")
		}
		ops = append(ops, op)
	}
	return ops
}

func optBytes(g *G, label string, p int) *[]byte {
	if rapid.IntRange(0, p).Draw(g.t, label+".set") != 0 {
		return nil
	}
	b := g.Bytes(label)
	return &b
}

var layouts = []string{"RFC3339", "RFC3339", "RFC3339Nano", "UNIX", "UNIXMS", "UNIXMICRO", "UNIXNANO", "Mon, 02 Jan 2006 15:04:05 MST", "3:04PM", "2006-01-02", "é 2006 €", "Jan _2 15:04:05.000000000", "15:04:05.000Z07:00", "20060102T150405"}

func (g *G) Settings() Settings {
	t := g.t
	s := DefaultSettings()
	if !g.cfg.NoFocus && rapid.IntRange(0, 3).Draw(t, "focus") == 0 {
		g.focus = rapid.SampledFrom(focusNames).Draw(t, "focus.which")
	}
	if g.cfg.NoSettings {
		g.set = s
		return s
	}
	s.LevelField = optBytes(g, "set.level", 5)
	s.MessageField = optBytes(g, "set.msg", 5)
	s.TimeField = optBytes(g, "set.time", 5)
	s.ErrorField = optBytes(g, "set.err", 5)
	s.CallerField = optBytes(g, "set.caller", 7)
	s.StackField = optBytes(g, "set.stack", 7)
	s.LevelValues = optBytes(g, "set.lv", 7)
	if g.cfg.C08 {
		s.TimeFormat = rapid.SampledFrom([]string{"RFC3339Nano", "UNIXNANO", "UNIXMICRO", "RFC3339Nano"}).Draw(t, "set.tf")
	} else {
		s.TimeFormat = rapid.SampledFrom(layouts).Draw(t, "set.tf")
	}
	s.DurUnit = rapid.SampledFrom([]int64{0, 0, 1, 1000, 1000000, 1000000000, 60000000000, 7, 3600000000000}).Draw(t, "set.du")
	s.DurInt = rapid.IntRange(0, 2).Draw(t, "set.di") == 0
	s.DefaultCtx = g.cfg.Tree && rapid.IntRange(0, 3).Draw(t, "set.defctx") == 0
	if !g.cfg.C08 && rapid.IntRange(0, 11).Draw(t, "set.duzero") == 0 {
		// DurationFieldUnit = 0 in float mode: every duration becomes +Inf, -Inf or NaN, which the float
		// encoders know how to write (integer mode would divide by zero in the caller's goroutine)
		s.DurUnit, s.DurInt = -1, false
	}
	if !g.cfg.C08 {
		s.FloatPrec = rapid.SampledFrom([]int{-1, -1, -1, -1, -1, 0, 1, 2, 3, 17, -2}).Draw(t, "set.fp")
	}
	s.ErrMarshal = rapid.SampledFrom([]string{"", "", "", "string", "obj", "othererr", "nil", "struct", "nilobj"}).Draw(t, "set.em")
	s.StackMarshal = rapid.SampledFrom([]string{"", "", "nil", "string", "error", "obj", "frames", "nilerr"}).Draw(t, "set.sm")
	s.IfaceMarshal = rapid.SampledFrom([]string{"", "", "", "stdjson", "wrap", "fail"}).Draw(t, "set.im")
	if s.IfaceMarshal == "fail" {
		// lengths on both sides of the string-head boundaries once "marshaling error: " (17 bytes) is put in front
		n := rapid.SampledFrom([]int{0, 1, 5, 6, 7, 16, 23, 24, 100, 238, 239, 300}).Draw(t, "set.imerrlen")
		s.IfaceErr = strings.Repeat("e", n)
		if n >= 5 && rapid.Bool().Draw(t, "set.imerrq") {
			s.IfaceErr = `q"\` + s.IfaceErr[3:] // text that needs escaping
		}
	}
	s.LevelMarshal = rapid.SampledFrom([]string{"", "", "", "", "upper", "total", "merged"}).Draw(t, "set.lm")
	if rapid.IntRange(0, 5).Draw(t, "set.glow") == 0 {
		s.GlobalLow = rapid.SampledFrom([]int{8, 8, 3, 128}).Draw(t, "set.glowv")
	}
	switch g.focus {
	case "errors":
		s.ErrMarshal = rapid.SampledFrom([]string{"", "string", "obj", "othererr", "nil", "struct", "nilobj"}).Draw(t, "set.em2")
		s.StackMarshal = rapid.SampledFrom([]string{"nil", "string", "error", "obj", "frames", "nilerr", "pkgerrors", "pkgerrors"}).Draw(t, "set.sm2")
		if g.cfg.C08 && s.StackMarshal == "pkgerrors" {
			s.StackMarshal = "frames"
		}
	case "time":
		if !g.cfg.C08 {
			s.TimeFormat = rapid.SampledFrom([]string{"UNIX", "UNIXMS", "UNIXMICRO", "UNIXNANO", "RFC3339Nano", "RFC3339"}).Draw(t, "set.tf2")
		}
	}
	if rapid.Bool().Draw(t, "set.clk") {
		s.ClockSec = rapid.Int64Range(-4294967296, 4294967296).Draw(t, "set.clks")
		s.ClockNsec = rapid.SampledFrom([]int64{0, 1000, 999999000, 123456000}).Draw(t, "set.clkn")
	}
	g.set = s
	return s
}

func (g *G) Hook(id int, label string) HookSpec {
	t := g.t
	h := HookSpec{ID: id}
	h.Kind = rapid.SampledFrom([]string{"add", "add", "add", "getctx", "getctxif", "noop", "discard"}).Draw(t, label+".hk")
	if g.focus == "goctx" && rapid.Bool().Draw(t, label+".hkctx") {
		h.Kind = rapid.SampledFrom([]string{"getctx", "getctxif"}).Draw(t, label+".hkctxk") // programs about the Go context: hooks that read it
	}
	h.Wrap = rapid.SampledFrom([]string{"", "", "func", "level", "levelsome"}).Draw(t, label+".hw")
	if g.set.GlobalLow > 0 && rapid.Bool().Draw(t, label+".hwlow") {
		h.Wrap = "level" // custom verbose levels are where a LevelHook must stay silent
	}
	if rapid.IntRange(0, 9).Draw(t, label+".hnil") == 0 && len(g.nilHooks) < 2 {
		// a hook whose interface value has a nil data word (typed-nil pointer with a nil-safe Run, a
		// struct around one nil pointer): it is a hook like any other and adds its field
		h.Kind, h.Wrap = "add", rapid.SampledFrom([]string{"nilptr", "nilfield"}).Draw(t, label+".hnilkind")
		if g.nilHooks[h.Wrap] {
			h.Wrap = map[string]string{"nilptr": "nilfield", "nilfield": "nilptr"}[h.Wrap] // one of each kind per program
		}
		if g.nilHooks == nil {
			g.nilHooks = map[string]bool{}
		}
		g.nilHooks[h.Wrap] = true
		h.Ops = []Op{{K: []byte(NilHookKey), V: Val{T: "str", S: []byte("ran")}}}
		return h
	}
	switch h.Kind {
	case "add":
		save := g.cfg.MaxOps
		g.cfg.MaxOps = 2
		h.Ops = g.Ops("event", 1, label+".hops")
		g.cfg.MaxOps = save
	case "getctx", "getctxif":
		h.K = g.Key(label + ".hkey")
	}
	return h
}

func (g *G) Steps(label string, maxSteps int) []Step {
	t := g.t
	n := rapid.IntRange(0, maxSteps).Draw(t, label+".nsteps")
	var steps []Step
	hid := 0
	// canUpdate[i]: node i is a logger just produced by With() (possibly updated since)
	// and nothing has been derived from it yet
	canUpdate := map[int]bool{}
	alias := map[int]int{} // update steps alias their parent node
	resolve := func(i int) int {
		for {
			a, ok := alias[i]
			if !ok {
				return i
			}
			i = a
		}
	}
	// burst: a run of single-element derivations followed by siblings from the run's last node.
	// Slices grown one element at a time end up with spare capacity (len 3, cap 4), which is the
	// shape in which aliasing between sibling loggers shows.
	burstLeft, burstKind, burstNode, sibLeft := 0, "", -2, 0
	if g.cfg.Tree && n >= 5 && rapid.IntRange(0, 3).Draw(t, label+".burst") == 0 {
		burstLeft = rapid.IntRange(3, 5).Draw(t, label+".burstlen")
		burstKind = rapid.SampledFrom([]string{"hook", "with"}).Draw(t, label+".burstkind")
		if g.cfg.NoHooks {
			burstKind = "with"
		}
		sibLeft = rapid.IntRange(2, 3).Draw(t, label+".sibs")
	}
	// update pattern: With() logger a, a Level/Hook/Sample copy b of it, then UpdateContext on a
	// (half of the time starting with Reset): b shares a's backing array and must not notice
	patAt, patKind := -1, ""
	if g.cfg.Tree && n >= 4 && burstLeft == 0 && rapid.IntRange(0, 3).Draw(t, label+".updpat") == 0 {
		// "copy":     With() logger a; a Level/Hook/Sample/ctx copy b of it; UpdateContext on a
		// "disabled": Level(Disabled) logger d; a = d.With()...; UpdateContext on a; a.Level(enabled):
		//             the update of a logger that is switched off must still be there when a child switches it on
		// "disabledctx": the same with a round trip through a context that already carries a logger
		//             (WithContext stores a Disabled logger there) in place of the update
		// "ctxhooks": two hooks; a child that gets a third through a Context method (Timestamp); two
		//             children of that child that get theirs the same way (Caller / Timestamp): hook
		//             slices grown by append have spare capacity, and the siblings must not share it
		// "disabledsibs": a Disabled logger with fields, two With() children of it, the first one re-enabled
		//             by Level(): being switched off is no reason to share a context buffer
		// "stackout":  With().Stack() and then Output/Level/Sample/Hook: every derivation keeps the stack flag
		patKind = rapid.SampledFrom([]string{"copy", "copy", "disabled", "disabledctx", "ctxhooks", "disabledsibs", "stackout"}).Draw(t, label+".updkind")
		if patKind == "disabledsibs" && n < 5 {
			patKind = "disabled"
		}
		if patKind == "ctxhooks" && (g.cfg.NoHooks || g.cfg.NoCaller) {
			patKind = "copy"
		}
		patAt = rapid.IntRange(0, n-4).Draw(t, label+".updat")
		if patKind == "disabledsibs" {
			patAt = rapid.IntRange(0, n-5).Draw(t, label+".updat5")
		}
	}
	patReset := false
	forceLevel, forceN := 99, -1
	forceStack := false
	sibCtxHook, nSibCtx, ctxHookNh := false, 0, 0
	for i := 0; i < n; i++ {
		parent := i - 1
		var from *int
		forced := ""
		switch {
		case patKind == "copy" && i == patAt:
			forced = "with"
		case patKind == "copy" && i == patAt+1:
			forced = rapid.SampledFrom([]string{"level", "sample", "hook", "viactx", "output"}).Draw(t, label+".updcopy")
			if g.cfg.NoHooks && forced == "hook" {
				forced = "level"
			}
			f := patAt
			from, parent = &f, f
		case patKind == "copy" && i == patAt+2:
			forced = "update"
			f := patAt
			from, parent = &f, f
			patReset = rapid.Bool().Draw(t, label+".updreset")
		case patKind == "stackout" && i == patAt:
			forced, forceStack = "with", true
		case patKind == "stackout" && i == patAt+1:
			forced = rapid.SampledFrom([]string{"output", "output", "level", "sample", "hook"}).Draw(t, label+".stackcopy")
			if g.cfg.NoHooks && forced == "hook" {
				forced = "output"
			}
			f := patAt
			from, parent = &f, f
		case patKind == "ctxhooks" && i == patAt:
			forced, ctxHookNh = "hook", 2
		case patKind == "ctxhooks" && i >= patAt+1 && i <= patAt+3:
			forced, sibCtxHook = "with", true
			f := patAt + 1 // the two siblings hang off the first Context-method child
			if i == patAt+1 {
				f = patAt
			}
			from, parent = &f, f
		case patKind == "disabledsibs" && i == patAt:
			forced, forceLevel = "level", 7
		case patKind == "disabledsibs" && i == patAt+1:
			forced = "with"
			f := patAt
			from, parent = &f, f
		case patKind == "disabledsibs" && (i == patAt+2 || i == patAt+3):
			forced = "with"
			f := patAt + 1
			from, parent = &f, f
		case patKind == "disabledsibs" && i == patAt+4:
			forced, forceLevel = "level", rapid.SampledFrom([]int{-1, 0, 1}).Draw(t, label+".updon")
			f := patAt + 2
			from, parent = &f, f
		case (patKind == "disabled" || patKind == "disabledctx") && i == patAt:
			forced, forceLevel = "level", 7
		case (patKind == "disabled" || patKind == "disabledctx") && i == patAt+1:
			forced = "with"
			f := patAt
			from, parent = &f, f
		case patKind == "disabledctx" && i == patAt+2:
			forced, forceN = "viactx", 1
			if g.set.DefaultCtx && rapid.Bool().Draw(t, label+".ctxempty") {
				forceN = 0 // a context without a logger: Ctx falls back to the program's DefaultContextLogger
			}
			f := patAt + 1
			from, parent = &f, f
		case patKind == "disabledctx" && i == patAt+3:
			forced, forceLevel = "level", rapid.SampledFrom([]int{-1, 0, 1}).Draw(t, label+".updon")
			f := patAt + 2
			from, parent = &f, f
		case patKind == "disabled" && i == patAt+2:
			forced = "update"
			f := patAt + 1
			from, parent = &f, f
			patReset = rapid.IntRange(0, 3).Draw(t, label+".updreset") == 0
		case patKind == "disabled" && i == patAt+3:
			forced, forceLevel = "level", rapid.SampledFrom([]int{-1, 0, 1}).Draw(t, label+".updon")
			f := patAt + 1
			from, parent = &f, f
		case burstLeft > 0:
			burstLeft--
			forced = burstKind
			if burstLeft == 0 {
				burstNode = i
			}
		case sibLeft > 0 && burstNode >= 0:
			sibLeft--
			forced = burstKind
			if burstKind == "hook" && !g.cfg.NoSettings && rapid.Bool().Draw(t, label+".sibctxhook") {
				// a sibling that gets its hook through a Context method (Timestamp, Caller) rather than Hook()
				forced, sibCtxHook = "with", true
			}
			f := burstNode
			from, parent = &f, f
		}
		if forced == "" && g.cfg.Tree && i > 0 && rapid.IntRange(0, 2).Draw(t, label+".branch") == 0 {
			f := rapid.IntRange(-1, i-1).Draw(t, label+".from")
			from = &f
			parent = f
		}
		kinds := []string{"with", "with", "with", "level", "output", "sample"}
		if g.cfg.Tree {
			kinds = append(kinds, "viactx")
		}
		if !g.cfg.NoHooks {
			kinds = append(kinds, "hook", "hook")
		}
		if parent >= 0 && canUpdate[resolve(parent)] {
			kinds = append(kinds, "update", "update")
		}
		if g.set.DefaultCtx {
			kinds = append(kinds, "updatedefault")
		}
		if parent >= 0 && g.cfg.Tree && !g.cfg.NoHooks {
			kinds = append(kinds, "rehook")
		}
		k := rapid.SampledFrom(kinds).Draw(t, label+".sk")
		if forced != "" {
			k = forced
		} else if i == 0 && g.set.GlobalLow > 0 && rapid.Bool().Draw(t, label+".opengate") {
			k = "level" // the root logger's level is Trace: lower it, or no custom verbose level gets through
		}
		st := Step{Kind: k, From: from}
		switch k {
		case "updatedefault":
			// plain fields only: what an UpdateContext function adds besides bytes (hooks, flags) does not survive it
			for _, op := range g.Ops("context", g.cfg.MaxDepth-1, label+".dops") {
				switch op.V.T {
				case "stack", "ctx", "timestamp", "caller", "reset", "getctx":
				default:
					st.Ops = append(st.Ops, op)
				}
			}
		case "with", "update":
			st.Ops = g.Ops("context", g.cfg.MaxDepth-1, label+".cops")
			if sibCtxHook {
				sibCtxHook = false
				kind := []string{"timestamp", "caller"}[nSibCtx%2]
				if g.cfg.NoCaller {
					kind = "timestamp"
				}
				nSibCtx++
				st.Ops = []Op{{V: Val{T: kind}}}
			}
			if forceStack && k == "with" {
				forceStack = false
				st.Ops = append([]Op{{V: Val{T: "stack"}}}, st.Ops...)
			}
			if forced == "update" && patReset {
				st.Ops = append([]Op{{V: Val{T: "reset"}}}, st.Ops...)
			} else if g.cfg.Tree && rapid.IntRange(0, 5).Draw(t, label+".reset") == 0 {
				// Context.Reset is a rare entry point: make sure it occurs, also at the head of an
				// UpdateContext on a logger that already has Level/Sample/Hook children
				st.Ops = append([]Op{{V: Val{T: "reset"}}}, st.Ops...)
			}
			if len(st.Ops) > 1 && st.Ops[0].V.T == "reset" && rapid.IntRange(0, 3).Draw(t, label+".resetonly") == 0 {
				st.Ops = st.Ops[:1] // Reset and nothing after it: the logger ends up without any context field
			}
		case "hook", "rehook":
			nh := rapid.IntRange(1, 3).Draw(t, label+".nh")
			if forced != "" {
				nh = 1
			}
			if ctxHookNh > 0 {
				nh, ctxHookNh = ctxHookNh, 0
			}
			for j := 0; j < nh; j++ {
				hid++
				st.Hooks = append(st.Hooks, g.Hook(hid, label+".h"))
			}
		case "level":
			st.Level = rapid.SampledFrom([]int{-1, -1, 0, 0, 1, -5, -8, 3, 7, 7, 6, 5}).Draw(t, label+".lvl")
			if g.set.GlobalLow > 0 && rapid.Bool().Draw(t, label+".lvllow") {
				st.Level = rapid.SampledFrom([]int{-8, -8, -5, -128, -3}).Draw(t, label+".lvllowv")
			}
			if forced == "level" && forceLevel != 99 {
				st.Level, forceLevel = forceLevel, 99
			}
		case "viactx":
			st.N = uint32(rapid.IntRange(0, 1).Draw(t, label+".ctxhas"))
			if forced == "viactx" && forceN >= 0 {
				st.N, forceN = uint32(forceN), -1
			}
		case "output":
			if g.cfg.Tree && rapid.IntRange(0, 3).Draw(t, label+".mute") == 0 {
				st.N = uint32(rapid.IntRange(1, 2).Draw(t, label+".mutekind")) // 1 io.Discard, 2 nil
			}
		case "sample":
			st.Sampler = rapid.SampledFrom([]string{"all", "all", "all", "basic", "basic", "none", "nil", "nil"}).Draw(t, label+".smp")
			st.N = uint32(rapid.IntRange(1, 2).Draw(t, label+".smpn"))
		}
		if InPlace(k) {
			alias[i] = parent
			if k == "rehook" {
				canUpdate[resolve(parent)] = false // the variable now holds a Hook() child: its context array is shared with the old value
			}
		} else {
			// a child made by With() or Output() copies the context; Level/Sample/Hook children
			// share the parent's backing array but never append to it (they are not updatable), so the
			// parent may still be updated afterwards
			canUpdate[i] = k == "with"
		}
		steps = append(steps, st)
	}
	return steps
}

func (g *G) Event(label string) EventSpec {
	t := g.t
	ev := EventSpec{}
	ev.Method = rapid.SampledFrom([]string{"trace", "debug", "info", "warn", "error", "log", "err", "withlevel"}).Draw(t, label+".m")
	switch ev.Method {
	case "err":
		v := Val{T: "err"}
		g.errInto(&v, label+".errv")
		ev.ErrV = &v
	case "withlevel":
		ev.Level = rapid.SampledFrom([]int{-1, 0, 1, 2, 3, 4, 5, 6, 8, 42, -7, 127, -2, -3, -5}).Draw(t, label+".wl")
	}
	if g.set.GlobalLow > 0 && rapid.Bool().Draw(t, label+".lowev") {
		ev.Method, ev.ErrV = "withlevel", nil
		ev.Level = rapid.SampledFrom([]int{-2, -2, -3, -5, -8, -128}).Draw(t, label+".lowlvl")
	}
	dp := 9
	if g.focus == "goctx" {
		dp = 2 // programs about the Go context: does it reach hooks from every entry point
	}
	if !g.cfg.NoDirect && rapid.IntRange(0, dp).Draw(t, label+".direct") == 0 {
		// the entry points that take the whole event in one call: Logger.Write (the io.Writer a standard
		// log.Logger, io.Copy or fmt.Fprint writes to) and Print/Printf/Println
		ev = EventSpec{Method: rapid.SampledFrom([]string{"write", "stdlog", "print", "printf", "println"}).Draw(t, label+".dm"), Fin: "msg"}
		if rapid.IntRange(0, 5).Draw(t, label+".dhasmsg") != 0 {
			ev.Msg = g.Bytes(label + ".dmsg")
			if rapid.IntRange(0, 3).Draw(t, label+".dnl") == 0 {
				ev.Msg = append(ev.Msg, rapid.SampledFrom([]string{"\n", "\n\n", "\r\n", " %d", "\nsecond line"}).Draw(t, label+".dnlv")...)
			}
		}
		return ev
	}
	ev.Ops = g.Ops("event", g.cfg.MaxDepth, label+".ops")
	ev.Fin = rapid.SampledFrom([]string{"msg", "msg", "msgf", "msgf2", "msgf0", "msgfunc", "send"}).Draw(t, label+".fin")
	if ev.Fin != "send" && rapid.IntRange(0, 4).Draw(t, label+".hasmsg") != 0 {
		ev.Msg = g.Bytes(label + ".msg")
		if rapid.IntRange(0, 3).Draw(t, label+".pct") == 0 {
			ev.Msg = append(ev.Msg, rapid.SampledFrom([]string{"%", "100%%", "v=%d", "%s", "%v%%"}).Draw(t, label+".pctv")...)
		}
	}
	return ev
}

// Program draws a complete program. With cfg.Tree the derivation is a tree, events pick
// any node, and steps, events and open/finish halves of events are interleaved.
// scale blows one dimension of the program up to what long-running services reach: sizes and counts
// beyond any fixed-size fast path, small counter or first growth step.
func (g *G) scale(p *Program) {
	t := g.t
	dims := []string{"wideevent", "widectx", "deep", "manyhooks", "longchain"}
	if !g.cfg.NoLong {
		dims = append(dims, "longkey")
	}
	if !g.cfg.Tree {
		dims = append(dims, "manyevents")
	}
	if g.cfg.NoHooks {
		dims = dims[:3]
	}
	ei := rapid.IntRange(0, len(p.Events)-1).Draw(t, "scale.ev")
	switch d := rapid.SampledFrom(dims).Draw(t, "scale.dim"); d {
	case "wideevent", "widectx":
		n := rapid.SampledFrom([]int{17, 33, 65, 129, 257, 300}).Draw(t, "scale.n")
		var ops []Op
		for i := 0; i < n; i++ {
			ops = append(ops, Op{K: []byte(fmt.Sprintf("w%03d", i)), V: Val{T: "int", I: int64(i)}})
		}
		if d == "widectx" {
			for i := range p.Steps {
				if p.Steps[i].Kind == "with" {
					p.Steps[i].Ops = append(p.Steps[i].Ops, ops...)
					return
				}
			}
		}
		p.Events[ei].Ops = append(p.Events[ei].Ops, ops...)
	case "deep":
		depth := rapid.SampledFrom([]int{9, 17, 33, 65}).Draw(t, "scale.depth")
		v := Val{T: "dict", Ops: []Op{{K: []byte("leaf"), V: Val{T: "bool", B: true}}}}
		for i := 0; i < depth; i++ {
			v = Val{T: "dict", Ops: []Op{{K: []byte("i"), V: Val{T: "int", I: int64(i)}}, {K: []byte("d"), V: v}}}
		}
		p.Events[ei].Ops = append(p.Events[ei].Ops, Op{K: []byte("deep"), V: v})
	case "longkey":
		n := rapid.SampledFrom([]int{300, 5000, 70000}).Draw(t, "scale.keylen")
		p.Events[ei].Ops = append(p.Events[ei].Ops, Op{K: bytes.Repeat([]byte("k"), n), V: Val{T: "int", I: 1}})
	case "manyhooks":
		n := rapid.SampledFrom([]int{17, 65, 129, 257, 300}).Draw(t, "scale.nhooks")
		for i := range p.Steps {
			if p.Steps[i].Kind == "hook" {
				for k := 0; k < n; k++ {
					h := HookSpec{ID: 1000 + k, Kind: "noop"}
					if k%16 == 0 {
						h = HookSpec{ID: 1000 + k, Kind: "add", Ops: []Op{{K: []byte(fmt.Sprintf("hk%03d", k)), V: Val{T: "int", I: int64(k)}}}}
					}
					p.Steps[i].Hooks = append(p.Steps[i].Hooks, h)
				}
				return
			}
		}
	case "longchain":
		n := rapid.SampledFrom([]int{40, 130, 260}).Draw(t, "scale.chain")
		for i := 0; i < n; i++ {
			p.Steps = append(p.Steps, Step{Kind: "with", Ops: []Op{{K: []byte(fmt.Sprintf("c%03d", i)), V: Val{T: "int", I: int64(i)}}}})
		}
	case "manyevents":
		n := rapid.SampledFrom([]int{70, 300}).Draw(t, "scale.nevents")
		// many copies of a small event; a large one is repeated only as often as keeps the program below
		// a few megabytes (the harnesses serialise every program, also in 32-bit builds)
		if b, err := json.Marshal(p.Events[ei]); err == nil && n*len(b) > 4<<20 {
			n = (4 << 20) / len(b)
		}
		for i := 0; i < n; i++ {
			p.Events = append(p.Events, p.Events[ei])
		}
	}
}

func (g *G) Program(maxSteps, maxEvents int) *Program {
	t := g.t
	p := &Program{}
	p.Set = g.Settings()
	p.Steps = g.Steps("steps", maxSteps)
	n := rapid.IntRange(1, maxEvents).Draw(t, "nevents")
	for i := 0; i < n; i++ {
		p.Events = append(p.Events, g.Event("ev"))
	}
	if !g.cfg.NoScale && rapid.IntRange(0, 24).Draw(t, "scale") == 0 {
		g.scale(p)
		n = len(p.Events)
	}
	if !g.cfg.Tree {
		return p
	}
	// interleave: each event is placed after a random prefix of the steps and logs through a
	// node that exists by then; some events are opened early and finished later
	type slot struct{ after int } // number of steps executed before the event
	var order []Act
	pos := make([]int, n)
	for j := 0; j < n; j++ {
		pos[j] = rapid.IntRange(0, len(p.Steps)).Draw(t, "ev.after")
	}
	// events keep their index order among themselves: sort positions
	for a := 1; a < n; a++ {
		for b := a; b > 0 && pos[b] < pos[b-1]; b-- {
			pos[b], pos[b-1] = pos[b-1], pos[b]
		}
	}
	var openEv []int
	si := 0
	closeSome := func(force bool) {
		for len(openEv) > 0 && (force || rapid.Bool().Draw(t, "ev.close")) {
			k := rapid.IntRange(0, len(openEv)-1).Draw(t, "ev.closewhich")
			order = append(order, Act{"fin", openEv[k]})
			openEv = append(openEv[:k], openEv[k+1:]...)
		}
	}
	for j := 0; j < n; j++ {
		for si < pos[j] {
			order = append(order, Act{"step", si})
			si++
			closeSome(false)
		}
		if pos[j] > 0 || len(p.Steps) == 0 {
			nd := rapid.IntRange(-1, pos[j]-1).Draw(t, "ev.node")
			p.Events[j].Node = &nd
		} else {
			nd := -1
			p.Events[j].Node = &nd
		}
		if !Direct(p.Events[j].Method) && rapid.IntRange(0, 2).Draw(t, "ev.open") == 0 {
			order = append(order, Act{"open", j})
			openEv = append(openEv, j)
		} else {
			order = append(order, Act{"event", j})
		}
		closeSome(false)
	}
	for si < len(p.Steps) {
		order = append(order, Act{"step", si})
		si++
	}
	closeSome(true)
	p.Order = order
	return p
}
