package lp

import (
	"bytes"
	"encoding/base64"
	"encoding/hex"
	"encoding/json"
	"fmt"
	"math"
	"reflect"
	"sort"
	"strconv"
	"strings"
	"time"
	"unicode/utf8"

	"github.com/rs/zerolog"
	"verif/harness/jsonref"
)

func zl(l int) zerolog.Level { return zerolog.Level(l) }

// Exp is an expected JSON value.
//
// Kinds: str num f32 f64 null bool arr obj jsoneq any anystr anynum
type Exp struct {
	Kind string
	S    string // str: decoded text; num: exact raw text; jsoneq: JSON text
	Alt  string // num: alternative accepted raw text ("" = none)
	Bits uint64 // f32/f64
	B    bool
	A    []Exp
	O    []ExpField
	Role string // "level" | "message" | "" (top-level fields only)

	// hints for the CBOR representation (ignored by the JSON matcher)
	CK string // "" | bytes | hex | rawcbor | addr | ipnet | time | f32 | f64 | embjson
	CB []byte // raw payload for bytes/hex/rawcbor/addr/ipnet
	CI int64  // time: unix seconds ; ipnet: prefix length
	CN int64  // time: nanoseconds
}

type ExpField struct {
	Key string
	V   Exp
}

// ValidText maps bytes to the text a JSON decoder must yield: each invalid
// UTF-8 byte becomes U+FFFD (as encoding/json does).
func ValidText(b []byte) string {
	if utf8.Valid(b) {
		return string(b)
	}
	var o []byte
	for len(b) > 0 {
		r, sz := utf8.DecodeRune(b)
		if r == utf8.RuneError && sz == 1 {
			o = append(o, "�"...)
		} else {
			o = append(o, b[:sz]...)
		}
		b = b[sz:]
	}
	return string(o)
}

func str(b []byte) Exp  { return Exp{Kind: "str", S: ValidText(b)} }
func strS(s string) Exp { return Exp{Kind: "str", S: ValidText([]byte(s))} }

var null = Exp{Kind: "null"}

// Model computes expectations under fixed settings.
type Model struct {
	// Def: context fields of the DefaultContextLogger the program installed (shared: updatedefault steps change it)
	Def *[]ExpField
	Set Settings
	// StrictCtx: GetCtx read inside a fresh sub-event (Dict(), Context.Object, Array.Object,
	// Fields marshalers) must be the background context (C05); otherwise any string.
	StrictCtx bool
}

// state of an event under construction
type evState struct {
	stack bool
	ctx   string
	fresh bool // a sub-event created by Dict()/Context.Object()/Array.Object(): no logger behind it
	// discarded: a hook called Discard(); Func callbacks (and the Func-based getctx op) no longer run
	discarded bool
}

func (m Model) levelField() (string, bool) {
	if m.Set.LevelField == nil {
		return "level", true
	}
	if len(*m.Set.LevelField) == 0 {
		return "", false
	}
	return ValidText(*m.Set.LevelField), true
}

func fieldName(p *[]byte, def string) string {
	if p == nil {
		return def
	}
	return ValidText(*p)
}

func (m Model) msgField() string    { return fieldName(m.Set.MessageField, "message") }
func (m Model) timeField() string   { return fieldName(m.Set.TimeField, "time") }
func (m Model) errField() string    { return fieldName(m.Set.ErrorField, "error") }
func (m Model) callerField() string { return fieldName(m.Set.CallerField, "caller") }
func (m Model) stackField() string  { return fieldName(m.Set.StackField, "stack") }

// LevelText is the documented text form of a level under the settings.
func (m Model) LevelText(l int) string {
	switch m.Set.LevelMarshal {
	case "upper":
		m2 := m
		m2.Set.LevelMarshal = ""
		return strings.ToUpper(m2.LevelText(l))
	case "total":
		return TotalLevelText(zerolog.Level(l))
	case "merged":
		switch l {
		case -1, 0:
			return "DEBUG"
		case 3, 4, 5:
			return "ERROR"
		}
		m2 := m
		m2.Set.LevelMarshal = ""
		return strings.ToUpper(m2.LevelText(l)) // Level.String() under the configured level values
	}
	p := ""
	if m.Set.LevelValues != nil {
		p = string(*m.Set.LevelValues)
	}
	switch l {
	case -1:
		return p + "trace"
	case 0:
		return p + "debug"
	case 1:
		return p + "info"
	case 2:
		return p + "warn"
	case 3:
		return p + "error"
	case 4:
		return p + "fatal"
	case 5:
		return p + "panic"
	case 7:
		return "disabled"
	case 6:
		return ""
	}
	return strconv.Itoa(l)
}

func (m Model) float(bits uint64, size int) Exp {
	e := m.float0(bits, size)
	e.CK = "f64"
	if size == 32 {
		e.CK = "f32"
	}
	e.Bits = bits
	return e
}

func (m Model) float0(bits uint64, size int) Exp {
	var f float64
	if size == 32 {
		f = float64(math.Float32frombits(uint32(bits)))
	} else {
		f = math.Float64frombits(bits)
	}
	switch {
	case math.IsNaN(f):
		return strS("NaN")
	case math.IsInf(f, 1):
		return strS("+Inf")
	case math.IsInf(f, -1):
		return strS("-Inf")
	}
	if m.Set.FloatPrec != -1 {
		// documented (globals.go): a precision other than -1 "controls the number of digits when formatting
		// float numbers in JSON. See strconv.FormatFloat" -- fixed-point text with that many digits
		return Exp{Kind: "ftext", S: strconv.FormatFloat(f, 'f', m.Set.FloatPrec, size)}
	}
	if size == 32 {
		return Exp{Kind: "f32", Bits: bits}
	}
	return Exp{Kind: "f64", Bits: bits}
}

func (m Model) time(t time.Time) Exp {
	e := m.time0(t)
	e.CK, e.CI, e.CN = "time", t.Unix(), int64(t.Nanosecond())
	return e
}

func (m Model) time0(t time.Time) Exp {
	switch f := m.Set.GoTimeFormat(); f {
	case "":
		return Exp{Kind: "num", S: strconv.FormatInt(t.Unix(), 10)}
	case "UNIXMS", "UNIXMICRO", "UNIXNANO":
		div := int64(1)
		if f == "UNIXMS" {
			div = 1000000
		} else if f == "UNIXMICRO" {
			div = 1000
		}
		n := t.UnixNano()
		q := n / div
		e := Exp{Kind: "num", S: strconv.FormatInt(q, 10)}
		if n%div != 0 && n < 0 {
			e.Alt = strconv.FormatInt(q-1, 10) // floor also accepted for pre-1970 sub-unit instants
		}
		return e
	default:
		return strS(t.Format(f))
	}
}

func (m Model) dur(d int64) Exp {
	unit := m.Set.DurUnit
	if unit == -1 && !m.Set.DurInt {
		return m.float(math.Float64bits(float64(d)/float64(0)), 64) // a zero unit: +Inf, -Inf or NaN
	}
	if unit <= 0 {
		unit = int64(time.Millisecond)
	}
	if m.Set.DurInt {
		return Exp{Kind: "num", S: strconv.FormatInt(d/unit, 10)}
	}
	return m.float(math.Float64bits(float64(d)/float64(unit)), 64)
}

// refMarshal is the reference for Interface values: encoding/json.
func (m Model) iface(v interface{}) Exp {
	var b []byte
	var err error
	if m.Set.IfaceMarshal == "fail" && v != nil {
		return strS("marshaling error: " + m.Set.IfaceErr)
	}
	if m.Set.IfaceMarshal == "stdjson" || m.Set.IfaceMarshal == "wrap" {
		b, err = json.Marshal(v)
		if err == nil && m.Set.IfaceMarshal == "wrap" && v != nil {
			b = append(append([]byte(`{"w":`), b...), '}')
		}
	} else {
		var buf bytes.Buffer
		enc := json.NewEncoder(&buf)
		enc.SetEscapeHTML(false)
		err = enc.Encode(v)
		b = bytes.TrimSuffix(buf.Bytes(), []byte("\n"))
	}
	if err != nil {
		return strS(fmt.Sprintf("marshaling error: %v", err))
	}
	return Exp{Kind: "jsoneq", S: string(b), CK: "embjson"}
}

func (m Model) errVal(v Val, absentWhenNil bool) (Exp, bool) {
	if m.Set.ErrMarshal != "" {
		return Exp{Kind: "any"}, true // presence unspecified too; callers treat specially
	}
	switch v.EK {
	case "nil", "typednil":
		if absentWhenNil {
			return Exp{}, false
		}
		return null, true
	case "objerr":
		return Exp{Kind: "obj", O: []ExpField{{"objerr", str(v.S)}}}, true
	case "nilslice":
		return strS(sliceErrText), true
	}
	return str(v.S), true
}

func (m Model) stackVal(inFields bool, ek string) (Exp, bool) {
	switch m.Set.StackMarshal {
	case "pkgerrors":
		// frames ([{func, line, source}, ...]) for errors that carry a pkg/errors stack, nothing otherwise
		if ek == "stacked" {
			return Exp{Kind: "any"}, true
		}
		return Exp{}, false
	case "", "nil", "nilerr":
		return Exp{}, false
	case "string":
		return strS("stack-of-error"), true
	case "error":
		return strS("stack-as-error"), true
	case "obj":
		if inFields {
			return Exp{Kind: "any"}, true
		}
		return Exp{Kind: "obj", O: []ExpField{{"msg", strS("stack-obj")}}}, true
	case "frames":
		return m.iface([]map[string]string{{"func": "f", "line": "1"}, {"func": "g", "line": "2"}}), true
	}
	panic("stackVal")
}

// scalar value expectation (types that render as one JSON value regardless of entry point)
func (m Model) scalar(v Val, st *evState) Exp {
	switch v.T {
	case "str":
		return str(v.S)
	case "stringer":
		if v.Nil {
			return null
		}
		if v.EK == "nilsafe" {
			return strS(nilStrerText) // a nil pointer whose String method copes: String() is still what is logged
		}
		return str(v.S)
	case "bytes":
		e := str(v.S)
		e.CK, e.CB = "bytes", v.S
		return e
	case "hex":
		e := strS(hex.EncodeToString(v.S))
		e.CK, e.CB = "hex", v.S
		return e
	case "rawjson":
		return Exp{Kind: "jsoneq", S: string(v.S), CK: "embjson"}
	case "rawcbor":
		e := strS("data:application/cbor;base64," + base64.StdEncoding.EncodeToString(v.S))
		e.CK, e.CB = "rawcbor", v.S
		return e
	case "bool":
		return Exp{Kind: "bool", B: v.B}
	case "int":
		return Exp{Kind: "num", S: strconv.FormatInt(int64(int(v.I)), 10)} // the program passes int(v.I): 32 bits on a 32-bit build
	case "uint":
		return Exp{Kind: "num", S: strconv.FormatUint(uint64(uint(v.U)), 10)}
	case "int8", "int16", "int32", "int64":
		return Exp{Kind: "num", S: strconv.FormatInt(v.I, 10)}
	case "uint8", "uint16", "uint32", "uint64":
		return Exp{Kind: "num", S: strconv.FormatUint(v.U, 10)}
	case "float32":
		return m.float(v.U, 32)
	case "float64":
		return m.float(v.U, 64)
	case "time":
		return m.time(v.Time())
	case "dur":
		return m.dur(v.I)
	case "timediff":
		var d time.Duration
		if v.Time().After(v.Time2()) {
			d = v.Time().Sub(v.Time2())
		}
		return m.dur(int64(d))
	case "iface", "any":
		if v.If != nil && v.If.K == "objmarshaler" {
			return Exp{Kind: "obj", O: m.opsFields(v.If.Ops, "event", m.subState(st))}
		}
		return m.iface(v.If.Go())
	case "type":
		g := v.If.Go()
		if g == nil {
			return strS("<nil>")
		}
		return strS(reflect.TypeOf(g).String())
	case "ip":
		e := strS(ip(v).String())
		e.CK, e.CB = "addr", ip(v)
		return e
	case "ipnet":
		n := ipnet(v)
		e := strS(n.String())
		e.CK, e.CB, e.CI = "ipnet", n.IP, int64(v.Bits)
		return e
	case "mac":
		e := strS(mac(v).String())
		e.CK, e.CB = "addr", mac(v)
		return e
	case "nil":
		return null
	}
	panic("model: scalar " + v.T)
}

// subState: state seen by an object marshaler that runs on a fresh event.
func (m Model) subState(st *evState) *evState { return &evState{fresh: true} }

func (m Model) elems(v Val, et string, st *evState) Exp {
	a := Exp{Kind: "arr", A: []Exp{}}
	for _, e := range v.L {
		e.T = et
		switch et {
		case "anerr":
			x, _ := m.errVal(e, false)
			a.A = append(a.A, x)
		default:
			a.A = append(a.A, m.scalar(e, st))
		}
	}
	return a
}

func (m Model) arrayElems(l []Val, st *evState) Exp {
	a := Exp{Kind: "arr", A: []Exp{}}
	for _, e := range l {
		switch e.T {
		case "anerr", "err":
			x, _ := m.errVal(e, false)
			a.A = append(a.A, x)
		case "obj", "dict":
			a.A = append(a.A, Exp{Kind: "obj", O: m.opsFields(e.Ops, "event", m.subState(st))})
		default:
			a.A = append(a.A, m.scalar(e, st))
		}
	}
	return a
}

// fieldsVal: expectation for one Fields() value; extra = fields appended after it (stack).
func (m Model) fieldsVal(v Val, st *evState) (Exp, []ExpField) {
	if v.Ptr {
		if v.Nil {
			return null, nil
		}
		return m.scalar(v, st), nil
	}
	switch v.T {
	case "anerr", "err":
		x, _ := m.errVal(v, false)
		var extra []ExpField
		// the error arm (plain and typed-nil errors; a nil interface is `case nil`, an
		// error that is a LogObjectMarshaler is handled before the switch)
		if (v.EK == "plain" || v.EK == "" || v.EK == "typednil" || v.EK == "stacked" || v.EK == "nilslice") && st.stack {
			if sv, ok := m.stackVal(true, v.EK); ok {
				extra = append(extra, ExpField{m.stackField(), sv})
			}
		}
		return x, extra
	case "errs":
		return m.elems(v, "anerr", st), nil
	case "obj":
		return Exp{Kind: "obj", O: m.opsFields(v.Ops, "event", m.subState(st))}, nil
	}
	if et, ok := ElemType[v.T]; ok {
		return m.elems(v, et, st), nil
	}
	return m.scalar(v, st), nil
}

// opsFields: the fields a list of ops adds to an event ("event") or to a
// context ("context"). For contexts, hooks and flags are collected in st/cx.
func (m Model) opsFields(ops []Op, where string, st *evState) []ExpField {
	out, _ := m.opsFieldsCx(ops, where, st, nil)
	return out
}

// ctxEffects collects non-field effects of Context ops.
type ctxEffects struct {
	hooks []modelHook // timestamp / caller hooks in order
	reset bool        // a Reset happened: fields before it are dropped (handled by caller via marker)
}

type modelHook struct {
	Kind string // timestamp caller user
	Spec HookSpec
}

const resetMarker = "\x00<reset>\x00"

func (m Model) opsFieldsCx(ops []Op, where string, st *evState, cx *ctxEffects) ([]ExpField, *ctxEffects) {
	var out []ExpField
	for _, op := range ops {
		k := ValidText(op.K)
		v := op.V
		switch v.T {
		case "stack":
			st.stack = true
		case "ctx":
			st.ctx = string(v.S)
			switch v.EK {
			case "alt":
				st.ctx = "alt:" + st.ctx
			case "cancelled":
				st.ctx += "|cancelled"
			case "deadline":
				st.ctx += "|deadline"
			}
			if v.Nil {
				st.ctx = ""
			}
		case "reset":
			out = nil
			if cx != nil {
				cx.reset = true
			}
			out = append(out, ExpField{Key: resetMarker})
		case "timestamp":
			if where == "context" {
				if cx != nil {
					cx.hooks = append(cx.hooks, modelHook{Kind: "timestamp"})
				}
			} else {
				out = append(out, ExpField{m.timeField(), m.time(time.Unix(m.Set.ClockSec, m.Set.ClockNsec).UTC())})
			}
		case "caller":
			if where == "context" {
				if cx != nil {
					cx.hooks = append(cx.hooks, modelHook{Kind: "caller"})
				}
			} else {
				out = append(out, ExpField{m.callerField(), Exp{Kind: "anystr"}})
			}
		case "getctx":
			if st.discarded {
				continue // Event.Func does nothing on a discarded event
			}
			if st.fresh && !m.StrictCtx && st.ctx == "" {
				out = append(out, ExpField{k, Exp{Kind: "anystr"}})
			} else {
				out = append(out, ExpField{k, strS(st.ctx)})
			}
		case "err":
			if st.stack && m.Set.StackMarshal != "" {
				if sv, ok := m.stackVal(false, v.EK); ok {
					out = append(out, ExpField{m.stackField(), sv})
				}
			}
			if x, ok := m.errVal(v, true); ok {
				out = append(out, ExpField{m.errField(), x})
			}
		case "anerr":
			if x, ok := m.errVal(v, true); ok {
				out = append(out, ExpField{k, x})
			}
		case "errs":
			out = append(out, ExpField{k, m.elems(v, "anerr", st)})
		case "dict":
			out = append(out, ExpField{k, Exp{Kind: "obj", O: m.opsFields(v.Ops, "event", m.subState(st))}})
		case "arr", "arrm":
			out = append(out, ExpField{k, m.arrayElems(v.L, st)})
		case "obj":
			if v.Nil {
				out = append(out, ExpField{k, null})
			} else if where == "context" {
				out = append(out, ExpField{k, Exp{Kind: "obj", O: m.opsFields(v.Ops, "event", m.subState(st))}})
			} else {
				// marshaler runs on the event itself: sees and may change its state
				out = append(out, ExpField{k, Exp{Kind: "obj", O: m.opsFields(v.Ops, "event", st)}})
			}
		case "embed":
			if !v.Nil {
				if where == "context" {
					out = append(out, m.opsFields(v.Ops, "event", m.subState(st))...)
				} else {
					out = append(out, m.opsFields(v.Ops, "event", st)...)
				}
			}
		case "func":
			if st.discarded {
				continue // Event.Func does nothing on a discarded event
			}
			out = append(out, m.opsFields(v.Ops, "event", st)...)
		case "iface", "any":
			if v.If != nil && v.If.K == "objmarshaler" && where == "event" {
				// Event.Interface hands a LogObjectMarshaler to Event.Object: it runs on the event
				// itself and sees (and may change) its stack flag and Go context
				out = append(out, ExpField{k, Exp{Kind: "obj", O: m.opsFields(v.If.Ops, "event", st)}})
			} else {
				out = append(out, ExpField{k, m.scalar(v, st)})
			}
		case "fieldsmap":
			ops2 := append([]Op{}, v.Ops...)
			sort.SliceStable(ops2, func(i, j int) bool { return string(ops2[i].K) < string(ops2[j].K) })
			for _, o := range ops2 {
				x, extra := m.fieldsVal(o.V, st)
				out = append(out, ExpField{ValidText(o.K), x})
				out = append(out, extra...)
			}
		case "fieldsbad":
			// documented: only map[string]interface{} and []interface{} are accepted
		case "fieldsslice", "fieldsodd":
			for _, o := range v.Ops {
				if o.BadKey {
					continue // a pair whose key is not a string is ignored
				}
				x, extra := m.fieldsVal(o.V, st)
				out = append(out, ExpField{ValidText(o.K), x})
				out = append(out, extra...)
			}
		default:
			if et, ok := ElemType[v.T]; ok {
				out = append(out, ExpField{k, m.elems(v, et, st)})
			} else {
				out = append(out, ExpField{k, m.scalar(v, st)})
			}
		}
	}
	// apply reset markers: drop everything up to and including the last marker
	for i := len(out) - 1; i >= 0; i-- {
		if out[i].Key == resetMarker {
			out = append([]ExpField{{Key: resetMarker}}, out[i+1:]...)
			break
		}
	}
	return out, cx
}

// ---------------------------------------------------------------- logger chain model

type LoggerModel struct {
	Fields  []ExpField
	Hooks   []modelHook
	Level   int
	Sampler *samplerModel
	Stack   bool
	Ctx     string
	Dest    int // index of destination writer (0 = root)
}

type samplerModel struct {
	kind string
	n    uint32
	c    uint32
}

func (s *samplerModel) sample() bool {
	switch s.kind {
	case "all":
		return true
	case "none":
		return false
	}
	if s.n == 0 {
		return false
	}
	if s.n == 1 {
		return true
	}
	s.c++
	return s.c%s.n == 1
}

func stripReset(f []ExpField) ([]ExpField, bool) {
	if len(f) > 0 && f[0].Key == resetMarker {
		return f[1:], true
	}
	return f, false
}

// ApplyStep derives the model of a child logger (for "update": mutates l in place and
// returns it).
func (m Model) ApplyStep(par *LoggerModel, stp Step, ndest *int) *LoggerModel {
	l := *par // struct copy; slices are re-allocated below before any append
	switch stp.Kind {
	case "with":
		st := &evState{stack: l.Stack, ctx: l.Ctx}
		cx := &ctxEffects{}
		f, _ := m.opsFieldsCx(stp.Ops, "context", st, cx)
		f, reset := stripReset(f)
		if reset {
			l.Fields = append([]ExpField{}, f...)
		} else {
			l.Fields = append(append([]ExpField{}, l.Fields...), f...)
		}
		l.Stack, l.Ctx = st.stack, st.ctx
		l.Hooks = append(append([]modelHook{}, l.Hooks...), cx.hooks...)
	case "update":
		// only the context bytes survive UpdateContext; the logger itself is modified
		st := &evState{stack: par.Stack, ctx: par.Ctx}
		cx := &ctxEffects{}
		f, _ := m.opsFieldsCx(stp.Ops, "context", st, cx)
		f, reset := stripReset(f)
		if reset {
			par.Fields = append([]ExpField{}, f...)
		} else {
			par.Fields = append(append([]ExpField{}, par.Fields...), f...)
		}
		return par
	case "rehook":
		hs := append([]modelHook{}, par.Hooks...)
		for _, h := range stp.Hooks {
			hs = append(hs, modelHook{Kind: "user", Spec: h})
		}
		par.Hooks = hs
		return par
	case "hook":
		hs := append([]modelHook{}, l.Hooks...)
		for _, h := range stp.Hooks {
			hs = append(hs, modelHook{Kind: "user", Spec: h})
		}
		l.Hooks = hs
	case "level":
		l.Level = stp.Level
	case "updatedefault":
		// zerolog.Ctx(context.Background()).UpdateContext(...): the program's DefaultContextLogger itself is
		// updated through the pointer Ctx hands out; the node is a copy of it afterwards
		if !m.Set.DefaultCtx {
			return &LoggerModel{Level: 7, Dest: -1} // Ctx returns the shared disabled logger, which ignores updates
		}
		st := &evState{}
		cx := &ctxEffects{}
		f, _ := m.opsFieldsCx(stp.Ops, "context", st, cx)
		f, reset := stripReset(f)
		if reset {
			*m.Def = append([]ExpField{}, f...)
		} else {
			*m.Def = append(append([]ExpField{}, *m.Def...), f...)
		}
		return &LoggerModel{Level: -1, Dest: 0, Fields: append([]ExpField{}, *m.Def...)}
	case "viactx":
		// *zerolog.Ctx(l.WithContext(ctx)): a struct copy of l — except that a Disabled logger is not
		// stored in a context that carries none, and Ctx then returns the package's no-op logger
		if l.Level == 7 && stp.N == 0 {
			// zerolog.Nop(): a fresh Disabled logger writing to io.Discard — no context, no hooks,
			// no sampler; descendants that lower the level run their hooks and write into the void
			l = LoggerModel{Level: 7, Dest: -1}
			if m.Set.DefaultCtx {
				// ... unless the program has set DefaultContextLogger: then that logger it is
				l = LoggerModel{Level: -1, Dest: 0, Fields: append([]ExpField{}, *m.Def...)}
			}
		}
	case "sample":
		l.Sampler = &samplerModel{kind: stp.Sampler, n: stp.N}
		if stp.Sampler == "nil" {
			l.Sampler = nil
		}
	case "output":
		if stp.N == 1 || stp.N == 2 {
			l.Dest = -1 // io.Discard / nil: events are processed (hooks, sampler) and written nowhere
		} else {
			*ndest++
			l.Dest = *ndest
		}
	}
	return &l
}

// ExpEvent is the expected outcome of one EventSpec.
type ExpEvent struct {
	Written    bool
	Level      int
	Fields     []ExpField
	HookCalls  []HookCall // expected invocations (Level = level passed)
	NoHooksRun bool
}

func levelOf(ev EventSpec) int {
	switch ev.Method {
	case "trace":
		return -1
	case "debug":
		return 0
	case "info":
		return 1
	case "warn":
		return 2
	case "error":
		return 3
	case "log":
		return 6
	case "err":
		if ev.ErrV.EK == "nil" {
			return 1
		}
		return 3
	case "withlevel":
		return ev.Level
	case "write", "stdlog":
		return 6 // the io.Writer entry (also behind a standard log.Logger): no level
	case "print", "printf", "println":
		return 0
	}
	panic("levelOf")
}

func levelHookRuns(lvl int) bool { return lvl >= -1 && lvl <= 6 }

// Event computes the expected outcome of ev on logger l (mutates sampler state).
func (m Model) Event(l *LoggerModel, ev EventSpec) ExpEvent {
	lvl := levelOf(ev)
	out := ExpEvent{Level: lvl}
	// WithLevel(Disabled) is never written; below the logger level; below the
	// global level (TraceLevel during program runs)
	global := -1
	if m.Set.GlobalLow > 0 {
		global = -m.Set.GlobalLow
	}
	if lvl == 7 || lvl < l.Level || lvl < global {
		return out
	}
	if l.Sampler != nil && !l.Sampler.sample() {
		return out
	}
	st := &evState{stack: l.Stack, ctx: l.Ctx}
	var f []ExpField
	if name, ok := m.levelField(); ok && lvl != 6 {
		lv := strS(m.LevelText(lvl))
		lv.Role = "level"
		f = append(f, ExpField{name, lv})
	}
	f = append(f, l.Fields...)
	if ev.Method == "err" && ev.ErrV.EK != "nil" {
		f = append(f, m.opsFields([]Op{{V: Val{T: "err", EK: ev.ErrV.EK, S: ev.ErrV.S}}}, "event", st)...)
	}
	if !Direct(ev.Method) { // (a one-call entry point takes no fields: ops a generator put there are not applied)
		f = append(f, m.opsFields(ev.Ops, "event", st)...)
	}
	msg := string(ev.Msg)
	switch ev.Fin {
	case "send":
		msg = ""
	case "msgf2":
		msg += "7"
	case "msgf0":
		msg = fmt.Sprintf(msg) // documented: "formatted msg"; fmt is the reference
	}
	switch ev.Method {
	case "println":
		msg += "\n" // fmt.Sprintln
	case "stdlog":
		// the standard logger ends the line unless it is ended already; Write trims one line end
		msg = strings.TrimSuffix(msg, "\n")
	}
	cur := lvl
	discarded := false
	for _, h := range l.Hooks {
		switch h.Kind {
		case "timestamp":
			f = append(f, ExpField{m.timeField(), m.time(time.Unix(m.Set.ClockSec, m.Set.ClockNsec).UTC())})
		case "caller":
			f = append(f, ExpField{m.callerField(), Exp{Kind: "anystr"}})
		case "user":
			if h.Spec.Wrap == "level" && !levelHookRuns(cur) || h.Spec.Wrap == "levelsome" && cur != 1 && cur != 3 && cur != 6 {
				continue
			}
			out.HookCalls = append(out.HookCalls, HookCall{ID: h.Spec.ID, Level: zl(cur), Msg: msg, Ctx: st.ctx})
			switch h.Spec.Kind {
			case "add":
				f = append(f, m.opsFields(h.Spec.Ops, "event", st)...)
			case "getctx":
				f = append(f, ExpField{ValidText(h.Spec.K), strS(st.ctx)})
			case "getctxif":
				if st.ctx != "" {
					f = append(f, ExpField{ValidText(h.Spec.K), strS(st.ctx)})
				}
			case "discard":
				discarded = true
				st.discarded = true
				cur = 7
			}
		}
	}
	if msg != "" {
		mv := strS(msg)
		mv.Role = "message"
		f = append(f, ExpField{m.msgField(), mv})
	}
	out.Fields = f
	out.Written = !discarded
	return out
}

// ---------------------------------------------------------------- comparison

func refFloatText(bits uint64, size int) string {
	var b []byte
	if size == 32 {
		b, _ = json.Marshal(math.Float32frombits(uint32(bits)))
	} else {
		b, _ = json.Marshal(math.Float64frombits(bits))
	}
	return string(b)
}

// Match reports "" if node n matches expectation e, else a description.
func Match(n *jsonref.Node, e Exp) string {
	switch e.Kind {
	case "any":
		return ""
	case "anystr":
		if n.Kind != jsonref.Str {
			return "expected a string, got " + n.String()
		}
		return ""
	case "anynum":
		if n.Kind != jsonref.Num {
			return "expected a number, got " + n.String()
		}
		return ""
	case "ftext":
		if n.Kind != jsonref.Num || n.Raw != e.S {
			return fmt.Sprintf("expected the float rendered as %s (strconv 'f' at FloatingPointPrecision), got %s", e.S, n.String())
		}
		return ""
	case "null":
		if n.Kind != jsonref.Null {
			return "expected null, got " + n.String()
		}
		return ""
	case "bool":
		if n.Kind != jsonref.Bool || n.B != e.B {
			return fmt.Sprintf("expected %v, got %s", e.B, n.String())
		}
		return ""
	case "str":
		if n.Kind != jsonref.Str || n.S != e.S {
			return fmt.Sprintf("expected string %q, got %s", e.S, n.String())
		}
		return ""
	case "num":
		if n.Kind != jsonref.Num || (n.Raw != e.S && (e.Alt == "" || n.Raw != e.Alt)) {
			return fmt.Sprintf("expected number %s, got %s", e.S, n.String())
		}
		return ""
	case "f32", "f64":
		size := 64
		if e.Kind == "f32" {
			size = 32
		}
		if n.Kind != jsonref.Num {
			return "expected a float number, got " + n.String()
		}
		want := refFloatText(e.Bits, size)
		if n.Raw != want {
			return fmt.Sprintf("float%d 0x%x: expected text %s (encoding/json), got %s", size, e.Bits, want, n.Raw)
		}
		// and it must parse back to the identical float
		if size == 32 {
			f, err := strconv.ParseFloat(n.Raw, 32)
			if err != nil || math.Float32bits(float32(f)) != uint32(e.Bits) && !(f == 0 && math.Float32frombits(uint32(e.Bits)) == 0) {
				return fmt.Sprintf("float32 0x%x does not round-trip through %s", e.Bits, n.Raw)
			}
		} else {
			f, err := strconv.ParseFloat(n.Raw, 64)
			if err != nil || math.Float64bits(f) != e.Bits && !(f == 0 && math.Float64frombits(e.Bits) == 0) {
				return fmt.Sprintf("float64 0x%x does not round-trip through %s", e.Bits, n.Raw)
			}
		}
		return ""
	case "jsoneq":
		want, err := jsonref.Parse([]byte(e.S))
		if err != nil {
			return "HARNESS-ERROR: reference JSON does not parse: " + err.Error()
		}
		if !jsonref.Equal(n, want) {
			return fmt.Sprintf("expected JSON value %s, got %s", e.S, n.String())
		}
		return ""
	case "arr":
		if n.Kind != jsonref.Arr {
			return "expected array, got " + n.String()
		}
		if len(n.A) != len(e.A) {
			return fmt.Sprintf("expected array of %d elements, got %d: %s", len(e.A), len(n.A), n.String())
		}
		for i := range e.A {
			if d := Match(n.A[i], e.A[i]); d != "" {
				return fmt.Sprintf("[%d]: %s", i, d)
			}
		}
		return ""
	case "obj":
		if n.Kind != jsonref.Obj {
			return "expected object, got " + n.String()
		}
		return MatchFields(n.O, e.O, true)
	}
	return "HARNESS-ERROR: unknown expectation kind " + e.Kind
}

// MatchFields compares members with expected fields: exact sequence.
func MatchFields(got []jsonref.Member, want []ExpField, values bool) string {
	for i := 0; i < len(got) && i < len(want); i++ {
		if got[i].Key != want[i].Key {
			return fmt.Sprintf("field %d: expected key %q, got %q (expected keys %q, got %q)", i, want[i].Key, got[i].Key, keysE(want), keysG(got))
		}
		if values {
			if d := Match(got[i].Val, want[i].V); d != "" {
				return fmt.Sprintf("field %q: %s", want[i].Key, d)
			}
		} else if want[i].V.Kind == "obj" && got[i].Val != nil && got[i].Val.Kind == jsonref.Obj {
			// layout inside a nested object (Dict, Object, Func sub-events): the same keys in the same order
			if d := MatchFields(got[i].Val.O, want[i].V.O, false); d != "" {
				return fmt.Sprintf("inside field %q: %s", want[i].Key, d)
			}
		}
	}
	if len(got) != len(want) {
		return fmt.Sprintf("expected %d fields %q, got %d fields %q", len(want), keysE(want), len(got), keysG(got))
	}
	return ""
}

// ContainsFields: every expected (key,value) occurs among the members (each
// member used once), regardless of position — the C02 reading.
func ContainsFields(got []jsonref.Member, want []ExpField) string {
	used := make([]bool, len(got))
	for _, w := range want {
		found := false
		last := ""
		for i, g := range got {
			if used[i] || g.Key != w.Key {
				continue
			}
			if d := Match(g.Val, w.V); d == "" {
				used[i] = true
				found = true
				break
			} else {
				last = d
			}
		}
		if !found {
			if last != "" {
				return fmt.Sprintf("field %q: %s", w.Key, last)
			}
			return fmt.Sprintf("field %q missing (got keys %q)", w.Key, keysG(got))
		}
	}
	return ""
}

func keysE(f []ExpField) []string {
	o := make([]string, len(f))
	for i := range f {
		o[i] = f[i].Key
	}
	return o
}
func keysG(f []jsonref.Member) []string {
	o := make([]string, len(f))
	for i := range f {
		o[i] = f[i].Key
	}
	return o
}
