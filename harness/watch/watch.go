// Package watch turns "the call never returns" into a verdict that does not rest on a clock: a call that has
// not returned after a generous delay is looked at through a goroutine dump, and only a goroutine that sits
// in a lock acquisition (twice, two seconds apart, with the same stack) counts as blocked. A call that is
// merely slow (running, runnable, sleeping, in a syscall) is reported as slow, which callers treat as
// inconclusive.
package watch

import (
	"fmt"
	"regexp"
	"runtime"
	"sort"
	"strings"
	"time"
)

// Verdict of Run.
type Verdict struct {
	Done    bool   // fn returned
	Blocked bool   // fn's goroutine (or, with All, every goroutine inside the library) waits for a lock
	State   string // the goroutine state of the dump header, e.g. "sync.Mutex.Lock"
	Stack   string // the blocked goroutine's stack (trimmed)
}

//go:noinline
func marker(fn func()) { fn() }

var header = regexp.MustCompile(`^goroutine \d+ \[([^\],]+)`)

var lockStates = map[string]bool{"sync.Mutex.Lock": true, "sync.RWMutex.Lock": true, "sync.RWMutex.RLock": true, "semacquire": true}

func dump() []string {
	buf := make([]byte, 1<<20)
	for {
		n := runtime.Stack(buf, true)
		if n < len(buf) {
			return strings.Split(string(buf[:n]), "\n\n")
		}
		buf = make([]byte, 2*len(buf))
	}
}

func stateOf(g string) string {
	m := header.FindStringSubmatch(g)
	if m == nil {
		return ""
	}
	return m[1]
}

// frames strips the header and the argument/offset noise so that two dumps of a parked goroutine compare equal.
func frames(g string) string {
	var out []string
	for _, l := range strings.Split(g, "\n")[1:] {
		if strings.HasPrefix(l, "\t") {
			continue
		}
		if i := strings.LastIndex(l, "("); i > 0 {
			l = l[:i]
		}
		out = append(out, l)
	}
	return strings.Join(out, "\n")
}

// find returns the goroutines whose stack contains every one of the substrings.
func find(gs []string, subs ...string) []string {
	var out []string
next:
	for _, g := range gs {
		for _, s := range subs {
			if !strings.Contains(g, s) {
				continue next
			}
		}
		out = append(out, g)
	}
	return out
}

// Run calls fn in a fresh goroutine. If fn has not returned after d, the goroutines whose stack contains
// `inside` (a function name such as "zerolog.(*TriggerLevelWriter)" or "diode.(*Writer).Write") and that were
// started by this call are inspected: Blocked is set when one of them waits for a lock in two dumps two seconds
// apart with an unchanged stack.
func Run(d time.Duration, inside string, fn func()) Verdict { return run(d, inside, false, fn) }

// RunAll is Run for calls that start goroutines of their own (concurrent workloads): Blocked is set when every
// goroutine whose stack contains `inside` waits for a lock, in both dumps.
func RunAll(d time.Duration, inside string, fn func()) Verdict { return run(d, inside, true, fn) }

func run(d time.Duration, inside string, all bool, fn func()) Verdict {
	done := make(chan struct{})
	go marker(func() { defer close(done); fn() })
	select {
	case <-done:
		return Verdict{Done: true}
	case <-time.After(d):
	}
	pick := func() (string, string) {
		for _, g := range find(dump(), inside) {
			if lockStates[stateOf(g)] {
				return stateOf(g), strings.ReplaceAll(frames(g), "\n", " <- ")
			}
		}
		return "", ""
	}
	if all {
		// concurrent callers: blocked only if every goroutine that is inside the library waits for a lock
		// (locks are held by goroutines inside library calls only, so nobody is left to release one)
		pick = func() (string, string) {
			gs := find(dump(), inside)
			var fs []string
			for _, g := range gs {
				if !lockStates[stateOf(g)] {
					return "", ""
				}
				fs = append(fs, strings.ReplaceAll(frames(g), "\n", " <- "))
			}
			if len(gs) == 0 {
				return "", ""
			}
			sort.Strings(fs)
			return stateOf(gs[0]), fmt.Sprintf("%d goroutines, all waiting for a lock; one of them: %s", len(gs), fs[0])
		}
	}
	s1, f1 := pick()
	select {
	case <-done:
		return Verdict{Done: true}
	case <-time.After(2 * time.Second):
	}
	s2, f2 := pick()
	if s1 != "" && s1 == s2 && f1 == f2 {
		return Verdict{Blocked: true, State: s1, Stack: f1}
	}
	return Verdict{}
}

// States returns the goroutine states (dump header, e.g. "sync.Cond.Wait", "sleep", "running") of the goroutines
// whose stack contains every one of the substrings.
func States(subs ...string) []string {
	var out []string
	for _, g := range find(dump(), subs...) {
		out = append(out, stateOf(g))
	}
	return out
}
