// C06 — concurrent logging: one intact Write per event, independent of the schedule.
package c06

import (
	"bytes"
	"encoding/json"
	"fmt"
	pkgerr "github.com/pkg/errors"
	"github.com/rs/zerolog/pkgerrors"
	"hash/fnv"
	"io"
	"os"
	"runtime"
	"sort"
	"sync"
	"sync/atomic"
	"testing"
	"time"
	"verif/harness/watch"

	"github.com/rs/zerolog"
	zlog "github.com/rs/zerolog/log"
	"pgregory.net/rapid"
	"verif/harness/ev"
	"verif/harness/lp"
)

const rule = "cases = workloads of G in 2..32 goroutines, each emitting a generated list of event chains (deterministic content; payloads below 500 B, between 500 B and 64 KiB, above 64 KiB; nested Dict/Array/Object; hooks) through one shared Logger, its children and the global log.Logger, against writers that return at once / yield / sleep / block on a gate inside Write, plain and wrapped in SyncWriter, with concurrent SetGlobalLevel and DisableSampling togglers. oracle = multiset of received slices equals the multiset produced by running each chain alone (byte identity); the slice is unchanged between entry to and exit from Write; a SyncWriter-wrapped writer never sees two overlapping calls; the race detector (race jobs) stays silent. non-trivial = >=2 goroutines were inside Write simultaneously at least once and a payload crossed a pool threshold; distinct = FNV-64 of the serialised workload"

var rec = ev.New("C06", rule)

func TestMain(m *testing.M) {
	code := m.Run()
	rec.Flush()
	os.Exit(code)
}

type Chain struct {
	Logger int          `json:"logger"`           // 0 root, 1 child with context, 2 grandchild with hook, 3 global log.Logger, 4 child whose first hook discards debug events, 5 a With() child owned by goroutine 0 (the only one that updates its context), 6 a Level() copy of 5 taken before any update
	Update int          `json:"update,omitempty"` // logger 5 only, before the event: 1 UpdateContext(add a field), 2 UpdateContext(Reset, add a field)
	Ev     lp.EventSpec `json:"event"`
	// Panic: the event is started with Panic() instead (its goroutine recovers, as a request handler would):
	// written once, like any other, before the call panics
	Panic bool `json:"panic_level,omitempty"`
}

type Workload struct {
	Writer string `json:"writer"` // fast | gosched | sleep | gate
	Sync   bool   `json:"sync_writer"`
	Toggle bool   `json:"togglers"`
	// Filter: the toggler also moves the global level to Disabled, Error and Fatal: an event is then
	// either written whole (as if alone) or not at all, whenever the switch happens
	Filter  bool      `json:"filtering_togglers,omitempty"`
	Trigger bool      `json:"trigger_writer,omitempty"` // the destination sits behind a *TriggerLevelWriter that lets everything through (its own mutex covers WriteLevel only)
	Hold    bool      `json:"trigger_holds,omitempty"`  // ... which holds debug lines until the first line at warn or above (or the Trigger() call the harness makes at the end)
	TestW   bool      `json:"test_writer,omitempty"`    // the destination is a zerolog.TestWriter whose T keeps the lines it is given (no console, no trigger writer)
	Plain   int       `json:"plain_writers,omitempty"`  // with SyncWriter: goroutines that use the writer as a plain io.Writer (the standard library logger), 3 lines each
	Double  bool      `json:"double_sync,omitempty"`    // with SyncWriter: some loggers write through SyncWriter(dst), the others through SyncWriter(SyncWriter(dst)), the same inner wrapper
	Closer  bool      `json:"closer,omitempty"`         // with SyncWriter: another goroutine calls Close on it meanwhile (as Logger.Fatal or a shutdown path would); Close is a call on the wrapped writer too
	Console bool      `json:"console_writer,omitempty"` // a ConsoleWriter sits between the logger and the destination
	ConsNew bool      `json:"console_new,omitempty"`    // ... built by NewConsoleWriter with FieldsOrder and FieldsExclude (fresh per run: every goroutine's first Write races the others')
	G       [][]Chain `json:"goroutines"`
}

type checkWriter struct {
	console bool
	consNew bool
	trigger bool
	hold    bool
	testw   *keepTB // the destination is a zerolog.TestWriter around this
	mode    string
	mu      sync.Mutex
	got     [][]byte
	inside  int32
	maxIn   int32
	// fmtIn/fmtOverlap: ConsoleWriter formatter callbacks in progress / ever two at once
	fmtIn, fmtOverlap int32
	mutated           int32
	gate              chan struct{}
	overlapS          int32
}

func sum(p []byte) uint64 { h := fnv.New64a(); h.Write(p); return h.Sum64() }

func (w *checkWriter) Write(p []byte) (int, error) {
	n := atomic.AddInt32(&w.inside, 1)
	for {
		m := atomic.LoadInt32(&w.maxIn)
		if n <= m || atomic.CompareAndSwapInt32(&w.maxIn, m, n) {
			break
		}
	}
	cp := append([]byte{}, p...)
	s0 := sum(p)
	switch w.mode {
	case "gosched":
		runtime.Gosched()
		runtime.Gosched()
	case "sleep":
		time.Sleep(20 * time.Microsecond)
	case "gate":
		<-w.gate
	}
	if sum(p) != s0 || !bytes.Equal(p, cp) {
		atomic.StoreInt32(&w.mutated, 1)
	}
	w.mu.Lock()
	w.got = append(w.got, cp)
	w.mu.Unlock()
	atomic.AddInt32(&w.inside, -1)
	return len(p), nil
}

// keepTB is the testing.TB-like value behind a zerolog.TestWriter: a test double that collects the lines for
// assertions at the end of the test and keeps the strings it is handed (they are immutable: nobody may change
// them afterwards).
type keepTB struct {
	mu   sync.Mutex
	kept []string
}

func (k *keepTB) Helper() {}
func (k *keepTB) Log(args ...interface{}) {
	k.mu.Lock()
	defer k.mu.Unlock()
	if s, ok := args[0].(string); ok && len(args) == 1 {
		k.kept = append(k.kept, s)
	} else {
		k.kept = append(k.kept, fmt.Sprint(args...))
	}
}
func (k *keepTB) Logf(format string, args ...interface{}) {
	k.mu.Lock()
	defer k.mu.Unlock()
	k.kept = append(k.kept, fmt.Sprintf(format, args...))
}

// Close is one more call on the wrapped writer: under SyncWriter it must not overlap a Write.
func (w *checkWriter) Close() error {
	n := atomic.AddInt32(&w.inside, 1)
	for {
		m := atomic.LoadInt32(&w.maxIn)
		if n <= m || atomic.CompareAndSwapInt32(&w.maxIn, m, n) {
			break
		}
	}
	if w.mode != "fast" {
		runtime.Gosched()
	}
	atomic.AddInt32(&w.inside, -1)
	return nil
}

var lastSync io.Writer
var lastTrigger *zerolog.TriggerLevelWriter

type hook struct{}

func (hook) Run(e *zerolog.Event, l zerolog.Level, m string) {
	e.Str("hooked", "yes").Int("lvl", int(l))
}

// discardDebug discards debug events; the hooks after it still run on the discarded event.
type discardDebug struct{}

func (discardDebug) Run(e *zerolog.Event, l zerolog.Level, m string) {
	if l == zerolog.DebugLevel {
		e.Discard()
	}
}

func loggers(w *checkWriter, syncW bool, double ...bool) []*zerolog.Logger {
	var out zerolog.Logger
	var dst io.Writer = w
	if w.console {
		// ConsoleWriter renders from a pooled buffer and must hand its Out one complete line per event
		// a formatter of the program's own (rendering what the default renders) sees whether two
		// ConsoleWriter.Write calls are in progress at once: behind SyncWriter they never are
		fieldName := func(i interface{}) string {
			if atomic.AddInt32(&w.fmtIn, 1) > 1 {
				atomic.StoreInt32(&w.fmtOverlap, 1)
			}
			runtime.Gosched()
			atomic.AddInt32(&w.fmtIn, -1)
			return fmt.Sprintf("%s=", i)
		}
		dst = zerolog.ConsoleWriter{Out: w, NoColor: true, TimeLocation: time.UTC, FormatFieldName: fieldName}
		if w.consNew {
			dst = zerolog.NewConsoleWriter(func(c *zerolog.ConsoleWriter) {
				c.Out, c.NoColor, c.TimeLocation = w, true, time.UTC
				c.FieldsOrder = []string{"svc", "hooked", "deep", "k1", "a"}
				c.FieldsExclude = []string{"shard"}
				c.FormatFieldName = fieldName
			})
		}
	}
	if w.testw != nil && !w.console && !w.trigger {
		dst = zerolog.TestWriter{T: w.testw}
	}
	if w.trigger && !w.console {
		tlw := &zerolog.TriggerLevelWriter{Writer: dst, ConditionalLevel: zerolog.Level(-100), TriggerLevel: zerolog.Level(-100)}
		if w.hold {
			tlw.ConditionalLevel, tlw.TriggerLevel = zerolog.DebugLevel, zerolog.WarnLevel
		}
		lastTrigger = tlw
		dst = tlw
	}
	if syncW {
		lastSync = zerolog.SyncWriter(dst)
		out = zerolog.New(lastSync)
	} else {
		out = zerolog.New(dst)
	}
	l0 := out
	l1 := l0.With().Str("svc", "api").Int("shard", 3).Logger()
	l2 := l1.With().Bool("deep", true).Logger().Hook(hook{})
	l3 := l0.With().Str("global", "log").Logger()
	l4 := l1.Hook(discardDebug{}, hook{}, hook{})
	l5 := l1.With().Str("own", "er").Str("tenant", "t-42").Logger()
	l6 := l5.Level(zerolog.DebugLevel)
	// contexts made of one object bigger than a pooled buffer (600 bytes, 5 KB), on a parent without
	// context fields and on one that has some; built while nothing else is going on
	l7 := l0.With().Object("big", bigObj(12)).Logger()
	l8 := l1.With().EmbedObject(bigObj(100)).Object("again", bigObj(12)).Logger()
	if syncW && len(double) > 0 && double[0] {
		// a component that was handed the synchronised writer and wraps it once more to be safe: whichever
		// wrapper a call comes through, the destination still sees one call at a time
		outer := zerolog.SyncWriter(lastSync)
		l3, l5, l7 = l3.Output(outer), l5.Output(outer), l7.Output(outer)
	}
	return []*zerolog.Logger{&l0, &l1, &l2, &l3, &l4, &l5, &l6, &l7, &l8}
}

// bigObj marshals n fields of about 50 bytes each.
type bigObj int

func (b bigObj) MarshalZerologObject(e *zerolog.Event) {
	for i := 0; i < int(b); i++ {
		e.Str(fmt.Sprintf("field_%03d", i), "0123456789012345678901234567890123456789")
	}
}

func emit(ls []*zerolog.Logger, c Chain) {
	if c.Panic && !lp.Direct(c.Ev.Method) {
		l := ls[c.Logger]
		if c.Logger == 3 {
			l = &zlog.Logger
		}
		func() {
			defer func() { recover() }()
			lp.Finish(lp.ApplyEvent(l.Panic(), c.Ev.Ops), c.Ev)
		}()
		return
	}
	if c.Logger == 3 {
		old := zlog.Logger
		_ = old
		lp.Emit(&zlog.Logger, c.Ev)
		return
	}
	switch c.Update {
	case 1:
		ls[5].UpdateContext(func(x zerolog.Context) zerolog.Context { return x.Str("upd", "more") })
	case 2:
		ls[5].UpdateContext(func(x zerolog.Context) zerolog.Context { return x.Reset().Str("region", "eu-west-1") })
	}
	lp.Emit(ls[c.Logger], c.Ev)
}

// run judges one workload; one whose goroutines never come back is judged through package watch: when every
// goroutine inside the library waits for a lock, nobody is left to release one.
func run(wl *Workload) (msg string, nontrivial bool) {
	v := watch.RunAll(60*time.Second, "github.com/rs/zerolog.", func() { msg, nontrivial = runWorkload(wl) })
	switch {
	case v.Done:
		return msg, nontrivial
	case v.Blocked:
		return fmt.Sprintf("the workload never finishes: every goroutine inside the library waits in %s (%s)", v.State, v.Stack), true
	}
	fmt.Println("VERIF-INCONCLUSIVE: a workload took more than 60 s without every goroutine being blocked on a lock")
	os.Exit(2)
	return "", false
}

func runWorkload(wl *Workload) (msg string, nontrivial bool) {
	restore := lp.DefaultSettings().Apply()
	defer restore()
	// expected: each chain alone
	var want []string
	solo := &checkWriter{mode: "fast", console: wl.Console, consNew: wl.ConsNew, trigger: wl.Trigger}
	sl := loggers(solo, false)
	oldGlobal := zlog.Logger
	defer func() { zlog.Logger = oldGlobal }()
	zlog.Logger = *sl[3]
	crossed := false
	for _, g := range wl.G {
		for _, c := range g {
			before := len(solo.got)
			emit(sl, c)
			discarded := c.Logger == 4 && !c.Panic && (c.Ev.Method == "debug" || c.Ev.Method == "print" || c.Ev.Method == "printf" || c.Ev.Method == "println")
			if discarded && len(solo.got) == before {
				continue
			}
			if len(solo.got) != before+1 || discarded {
				return fmt.Sprintf("solo run of a chain produced %d writes (discarded=%v)", len(solo.got)-before, discarded), false
			}
			b := solo.got[len(solo.got)-1]
			if len(b) > 500 {
				crossed = true
			}
			want = append(want, string(b))
		}
	}
	// concurrent
	w := &checkWriter{mode: wl.Writer, gate: make(chan struct{}), console: wl.Console, consNew: wl.ConsNew, trigger: wl.Trigger, hold: wl.Hold && wl.Trigger}
	if wl.TestW && !wl.Console && !wl.Trigger {
		w.testw = &keepTB{}
	}
	ls := loggers(w, wl.Sync, wl.Double)
	zlog.Logger = *ls[3]
	var wg sync.WaitGroup
	start := make(chan struct{})
	for _, g := range wl.G {
		wg.Add(1)
		go func(g []Chain) {
			defer wg.Done()
			<-start
			for _, c := range g {
				emit(ls, c)
			}
		}(g)
	}
	stop := make(chan struct{})
	var tg sync.WaitGroup
	if wl.Toggle {
		tg.Add(1)
		go func() {
			defer tg.Done()
			for i := 0; ; i++ {
				select {
				case <-stop:
					return
				default:
				}
				// neither setting filters any of the generated events (all at debug or above)
				if wl.Filter {
					zerolog.SetGlobalLevel([]zerolog.Level{zerolog.TraceLevel, zerolog.Disabled, zerolog.DebugLevel, zerolog.ErrorLevel, zerolog.TraceLevel, zerolog.FatalLevel}[i%6])
				} else {
					zerolog.SetGlobalLevel([]zerolog.Level{zerolog.TraceLevel, zerolog.DebugLevel}[i%2])
				}
				zerolog.DisableSampling(i%3 == 0)
				runtime.Gosched()
			}
		}()
	}
	if wl.Sync && !wl.Console {
		for pg := 0; pg < wl.Plain; pg++ {
			for i := 0; i < 3; i++ {
				want = append(want, fmt.Sprintf("plain line %d-%d through the standard library logger\n", pg, i))
			}
			sw := lastSync
			wg.Add(1)
			go func(pg int) {
				defer wg.Done()
				<-start
				for i := 0; i < 3; i++ {
					sw.Write([]byte(fmt.Sprintf("plain line %d-%d through the standard library logger\n", pg, i)))
				}
			}(pg)
		}
	}
	if wl.Sync && wl.Closer {
		sw := lastSync
		tg.Add(1)
		go func() {
			defer tg.Done()
			<-start
			for i := 0; i < 3; i++ {
				if c, ok := sw.(io.Closer); ok {
					c.Close()
				}
				runtime.Gosched()
			}
		}()
	}
	close(start)
	if wl.Writer == "gate" {
		time.Sleep(300 * time.Microsecond) // let goroutines pile up inside Write
		close(w.gate)
	}
	wg.Wait()
	close(stop)
	tg.Wait()
	if w.hold && w.trigger && !w.console {
		lastTrigger.Trigger() // whatever is still held (no line at warn or above came) is released now
	}
	zerolog.SetGlobalLevel(zerolog.TraceLevel)
	zerolog.DisableSampling(false)
	if w.testw != nil {
		// what the test double kept, as it reads now (TestWriter hands over the line without its newline)
		for _, s := range w.testw.kept {
			w.got = append(w.got, []byte(s+"\n"))
		}
	}
	nontrivial = atomic.LoadInt32(&w.maxIn) >= 2 && crossed
	if atomic.LoadInt32(&w.mutated) != 0 {
		return "the byte slice handed to Write was modified before Write returned", nontrivial
	}
	if wl.Sync && atomic.LoadInt32(&w.fmtOverlap) != 0 {
		return "SyncWriter let two ConsoleWriter.Write calls run at once (seen from a FormatFieldName callback)", nontrivial
	}
	if wl.Sync && atomic.LoadInt32(&w.maxIn) > 1 {
		return fmt.Sprintf("SyncWriter let %d calls overlap in the wrapped writer", w.maxIn), nontrivial
	}
	got := make([]string, len(w.got))
	for i, b := range w.got {
		got[i] = string(b)
	}
	sort.Strings(got)
	sort.Strings(want)
	if wl.Filter {
		// some events were filtered out, whole: what did arrive is a sub-multiset of the events produced alone
		left := map[string]int{}
		for _, s := range want {
			left[s]++
		}
		for _, s := range got {
			if left[s] == 0 {
				return fmt.Sprintf("with the global level switching between Trace, Disabled, Error and Fatal the destination received %.200q, which is none of the events produced alone (or one too many of it)", s), nontrivial
			}
			left[s]--
		}
		return "", nontrivial
	}
	if len(got) != len(want) {
		return fmt.Sprintf("destination received %d writes for %d events", len(got), len(want)), nontrivial
	}
	for i := range got {
		if got[i] != want[i] {
			return fmt.Sprintf("received events differ from the events produced alone: first difference got %.200q, want %.200q", got[i], want[i]), nontrivial
		}
	}
	return "", nontrivial
}

func genChain(rt *rapid.T, g *lp.G) Chain {
	c := Chain{Logger: rapid.SampledFrom([]int{0, 1, 2, 3, 4, 0, 1, 2, 3, 4, 7, 8}).Draw(rt, "logger")}
	c.Ev = g.Event("ev")
	// deterministic, always enabled at debug or above, never panics
	switch c.Ev.Method {
	case "trace", "withlevel", "log":
		c.Ev.Method = rapid.SampledFrom([]string{"debug", "info", "warn", "error"}).Draw(rt, "m2")
	}
	if !lp.Direct(c.Ev.Method) && rapid.IntRange(0, 9).Draw(rt, "panicev") == 0 {
		c.Panic = true
		if rapid.Bool().Draw(rt, "panicfin") {
			c.Ev.Fin = "msgfunc"
		}
	}
	if p := rapid.IntRange(0, 9).Draw(rt, "payload"); p >= 7 {
		n := 600
		if p == 9 {
			n = 70000
		}
		if lp.Direct(c.Ev.Method) {
			c.Ev.Msg = append(c.Ev.Msg, bytes.Repeat([]byte("P"), n)...)
		} else {
			c.Ev.Ops = append(c.Ev.Ops, lp.Op{K: []byte("pad"), V: lp.Val{T: "str", S: bytes.Repeat([]byte("P"), n)}})
		}
	}
	return c
}

func genWorkload(rt *rapid.T, maxG int) *Workload {
	cfg := lp.DefaultCfg()
	cfg.NoCaller = true
	cfg.NoLong = true
	cfg.NoSettings = true
	cfg.MaxOps = 4
	g := lp.NewG(rt, cfg)
	g.Settings()
	wl := &Workload{Writer: rapid.SampledFrom([]string{"fast", "gosched", "sleep", "gate"}).Draw(rt, "writer"), Sync: rapid.IntRange(0, 2).Draw(rt, "sync") == 0, Toggle: rapid.Bool().Draw(rt, "toggle"),
		Console: rapid.IntRange(0, 3).Draw(rt, "console") == 0}
	wl.Filter = wl.Toggle && rapid.IntRange(0, 2).Draw(rt, "filter") == 0
	wl.Closer = wl.Sync && rapid.Bool().Draw(rt, "closer")
	wl.Double = wl.Sync && rapid.Bool().Draw(rt, "double")
	wl.Trigger = !wl.Console && rapid.IntRange(0, 2).Draw(rt, "trigger") == 0
	// (not together with the closer: TriggerLevelWriter.Close gives up the lines it holds, as documented)
	wl.Hold = wl.Trigger && !wl.Closer && rapid.Bool().Draw(rt, "hold")
	if wl.Sync && !wl.Console {
		wl.Plain = rapid.IntRange(0, 2).Draw(rt, "plain")
	}
	wl.ConsNew = wl.Console && rapid.Bool().Draw(rt, "consnew")
	wl.TestW = !wl.Console && !wl.Trigger && wl.Plain == 0 && rapid.IntRange(0, 3).Draw(rt, "testw") == 0
	ng := rapid.IntRange(2, maxG).Draw(rt, "G")
	for i := 0; i < ng; i++ {
		n := rapid.IntRange(1, 6).Draw(rt, "n")
		var cs []Chain
		for k := 0; k < n; k++ {
			c := genChain(rt, g)
			// logger 5 belongs to goroutine 0, which may update its context between events; its
			// Level() copy (6) is used by everybody and must keep emitting the original fields
			if i == 0 && rapid.IntRange(0, 2).Draw(rt, "own") == 0 {
				c.Logger, c.Update = 5, rapid.IntRange(0, 2).Draw(rt, "upd")
			} else if rapid.IntRange(0, 5).Draw(rt, "copy") == 0 {
				c.Logger = 6
			}
			cs = append(cs, c)
		}
		wl.G = append(wl.G, cs)
	}
	return wl
}

func fail(t interface{ Fatalf(string, ...interface{}) }, wl *Workload, msg string) {
	ev.SaveReplay("C06-workload", wl)
	fmt.Printf("VERIF-FAIL: %s\n", msg)
	t.Fatalf("%s", msg)
}

func TestWorkloads(t *testing.T) {
	maxG := 12
	if ev.Thorough() {
		maxG = 32
	}
	rapid.Check(t, func(rt *rapid.T) {
		wl := genWorkload(rt, maxG)
		msg, nt := run(wl)
		b, _ := json.Marshal(struct {
			W string
			S bool
			G int
		}{wl.Writer, wl.Sync, len(wl.G)})
		full, _ := json.Marshal(wl)
		rec.Case(full, nt, "writer:"+wl.Writer, fmt.Sprintf("sync:%v", wl.Sync))
		rec.Sample(json.RawMessage(b))
		if msg != "" {
			fail(rt, wl, msg)
		}
	})
}

func TestReplay(t *testing.T) {
	f := os.Getenv("VERIF_REPLAY")
	if f == "" {
		t.Skip("no VERIF_REPLAY")
	}
	b, err := os.ReadFile(f)
	if err != nil {
		t.Fatal(err)
	}
	var wl Workload
	if err := json.Unmarshal(b, &wl); err != nil {
		t.Fatal(err)
	}
	rec.Case(b, true, "replay")
	rec.Case(append(b, 1), true, "replay")
	for i := 0; i < 200; i++ {
		if msg, _ := run(&wl); msg != "" {
			fail(t, &wl, msg)
		}
	}
}

// TestSamplersConcurrent: every exported sampler, one instance shared by loggers used from several
// goroutines at once. Which events a sampler admits is C13's subject; here only: whatever arrives is
// one of the events produced alone, at most once, nothing panics, and the race build stays silent.
func TestSamplersConcurrent(t *testing.T) {
	rapid.Check(t, func(rt *rapid.T) {
		ng := rapid.IntRange(2, 8).Draw(rt, "G")
		ne := rapid.IntRange(1, 40).Draw(rt, "N")
		kind := rapid.SampledFrom([]string{"random", "often", "sometimes", "rarely", "basic", "burst", "level", "burst-random"}).Draw(rt, "sampler")
		var s zerolog.Sampler
		switch kind {
		case "random":
			s = zerolog.RandomSampler(rapid.IntRange(1, 4).Draw(rt, "n"))
		case "often":
			s = zerolog.Often
		case "sometimes":
			s = zerolog.Sometimes
		case "rarely":
			s = zerolog.Rarely
		case "basic":
			s = &zerolog.BasicSampler{N: uint32(rapid.IntRange(1, 3).Draw(rt, "n"))}
		case "burst":
			s = &zerolog.BurstSampler{Burst: 3, Period: time.Millisecond, NextSampler: &zerolog.BasicSampler{N: 2}}
		case "level":
			s = zerolog.LevelSampler{InfoSampler: zerolog.RandomSampler(2), WarnSampler: &zerolog.BasicSampler{N: 2}}
		case "burst-random":
			s = &zerolog.BurstSampler{Burst: 2, Period: time.Millisecond, NextSampler: zerolog.RandomSampler(2)}
		}
		w := &checkWriter{mode: "gosched", gate: make(chan struct{})}
		base := zerolog.New(w).Sample(s)
		child := base.With().Str("child", "yes").Logger()
		var wg sync.WaitGroup
		var pmu sync.Mutex
		var panics []string
		want := map[string]int{}
		for g := 0; g < ng; g++ {
			for i := 0; i < ne; i++ {
				lvl := []string{"info", "warn"}[(g+i)%2]
				if (g+i)%3 == 0 {
					want[fmt.Sprintf("{\"level\":%q,\"child\":\"yes\",\"g\":%d,\"i\":%d}\n", lvl, g, i)]++
				} else {
					want[fmt.Sprintf("{\"level\":%q,\"g\":%d,\"i\":%d}\n", lvl, g, i)]++
				}
			}
		}
		for g := 0; g < ng; g++ {
			g := g
			wg.Add(1)
			go func() {
				defer wg.Done()
				defer func() {
					if r := recover(); r != nil {
						pmu.Lock()
						panics = append(panics, fmt.Sprint(r))
						pmu.Unlock()
					}
				}()
				for i := 0; i < ne; i++ {
					l := &base
					if (g+i)%3 == 0 {
						l = &child
					}
					e := l.Info()
					if (g+i)%2 == 1 {
						e = l.Warn()
					}
					e.Int("g", g).Int("i", i).Send()
				}
			}()
		}
		wg.Wait()
		key := fmt.Sprintf("samplers %s G=%d N=%d", kind, ng, ne)
		rec.Case([]byte(key), true, "samplers-concurrent:"+kind)
		bad := ""
		if len(panics) > 0 {
			bad = fmt.Sprintf("a logging call panicked: %s", panics[0])
		}
		for _, b := range w.got {
			if bad != "" {
				break
			}
			if want[string(b)] == 0 {
				bad = fmt.Sprintf("destination received %.200q, which is none of the events produced alone (or one too many of it)", b)
			}
			want[string(b)]--
		}
		if bad != "" {
			ev.SaveReplay("C06-samplers", map[string]interface{}{"sampler": kind, "goroutines": ng, "events": ne})
			fmt.Printf("VERIF-FAIL: [%s] %s\n", key, bad)
			rt.Fatalf("%s", bad)
		}
	})
}

// TestStackMarshalerConcurrent: errors that carry a pkg/errors stack trace, rendered through
// pkgerrors.MarshalStack by several goroutines at once. Each error keeps the trace it was created with,
// so every line must be byte for byte what logging that error alone gives.
func TestStackMarshalerConcurrent(t *testing.T) {
	old := zerolog.ErrorStackMarshaler
	zerolog.ErrorStackMarshaler = pkgerrors.MarshalStack
	defer func() { zerolog.ErrorStackMarshaler = old }()
	rapid.Check(t, func(rt *rapid.T) {
		ng := rapid.IntRange(2, 8).Draw(rt, "G")
		ne := rapid.IntRange(5, 60).Draw(rt, "N")
		depths := make([]int, ng)
		errs := make([]error, ng)
		want := make([]string, ng)
		for g := range errs {
			depths[g] = rapid.IntRange(0, 12).Draw(rt, "depth")
			errs[g] = deepErr(depths[g], fmt.Sprintf("failure in worker %d", g))
			var solo bytes.Buffer
			l := zerolog.New(&solo)
			l.Error().Stack().Err(errs[g]).Int("g", g).Msg("solo")
			want[g] = solo.String()
		}
		w := &checkWriter{mode: "gosched", gate: make(chan struct{})}
		l := zerolog.New(w)
		var wg sync.WaitGroup
		for g := 0; g < ng; g++ {
			g := g
			wg.Add(1)
			go func() {
				defer wg.Done()
				for i := 0; i < ne; i++ {
					l.Error().Stack().Err(errs[g]).Int("g", g).Msg("solo")
				}
			}()
		}
		wg.Wait()
		rec.Case([]byte(fmt.Sprintf("stack marshaler G=%d N=%d depths=%v", ng, ne, depths)), true, "stack-marshaler-concurrent")
		count := make([]int, ng)
		for _, b := range w.got {
			ok := false
			for g := range want {
				if string(b) == want[g] {
					count[g]++
					ok = true
					break
				}
			}
			if !ok {
				ev.SaveReplay("C06-stack", map[string]interface{}{"goroutines": ng, "events": ne, "depths": depths})
				msg := fmt.Sprintf("with %d goroutines logging errors with stack traces at once the destination received %.400q, which is none of the lines these errors give alone", ng, b)
				fmt.Printf("VERIF-FAIL: %s\n", msg)
				rt.Fatalf("%s", msg)
			}
		}
		for g, c := range count {
			if c != ne {
				rt.Fatalf("worker %d: %d of %d lines arrived", g, c, ne)
			}
		}
	})
}

//go:noinline
func deepErr(depth int, msg string) error {
	if depth == 0 {
		return pkgerr.New(msg)
	}
	return deepErr(depth-1, msg)
}
