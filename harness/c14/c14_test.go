// C14 — writer fan-out is complete and failures stay contained.
package c14

import (
	"time"
	"context"
	stdlog "log"
	"encoding/json"
	"errors"
	"fmt"
	"io"
	"os"
	"strconv"
	"strings"
	"syscall"
	"testing"

	"github.com/rs/zerolog"
	"pgregory.net/rapid"
	"verif/harness/ev"
)

const rule = "cases = (destination kinds {plain io.Writer, LevelWriter, FilteredLevelWriter(level), SyncWriter around either, LevelWriterAdapter} x events with levels x per (destination,event) outcome {ok, error_i, short write}); exhaustive for <=3 destinations x <=2 events (<=3 in thorough) over 3 kinds, 3 levels, 3 outcomes; rapid for up to 8 destinations, 30 events, nested MultiLevelWriter; also a single failing writer without MultiLevelWriter, and an ErrorHandler that itself logs through a failing audit logger (each failed event, the audit event included, gets its own report). level 5 enters through Panic() (written and reported before it panics), events without a level also through Logger.Write and a standard log.Logger. oracle = fan-out model + ErrorHandler log. non-trivial = at least one failing destination that is not the last one; distinct by construction / FNV-64"

var rec = ev.New("C14", rule)

func TestMain(m *testing.M) {
	code := m.Run()
	rec.Flush()
	os.Exit(code)
}

type Dest struct {
	Kind   string `json:"kind"`             // plain | level | filtered | multi
	Filter int    `json:"filter,omitempty"` // filtered: level
	Sub    []Dest `json:"sub,omitempty"`    // multi: nested destinations
}

type Case struct {
	Dests    []Dest  `json:"dests"`
	Levels   []int   `json:"levels"`   // per event
	Outcomes [][]int `json:"outcomes"` // [leaf destination][event]: 0 ok, 1.. error id, -1 short(len-1), -2 short(0)
	Single   bool    `json:"single,omitempty"`
	// Direct: the fan-out is used as a plain io.Writer (Write, no level), e.g. behind the standard
	// library logger: every destination, filtered or not, receives every line
	Direct bool `json:"direct_write,omitempty"`
	// HandlerLogs: the ErrorHandler itself logs ("write failed") through an audit logger whose
	// destination fails too: that event is a failed event of its own and gets its own report
	HandlerLogs bool `json:"handler_logs,omitempty"`
	// RelevelAt/RelevelTo: before event RelevelAt (>0) the Level of every FilteredLevelWriter is set
	// to RelevelTo (an application turning verbosity up or down at run time): the fan-out follows
	// NilHandler: the program has set zerolog.ErrorHandler = nil (the documented default: failures
	// are then printed to stderr): the logging call still returns normally
	NilHandler bool `json:"nil_error_handler,omitempty"`
	RelevelAt  int  `json:"relevel_at,omitempty"`
	RelevelTo  int  `json:"relevel_to,omitempty"`
	// Decoys: other fan-outs are built from the same destinations (the first one alone, all of them)
	// plus a destination of their own, before and after the fan-out under test is built: building a
	// MultiLevelWriter must not change what an existing one, or a later one, delivers to
	Decoys bool `json:"decoys,omitempty"`
	// CloseAt (>0): before event CloseAt the program calls Close on the fan-out (and on every SyncWriter
	// in it). None of the destinations is an io.Closer, so nothing is closed and every later event is
	// delivered and reported as before
	CloseAt int `json:"close_at,omitempty"`
	// ViaWrite: events without a level (6) enter through Logger.Write, the io.Writer a standard library
	// log.Logger or io.Copy writes to (odd events: through such a log.Logger): an event like any other
	ViaWrite bool `json:"nolevel_via_logger_write,omitempty"`
	// DeadCtx: odd events carry a Go context that is already cancelled, even ones one whose deadline has
	// passed (a request that is over while its last lines are logged): events like any other
	DeadCtx bool `json:"events_carry_dead_contexts,omitempty"`
}

var cancelledCtx, expiredCtx = func() (context.Context, context.Context) {
	c, cancel := context.WithCancel(context.Background())
	cancel()
	d, cancel2 := context.WithDeadline(context.Background(), time.Unix(1, 0))
	_ = cancel2
	return c, d
}()

// decoyW belongs to a fan-out nobody writes to.
type decoyW struct{ n int }

func (d *decoyW) Write(p []byte) (int, error) { d.n++; return len(p), nil }

var builtFilters []*zerolog.FilteredLevelWriter

var errAudit = errors.New("audit destination down")

type auditW struct{}

func (auditW) Write(p []byte) (int, error) { return 0, errAudit }

type got struct {
	level int
	data  string
}

type leaf struct {
	id       int
	kind     string
	outcomes []int
	log      []got
	calls    int
}

// error-3 is what writing to a closed file returns
// error-2 is a transient errno reported together with a partial count (a non-blocking descriptor)
var errs = []error{nil, errors.New("error-1"), &os.SyscallError{Syscall: "write", Err: syscall.EAGAIN}, &os.PathError{Op: "write", Path: "/var/log/app.log", Err: os.ErrClosed}}

func (l *leaf) res(p []byte) (int, error) {
	o := 0
	if l.calls < len(l.outcomes) {
		o = l.outcomes[l.calls]
	}
	l.calls++
	switch {
	case o == 2:
		return len(p) / 2, errs[o] // the logger reports it; it does not come back with the rest
	case o > 0:
		return 0, errs[o]
	case o == -1:
		return len(p) - 1, nil
	case o == -2:
		return 0, nil
	}
	return len(p), nil
}

// tbLeaf stands for a testing.TB behind zerolog.TestWriter: it records what would be logged.
type tbLeaf struct{ *leaf }

func (l tbLeaf) Helper() {}
func (l tbLeaf) Log(args ...interface{}) {
	// a test double that collects what is logged for assertions at the end of the test: it keeps the strings
	// it is handed (strings are immutable; whoever passes one may not change it afterwards)
	if s, ok := args[0].(string); ok && len(args) == 1 {
		l.log = append(l.log, got{-100, s})
	} else {
		l.log = append(l.log, got{-100, fmt.Sprint(args...)})
	}
	l.calls++
}
func (l tbLeaf) Logf(format string, args ...interface{}) {
	s := fmt.Sprintf(format, args...)
	if i := strings.Index(s, ": "); i >= 0 { // "<erase>file.go:123: <line>": only the line is compared
		s = s[i+2:]
	}
	l.log = append(l.log, got{-100, s})
	l.calls++
}

// syslogLeaf is a syslog.Writer look-alike: one method per severity, plus Write.
type syslogLeaf struct{ *leaf }

func (l syslogLeaf) call(lv int, m string) error {
	l.log = append(l.log, got{lv, m})
	_, err := l.res([]byte(m))
	return err
}
func (l syslogLeaf) Write(p []byte) (int, error) {
	l.log = append(l.log, got{-100, string(p)})
	return l.res(p)
}
func (l syslogLeaf) Debug(m string) error   { return l.call(0, m) }
func (l syslogLeaf) Info(m string) error    { return l.call(1, m) }
func (l syslogLeaf) Warning(m string) error { return l.call(2, m) }
func (l syslogLeaf) Err(m string) error     { return l.call(3, m) }
func (l syslogLeaf) Emerg(m string) error   { return l.call(4, m) }
func (l syslogLeaf) Crit(m string) error    { return l.call(5, m) }

type plainLeaf struct{ *leaf }

func (l plainLeaf) Write(p []byte) (int, error) {
	l.log = append(l.log, got{-100, string(p)})
	return l.res(p)
}

type levelLeaf struct{ *leaf }

func (l levelLeaf) Write(p []byte) (int, error) {
	l.log = append(l.log, got{-100, string(p)})
	return l.res(p)
}
func (l levelLeaf) WriteLevel(lv zerolog.Level, p []byte) (int, error) {
	l.log = append(l.log, got{int(lv), string(p)})
	return l.res(p)
}

// build constructs writers; leaves are numbered depth-first.
func build(ds []Dest, outcomes [][]int, leaves *[]*leaf, filters *[][]int, path []int) []io.Writer {
	var ws []io.Writer
	for _, d := range ds {
		switch d.Kind {
		case "multi":
			ws = append(ws, zerolog.MultiLevelWriter(build(d.Sub, outcomes, leaves, filters, path)...))
		default:
			lf := &leaf{id: len(*leaves), kind: d.Kind}
			if lf.id < len(outcomes) {
				lf.outcomes = outcomes[lf.id]
			}
			*leaves = append(*leaves, lf)
			p := append([]int{}, path...)
			switch d.Kind {
			case "plain":
				ws = append(ws, plainLeaf{lf})
			case "level":
				ws = append(ws, levelLeaf{lf})
			case "filtered":
				p = append(p, d.Filter)
				fw := &zerolog.FilteredLevelWriter{Writer: levelLeaf{lf}, Level: zerolog.Level(d.Filter)}
				builtFilters = append(builtFilters, fw)
				ws = append(ws, fw)
			case "sync-plain":
				ws = append(ws, zerolog.SyncWriter(plainLeaf{lf}))
			case "sync-level":
				ws = append(ws, zerolog.SyncWriter(levelLeaf{lf}))
			case "adapter":
				ws = append(ws, zerolog.LevelWriterAdapter{Writer: plainLeaf{lf}})
			case "syslog", "syslog-cee":
				// the syslog adapters: a method per severity that reports an error or nothing (no byte
				// counts: a "short write" outcome means success here); Trace events are not forwarded
				oc := append([]int{}, lf.outcomes...)
				for i := range oc {
					if oc[i] < 0 {
						oc[i] = 0
					}
				}
				lf.outcomes = oc
				if d.Kind == "syslog" {
					ws = append(ws, zerolog.SyslogLevelWriter(syslogLeaf{lf}))
				} else {
					ws = append(ws, zerolog.SyslogCEEWriter(syslogLeaf{lf}))
				}
			case "testwriter", "testwriter-frame":
				// zerolog.TestWriter: the line goes to a testing.TB without its newline (t.Log adds one); it
				// accepts everything and reports the whole input as written
				lf.outcomes = nil
				tw := zerolog.TestWriter{T: tbLeaf{lf}}
				if d.Kind == "testwriter-frame" {
					tw.Frame = 1
				}
				ws = append(ws, tw)
			case "logger":
				// another Logger as a destination (Logger is an io.Writer): it logs the line as the message
				// of an event of its own and must report the whole input as written; its own destination
				// always succeeds here (a failure there would be the inner logger's event, not this one's)
				lf.outcomes = nil
				ws = append(ws, zerolog.New(levelLeaf{lf}))
			default:
				panic("c14: destination kind " + d.Kind)
			}
			*filters = append(*filters, p)
		}
	}
	return ws
}

func run(c *Case) (msg string, nontrivial bool) {
	var leaves []*leaf
	var filters [][]int
	builtFilters = nil
	ws := build(c.Dests, c.Outcomes, &leaves, &filters, nil)
	var handled []error
	old := zerolog.ErrorHandler
	audit, depth := zerolog.New(auditW{}), 0
	zerolog.ErrorHandler = func(err error) {
		handled = append(handled, err)
		if c.HandlerLogs && depth == 0 {
			depth++
			audit.Error().Msg("write failed")
			depth--
		}
	}
	defer func() { zerolog.ErrorHandler = old }()
	if c.NilHandler {
		zerolog.ErrorHandler = nil
		if null, err := os.OpenFile(os.DevNull, os.O_WRONLY, 0); err == nil {
			oldErr := os.Stderr
			os.Stderr = null
			defer func() { os.Stderr = oldErr; null.Close() }()
		}
	}
	var l zerolog.Logger
	var decoys []*decoyW
	sibling := func() {
		if c.Decoys {
			d0, d1 := &decoyW{}, &decoyW{}
			decoys = append(decoys, d0, d1)
			zerolog.MultiLevelWriter(append(append([]io.Writer{}, ws...), d1)...)
			zerolog.MultiLevelWriter(ws[0], d0)
		}
	}
	sibling()
	var top io.Writer
	if c.Single {
		top = ws[0]
	} else {
		// the slice handed to MultiLevelWriter stays the caller's: reusing it afterwards (here: every
		// entry replaced by a destination of another fan-out) must not retarget this one
		arg := append([]io.Writer{}, ws...)
		top = zerolog.MultiLevelWriter(arg...)
		for i := range arg {
			d := &decoyW{}
			decoys = append(decoys, d)
			arg[i] = d
		}
	}
	l = zerolog.New(top)
	sibling()
	// model state
	calls := make([]int, len(leaves))
	want := make([][]got, len(leaves))
	for ei, lv := range c.Levels {
		if c.RelevelAt > 0 && ei == c.RelevelAt {
			for _, fw := range builtFilters {
				fw.Level = zerolog.Level(c.RelevelTo)
			}
			for li := range filters {
				for k := range filters[li] {
					filters[li][k] = c.RelevelTo
				}
			}
		}
		if c.CloseAt > 0 && ei == c.CloseAt {
			if cl, ok := top.(io.Closer); ok {
				cl.Close()
			}
			for _, w := range ws {
				if cl, ok := w.(io.Closer); ok {
					cl.Close()
				}
			}
		}
		handled = handled[:0]
		returned := false
		var directErr error
		func() {
			defer func() { recover() }()
			if c.Direct {
				line := fmt.Sprintf("direct line %d\n", ei)
				_, directErr = zerolog.MultiLevelWriter(ws...).Write([]byte(line))
			} else if lv == 5 {
				// level 5 goes through the Panic() entry point: the event is written (and a failure
				// reported) before the call panics — which it must, so "returned" means "panicked" here
				defer func() {
					if recover() != nil {
						returned = true
					}
				}()
				if c.DeadCtx {
					l.Panic().Ctx(cancelledCtx).Int("event", ei).Msg("m")
				} else {
					l.Panic().Int("event", ei).Msg("m")
				}
				return
			} else if lv == 6 && c.ViaWrite {
				if ei%2 == 1 {
					stdlog.New(l, "", 0).Printf("w%d", ei)
				} else {
					l.Write([]byte(fmt.Sprintf("w%d\n", ei)))
				}
			} else if c.DeadCtx {
				l.WithLevel(zerolog.Level(lv)).Ctx([]context.Context{expiredCtx, cancelledCtx}[ei%2]).Int("event", ei).Msg("m")
			} else {
				l.WithLevel(zerolog.Level(lv)).Int("event", ei).Msg("m")
			}
			returned = true
		}()
		if !returned {
			return fmt.Sprintf("event %d (level %d): the logging call did not return normally (Panic(): did not panic)", ei, lv), false
		}
		line := fmt.Sprintf("{\"level\":%q,\"event\":%d,\"message\":\"m\"}\n", zerolog.Level(lv).String(), ei)
		if lv == 6 {
			line = fmt.Sprintf("{\"event\":%d,\"message\":\"m\"}\n", ei)
			if c.ViaWrite {
				line = fmt.Sprintf("{\"message\":\"w%d\"}\n", ei)
			}
		}
		if c.Direct {
			line = fmt.Sprintf("direct line %d\n", ei)
		}
		var firstErr error
		for li, lf := range leaves {
			pass := true
			for _, f := range filters[li] {
				if lv < f && !c.Direct {
					pass = false
				}
			}
			if !pass {
				continue
			}
			lvl := lv
			if lf.kind == "plain" || lf.kind == "sync-plain" || lf.kind == "adapter" || c.Direct {
				lvl = -100
			}
			if lf.kind == "syslog" || lf.kind == "syslog-cee" {
				prefix := ""
				if lf.kind == "syslog-cee" {
					prefix = "@cee:"
				}
				if c.Direct {
					// plain Write: the prefix and the line are written one after the other
					if prefix != "" {
						want[li] = append(want[li], got{-100, prefix})
						o := 0
						if calls[li] < len(lf.outcomes) {
							o = lf.outcomes[calls[li]]
						}
						calls[li]++
						if o > 0 {
							if firstErr == nil {
								firstErr = errs[o]
							}
							continue // the line itself is not attempted after a failed prefix
						}
					}
					want[li] = append(want[li], got{-100, line})
				} else {
					if lv == -1 {
						continue // Trace has no syslog severity: nothing is forwarded, nothing can fail
					}
					sl := lv
					if lv == 6 {
						sl = 1 // NoLevel is sent as Info
					}
					want[li] = append(want[li], got{sl, prefix + line})
				}
			} else if lf.kind == "testwriter" || lf.kind == "testwriter-frame" {
				want[li] = append(want[li], got{-100, strings.TrimRight(line, "\n")})
			} else if lf.kind == "logger" {
				want[li] = append(want[li], got{6, "{\"message\":" + strconv.Quote(strings.TrimSuffix(line, "\n")) + "}\n"})
			} else {
				want[li] = append(want[li], got{lvl, line})
			}
			o := 0
			if calls[li] < len(lf.outcomes) {
				o = lf.outcomes[calls[li]]
			}
			calls[li]++
			var e error
			switch {
			case o > 0:
				e = errs[o]
			case o < 0 && !c.Single:
				e = io.ErrShortWrite
			}
			if e != nil {
				if firstErr == nil {
					firstErr = e
				}
				if li < len(leaves)-1 {
					nontrivial = true
				}
			}
		}
		if c.Direct {
			if directErr != firstErr {
				return fmt.Sprintf("line %d: Write returned error %v, want %v (the first failing destination)", ei, directErr, firstErr), nontrivial
			}
			continue
		}
		if c.NilHandler {
			continue // nothing to count; returning normally was checked above
		}
		if firstErr == nil && len(handled) != 0 {
			return fmt.Sprintf("event %d: ErrorHandler called %d times (%v) although no destination failed", ei, len(handled), handled), nontrivial
		}
		if firstErr != nil && c.HandlerLogs {
			if len(handled) != 2 || handled[0] != firstErr || handled[1] != errAudit {
				return fmt.Sprintf("event %d: ErrorHandler calls %v, want [%v %v]: one for the event and one for the audit event the handler logged through a failing logger", ei, handled, firstErr, errAudit), nontrivial
			}
		} else if firstErr != nil && (len(handled) != 1 || handled[0] != firstErr) {
			return fmt.Sprintf("event %d: ErrorHandler calls %v, want exactly one with %v (the first failing destination)", ei, handled, firstErr), nontrivial
		}
	}
	for i, d := range decoys {
		if d.n != 0 {
			return fmt.Sprintf("decoy destination %d, part of another fan-out built from the same writers, received %d writes although nothing was written to that fan-out", i, d.n), nontrivial
		}
	}
	for li, lf := range leaves {
		if len(lf.log) != len(want[li]) {
			return fmt.Sprintf("destination %d (%s): received %d events, want %d: %v", li, lf.kind, len(lf.log), len(want[li]), lf.log), nontrivial
		}
		for i := range lf.log {
			if lf.log[i] != want[li][i] {
				return fmt.Sprintf("destination %d (%s) event %d: received %+v, want %+v", li, lf.kind, i, lf.log[i], want[li][i]), nontrivial
			}
		}
	}
	return "", nontrivial
}

func fail(t interface{ Fatalf(string, ...interface{}) }, name string, c *Case, msg string) {
	ev.SaveReplay("C14-"+name, c)
	fmt.Printf("VERIF-FAIL: %s\n", msg)
	t.Fatalf("%s", msg)
}

func TestExhaustive(t *testing.T) {
	maxE := 2
	if ev.Thorough() {
		maxE = 3
	}
	sh, nsh := ev.Shard()
	kinds := []Dest{{Kind: "plain"}, {Kind: "level"}, {Kind: "filtered", Filter: 2}}
	levels := []int{1, 2, 3}
	outs := []int{0, 1, -1}
	var n, nt int64
	idx := 0
	for D := 1; D <= 3; D++ {
		for E := 1; E <= maxE; E++ {
			nk := pow(3, D)
			nl := pow(3, E)
			no := pow(3, D*E)
			for ki := 0; ki < nk; ki++ {
				for li := 0; li < nl; li++ {
					idx++
					if idx%nsh != sh {
						continue
					}
					for oi := 0; oi < no; oi++ {
						c := &Case{}
						k := ki
						for d := 0; d < D; d++ {
							c.Dests = append(c.Dests, kinds[k%3])
							k /= 3
						}
						l := li
						for e := 0; e < E; e++ {
							c.Levels = append(c.Levels, levels[l%3])
							l /= 3
						}
						o := oi
						for d := 0; d < D; d++ {
							row := make([]int, E)
							for e := 0; e < E; e++ {
								row[e] = outs[o%3]
								if row[e] == 1 {
									row[e] = 1 + d // distinct error per destination
								}
								o /= 3
							}
							c.Outcomes = append(c.Outcomes, row)
						}
						c.HandlerLogs = oi%2 == 1 // every other outcome matrix runs with a handler that logs
						msg, ntv := run(c)
						n++
						if ntv {
							nt++
						}
						if msg != "" {
							fail(t, "exhaustive", c, msg)
						}
					}
				}
			}
		}
	}
	rec.Bulk(n, nt, "exhaustive")
	rec.Exhaustive(fmt.Sprintf("1..3 destinations x 1..%d events x 3 kinds x 3 levels x 3 outcomes per (destination,event) (shard %d/%d)", maxE, sh, nsh))
	rec.Sample(Case{Dests: []Dest{{Kind: "plain"}, {Kind: "filtered", Filter: 2}, {Kind: "level"}}, Levels: []int{1, 3}, Outcomes: [][]int{{-1, 0}, {0, 2}, {3, 0}}})
}

func pow(b, e int) int {
	r := 1
	for i := 0; i < e; i++ {
		r *= b
	}
	return r
}

func genDests(rt *rapid.T, n, depth int, label string) []Dest {
	var ds []Dest
	for i := 0; i < n; i++ {
		kinds := []string{"plain", "level", "filtered", "filtered", "sync-plain", "sync-level", "adapter", "logger", "syslog", "syslog-cee", "testwriter", "testwriter-frame"}
		if depth > 0 {
			kinds = append(kinds, "multi")
		}
		switch k := rapid.SampledFrom(kinds).Draw(rt, label+".kind"); k {
		case "filtered":
			ds = append(ds, Dest{Kind: k, Filter: rapid.SampledFrom([]int{-1, 0, 1, 2, 3, 5, 7, -7, 100}).Draw(rt, label+".f")})
		case "multi":
			ds = append(ds, Dest{Kind: k, Sub: genDests(rt, rapid.IntRange(1, 3).Draw(rt, label+".nsub"), depth-1, label+".sub")})
		default:
			ds = append(ds, Dest{Kind: k})
		}
	}
	return ds
}

func countLeaves(ds []Dest) int {
	n := 0
	for _, d := range ds {
		if d.Kind == "multi" {
			n += countLeaves(d.Sub)
		} else {
			n++
		}
	}
	return n
}

func hasKind(ds []Dest, k string) bool {
	for _, d := range ds {
		if d.Kind == k || hasKind(d.Sub, k) {
			return true
		}
	}
	return false
}

func TestRapid(t *testing.T) {
	rapid.Check(t, func(rt *rapid.T) {
		c := &Case{}
		c.Dests = genDests(rt, rapid.IntRange(1, 8).Draw(rt, "ndest"), 2, "d")
		if rapid.IntRange(0, 3).Draw(rt, "decoys") == 0 {
			c.Decoys = true
			if rapid.Bool().Draw(rt, "nestedfirst") {
				// the first destination is itself a fan-out built around a fan-out
				inner := Dest{Kind: "multi", Sub: genDests(rt, rapid.IntRange(1, 3).Draw(rt, "ninner"), 0, "inner")}
				c.Dests[0] = Dest{Kind: "multi", Sub: append([]Dest{inner}, genDests(rt, rapid.IntRange(0, 2).Draw(rt, "nouter"), 0, "outer")...)}
			}
		}
		c.ViaWrite = rapid.Bool().Draw(rt, "viawrite")
		c.DeadCtx = rapid.IntRange(0, 2).Draw(rt, "deadctx") == 0
		ne := rapid.IntRange(1, 30).Draw(rt, "nev")
		for i := 0; i < ne; i++ {
			c.Levels = append(c.Levels, rapid.SampledFrom([]int{-1, 0, 1, 2, 3, 6, 6, 9, 127, 5, 5}).Draw(rt, "lvl"))
		}
		if hasKind(c.Dests, "syslog") || hasKind(c.Dests, "syslog-cee") {
			// the syslog adapters know the seven named levels and NoLevel only (anything else panics by design)
			for i, lv := range c.Levels {
				if lv == 9 || lv == 127 {
					c.Levels[i] = 3
				}
			}
		}
		nl := countLeaves(c.Dests)
		for d := 0; d < nl; d++ {
			row := make([]int, ne)
			for e := range row {
				row[e] = rapid.SampledFrom([]int{0, 0, 0, 0, 1, 2, 3, -1, -2}).Draw(rt, "out")
			}
			c.Outcomes = append(c.Outcomes, row)
		}
		if nl == 1 && len(c.Dests) == 1 && c.Dests[0].Kind != "multi" && rapid.Bool().Draw(rt, "single") {
			c.Single = true
		} else if rapid.IntRange(0, 4).Draw(rt, "direct") == 0 {
			c.Direct = true
		}
		if c.Direct && hasKind(c.Dests, "syslog-cee") {
			// outside the property (which is about events): through plain Write the CEE adapter returns
			// len(prefix)+len(p), more than it was given, which the fan-out takes for a short write
			c.Direct = false
			rec.Excluded("plain Write through SyslogCEEWriter (returns more than len(p))")
		}
		c.HandlerLogs = !c.Direct && rapid.IntRange(0, 3).Draw(rt, "handlerlogs") == 0
		c.NilHandler = !c.Direct && !c.HandlerLogs && rapid.IntRange(0, 5).Draw(rt, "nilhandler") == 0
		if ne >= 2 && rapid.IntRange(0, 3).Draw(rt, "relevel") == 0 {
			c.RelevelAt = rapid.IntRange(1, ne-1).Draw(rt, "relevelat")
			c.RelevelTo = rapid.SampledFrom([]int{-1, 0, 2, 3, 7}).Draw(rt, "relevelto")
		}
		if ne >= 2 && rapid.IntRange(0, 3).Draw(rt, "close") == 0 {
			c.CloseAt = rapid.IntRange(1, ne-1).Draw(rt, "closeat")
		}
		// nested multi writers report short writes of inner destinations as ErrShortWrite too; the
		// "first failing destination" is in depth-first order, which the flat model reproduces
		msg, nt := run(c)
		b, _ := json.Marshal(c)
		rec.Case(b, nt, fmt.Sprintf("dests:%d", nl))
		rec.Sample(json.RawMessage(b))
		if msg != "" {
			fail(rt, "rapid", c, msg)
		}
	})
}

func TestReplay(t *testing.T) {
	f := os.Getenv("VERIF_REPLAY")
	if f == "" {
		t.Skip("no VERIF_REPLAY")
	}
	b, err := os.ReadFile(f)
	if err != nil {
		t.Fatal(err)
	}
	var c Case
	if err := json.Unmarshal(b, &c); err != nil {
		t.Fatal(err)
	}
	rec.Case(b, true, "replay")
	rec.Case(append(b, 1), true, "replay")
	rec.Sample(json.RawMessage(b))
	if msg, _ := run(&c); msg != "" {
		fail(t, "replay", &c, msg)
	}
}
