// C05 — derived loggers are independent values.
package c05

import (
	"encoding/json"
	"fmt"
	"os"
	"testing"

	"github.com/rs/zerolog"
	"pgregory.net/rapid"
	"verif/harness/ev"
	"verif/harness/lp"
)

const rule = "cases = derivation trees (With/Level/Sample/Hook/Output/With+UpdateContext, Ctx) with interleaved derivations, events through any existing node, and several events kept open before being finalised in any order; oracle = logger-tree model per destination (context fields, hook fields, level gate, sampler, stack flag, Go context seen by hooks, Func and object marshalers; background context inside fresh sub-events); non-trivial = a node with >=2 children that both appended to context or hooks, or a GetCtx read after a ctx-carrying event was finalised; distinct = FNV-64 of the serialised program"

var rec = ev.New("C05", rule)

func TestMain(m *testing.M) {
	code := m.Run()
	rec.Flush()
	os.Exit(code)
}

func fail(t interface{ Fatalf(string, ...interface{}) }, name string, p *lp.Program, msg string) {
	ev.SaveReplay("C05-"+name, p)
	fmt.Printf("VERIF-FAIL: %s\n", msg)
	t.Fatalf("%s", msg)
}

func hasGetCtx(ops []lp.Op) bool {
	for _, o := range ops {
		if o.V.T == "getctx" || hasGetCtx(o.V.Ops) {
			return true
		}
		for _, e := range o.V.L {
			if hasGetCtx(e.Ops) {
				return true
			}
		}
		if o.V.If != nil && hasGetCtx(o.V.If.Ops) {
			return true
		}
	}
	return false
}

func hasCtx(ops []lp.Op) bool {
	for _, o := range ops {
		if o.V.T == "ctx" {
			return true
		}
	}
	return false
}

func nontrivial(p *lp.Program) (bool, []string) {
	var labels []string
	kids := map[int]int{}
	for i, s := range p.Steps {
		if (s.Kind == "with" || s.Kind == "hook" || s.Kind == "update") && (len(s.Ops) > 0 || len(s.Hooks) > 0) {
			kids[p.ParentOf(i)]++
		}
		labels = append(labels, "step:"+s.Kind)
	}
	branching := false
	for _, n := range kids {
		if n >= 2 {
			branching = true
		}
	}
	ctxSeen, getAfter := false, false
	for _, a := range p.Acts() {
		switch a.K {
		case "step":
			if hasCtx(p.Steps[a.I].Ops) {
				ctxSeen = true
			}
		case "event", "open":
			e := p.Events[a.I]
			if ctxSeen && hasGetCtx(e.Ops) {
				getAfter = true
			}
			if hasCtx(e.Ops) {
				ctxSeen = true
			}
		}
		if a.K == "open" {
			labels = append(labels, "open-event")
		}
	}
	if branching {
		labels = append(labels, "branching-with-appends")
	}
	if getAfter {
		labels = append(labels, "getctx-after-ctx-event")
	}
	return branching || getAfter, labels
}

func norm(p *lp.Program) {
	p.Set.ErrMarshal = ""
	if p.Set.StackMarshal != "" && p.Set.StackMarshal != "string" {
		p.Set.StackMarshal = "string" // the stack flag of a logger is part of what derivations copy: keep it observable
	}
	p.Set.FloatPrec = -1
}

func check(t interface{ Fatalf(string, ...interface{}) }, name string, p *lp.Program) {
	b, _ := json.Marshal(p)
	nt, labels := nontrivial(p)
	rec.Case(b, nt, labels...)
	rec.Sample(json.RawMessage(b))
	res := lp.Run(p)
	if is := lp.CheckResult(p, res, "fullctx"); len(is) > 0 {
		if is[0].Kind == "invalid" {
			// An unparseable line is C01's finding *unless* it comes from interference between
			// loggers: metamorphic reference = the same event through its own derivation path
			// alone (siblings and other events removed). A bad line that no isolated run
			// reproduces byte for byte is an independence violation.
			if bad := lp.Interference(p, res); bad != nil {
				fail(t, name, p, fmt.Sprintf("a derived logger emitted %q, which the same event through its own derivation path alone does not emit (interference between loggers)", bad))
			}
			rec.Excluded("unparseable-line reproduced in isolation (C01's domain)")
			return
		}
		fail(t, name, p, is[0].String())
	}
}

func cfg() lp.Cfg {
	c := lp.DefaultCfg()
	c.Binary = lp.BinaryBuild // the same property in the binary_log build: the generator then also draws what only CBOR can carry
	c.Tree = true
	c.UniqueKeys = true
	c.MaxOps = 4
	c.MaxDepth = 2
	return c
}

func TestRapidTrees(t *testing.T) {
	steps, events := 10, 8
	if ev.Thorough() {
		steps, events = 20, 14
	}
	rapid.Check(t, func(rt *rapid.T) {
		g := lp.NewG(rt, cfg())
		p := g.Program(steps, events)
		norm(p)
		check(rt, "tree", p)
	})
}

func replayFile(t *testing.T, f string) {
	b, err := os.ReadFile(f)
	if err != nil {
		t.Fatal(err)
	}
	var p lp.Program
	if err := json.Unmarshal(b, &p); err != nil {
		t.Fatal(err)
	}
	rec.Case(b, true, "replay")
	rec.Case(append(b, 1), true, "replay")
	rec.Sample(json.RawMessage(b))
	if is := lp.Check(&p, "fullctx"); len(is) > 0 {
		fail(t, "replay", &p, is[0].String())
	}
}

func TestReplay(t *testing.T) {
	f := os.Getenv("VERIF_REPLAY")
	if f == "" {
		t.Skip("no VERIF_REPLAY")
	}
	replayFile(t, f)
}

func TestRegress(t *testing.T) {
	dir := os.Getenv("VERIF_ROOT") + "/known/regress/C05"
	fs, _ := os.ReadDir(dir)
	for _, e := range fs {
		replayFile(t, dir+"/"+e.Name())
	}
}

// ---------------------------------------------------------------- KF-C05-1 probe
//
// Two loggers derived from ONE intermediate Context value:
//     c := l.With().<common>;  la := c.<opsA>.Logger();  lb := c.<opsB>.Logger()
// Context is a value around an append-only slice with spare capacity, so the second branch
// overwrites the first one's bytes. The main campaigns branch at Logger values only; this
// directed campaign has exactly that one unusual feature. A mismatch that disappears when
// the branch point is replaced by `.Logger().With()` matches the recorded signature of
// KF-C05-1; any other mismatch is a violation.

type BranchCase struct {
	Common []lp.Op `json:"common"`
	A      []lp.Op `json:"a"`
	B      []lp.Op `json:"b"`
}

func runBranch(c *BranchCase, viaLogger bool) (la, lb string) {
	restore := lp.DefaultSettings().Apply()
	defer restore()
	lp.ScrubPools()
	var wa, wb lp.RecWriter
	root := zerolog.New(&wa)
	ctx := lp.ApplyContext(root.With(), c.Common)
	var a, b zerolog.Logger
	if viaLogger {
		base := ctx.Logger()
		a = lp.ApplyContext(base.With(), c.A).Logger()
		b = lp.ApplyContext(base.With(), c.B).Logger().Output(&wb)
	} else {
		a = lp.ApplyContext(ctx, c.A).Logger()
		b = lp.ApplyContext(ctx, c.B).Logger().Output(&wb)
	}
	a.Log().Msg("a")
	b.Log().Msg("b")
	if len(wa.Writes) == 1 {
		la = string(wa.Writes[0].Data)
	}
	if len(wb.Writes) == 1 {
		lb = string(wb.Writes[0].Data)
	}
	return
}

func branchExpected(c *BranchCase) (string, string) { return runBranch(c, true) }

func TestContextBranchProbe(t *testing.T) {
	reproduced := false
	_ = reproduced
	rapid.Check(t, func(rt *rapid.T) {
		cfg := lp.DefaultCfg()
		cfg.NoSettings, cfg.NoCaller, cfg.NoLong, cfg.UniqueKeys, cfg.MaxOps, cfg.NoHooks = true, true, true, true, 3, true
		g := lp.NewG(rt, cfg)
		g.Settings()
		strip := func(ops []lp.Op) []lp.Op {
			var out []lp.Op
			for _, o := range ops {
				switch o.V.T {
				case "timestamp", "caller", "stack", "ctx", "reset":
				default:
					out = append(out, o)
				}
			}
			return out
		}
		c := &BranchCase{Common: strip(g.Ops("context", 1, "common")), A: strip(g.Ops("context", 1, "a")), B: strip(g.Ops("context", 1, "b"))}
		wantA, wantB := branchExpected(c)
		gotA, gotB := runBranch(c, false)
		b, _ := json.Marshal(c)
		rec.Case(b, len(c.A) > 0 && len(c.B) > 0, "context-branch-probe")
		if gotA == wantA && gotB == wantB {
			return
		}
		// signature of KF-C05-1: both loggers come from one Context value and the mismatch is gone
		// when the branch is taken at a Logger value (that is what wantA/wantB were computed with)
		if knownFindings["KF-C05-1"] {
			rec.Excluded("KF-C05-1")
			reproduced = true
			return
		}
		fail(rt, "context-branch", &lp.Program{}, fmt.Sprintf("two loggers derived from one Context value: first emits %q, want %q; second emits %q, want %q", gotA, wantA, gotB, wantB))
	})
}

var knownFindings = func() map[string]bool {
	out := map[string]bool{}
	b, err := os.ReadFile(os.Getenv("VERIF_ROOT") + "/known_findings.json")
	if err != nil {
		return out
	}
	var f struct {
		Findings []struct {
			ID, Property, Status string
		} `json:"findings"`
	}
	json.Unmarshal(b, &f)
	for _, k := range f.Findings {
		if k.Status == "known" && k.Property == "C05" {
			out[k.ID] = true
		}
	}
	return out
}()

// TestKnown re-runs the committed replay of KF-C05-1 and announces it while it reproduces.
func TestKnown(t *testing.T) {
	if !knownFindings["KF-C05-1"] {
		return
	}
	b, err := os.ReadFile(os.Getenv("VERIF_ROOT") + "/known/KF-C05-1.json")
	if err != nil {
		return
	}
	var c BranchCase
	if json.Unmarshal(b, &c) != nil {
		return
	}
	wantA, wantB := branchExpected(&c)
	gotA, gotB := runBranch(&c, false)
	rec.Case(b, true, "known-replay")
	if gotA != wantA || gotB != wantB {
		fmt.Println("KNOWN-REPRODUCED KF-C05-1")
	}
}

// TestConcurrentTrees: the loggers of a generated derivation tree are used from several goroutines
// at the same time (every goroutine logs through its own share of the events, repeatedly): each
// destination receives exactly the lines it receives when the same events are emitted one after the
// other. Loggers that share a context array (a parent and its Level/Sample/Hook children) are the
// point; samplers are made stateless so that the outcome does not depend on the order.
func TestConcurrentTrees(t *testing.T) {
	rapid.Check(t, func(rt *rapid.T) {
		g := lp.NewG(rt, cfg())
		p := g.Program(8, 6)
		norm(p)
		for i := range p.Steps {
			if p.Steps[i].Kind == "sample" && p.Steps[i].Sampler != "nil" {
				p.Steps[i].Sampler = "all"
			}
			for k := range p.Steps[i].Hooks {
				if w := p.Steps[i].Hooks[k].Wrap; w == "nilptr" || w == "nilfield" {
					p.Steps[i].Hooks[k].Wrap = "" // those two keep their bookkeeping in package variables
				}
			}
		}
		p.Order = nil
		ng := rapid.IntRange(2, 6).Draw(rt, "G")
		reps := rapid.IntRange(5, 40).Draw(rt, "reps")
		seq := lp.RunConcurrent(p, 1, reps)
		if seq.Panic != nil {
			return // C01/C02's domain
		}
		conc := lp.RunConcurrent(p, ng, reps)
		b, _ := json.Marshal(p)
		rec.Case(b, len(p.Events) >= 2 && len(p.Steps) >= 2, "concurrent-tree", fmt.Sprintf("goroutines:%d", ng))
		bad := ""
		if conc.Panic != nil {
			bad = fmt.Sprintf("a logging call panicked when the tree's loggers were used from %d goroutines: %v", ng, conc.Panic)
		}
		for d := 0; d < len(seq.Dests) && bad == ""; d++ {
			want := map[string]int{}
			for _, w := range seq.Dests[d] {
				want[fmt.Sprintf("%d|%s", w.Level, w.Data)]++
			}
			if d >= len(conc.Dests) {
				bad = fmt.Sprintf("destination %d missing in the concurrent run", d)
				break
			}
			for _, w := range conc.Dests[d] {
				k := fmt.Sprintf("%d|%s", w.Level, w.Data)
				if want[k] == 0 {
					bad = fmt.Sprintf("destination %d received %.300q from %d goroutines logging through the tree at once; emitted one after the other, no event produces that line (or not that often)", d, w.Data, ng)
					break
				}
				want[k]--
			}
			for k, n := range want {
				if n != 0 && bad == "" {
					bad = fmt.Sprintf("destination %d: line %.300q arrives %d time(s) less than when the events are emitted one after the other", d, k, n)
				}
			}
		}
		if bad != "" {
			fail(rt, "concurrent", p, bad)
		}
	})
}
