// C05 — derived loggers are independent values.
package c05

import (
	"encoding/json"
	"fmt"
	"os"
	"testing"

	"pgregory.net/rapid"
	"verif/harness/ev"
	"verif/harness/lp"
)

const rule = "cases = derivation trees (With/Level/Sample/Hook/Output/With+UpdateContext, Ctx) with interleaved derivations, events through any existing node, and several events kept open before being finalised in any order; oracle = logger-tree model per destination (context fields, hook fields, level gate, sampler, stack flag, Go context seen by hooks, Func and object marshalers; background context inside fresh sub-events); non-trivial = a node with >=2 children that both appended to context or hooks, or a GetCtx read after a ctx-carrying event was finalised; distinct = FNV-64 of the serialised program"

var rec = ev.New("C05", rule)

func TestMain(m *testing.M) {
	code := m.Run()
	rec.Flush()
	os.Exit(code)
}

func fail(t interface{ Fatalf(string, ...interface{}) }, name string, p *lp.Program, msg string) {
	ev.SaveReplay("C05-"+name, p)
	fmt.Printf("VERIF-FAIL: %s\n", msg)
	t.Fatalf("%s", msg)
}

func hasGetCtx(ops []lp.Op) bool {
	for _, o := range ops {
		if o.V.T == "getctx" || hasGetCtx(o.V.Ops) {
			return true
		}
		for _, e := range o.V.L {
			if hasGetCtx(e.Ops) {
				return true
			}
		}
		if o.V.If != nil && hasGetCtx(o.V.If.Ops) {
			return true
		}
	}
	return false
}

func hasCtx(ops []lp.Op) bool {
	for _, o := range ops {
		if o.V.T == "ctx" {
			return true
		}
	}
	return false
}

func nontrivial(p *lp.Program) (bool, []string) {
	var labels []string
	kids := map[int]int{}
	for i, s := range p.Steps {
		if (s.Kind == "with" || s.Kind == "hook" || s.Kind == "update") && (len(s.Ops) > 0 || len(s.Hooks) > 0) {
			kids[p.ParentOf(i)]++
		}
		labels = append(labels, "step:"+s.Kind)
	}
	branching := false
	for _, n := range kids {
		if n >= 2 {
			branching = true
		}
	}
	ctxSeen, getAfter := false, false
	for _, a := range p.Acts() {
		switch a.K {
		case "step":
			if hasCtx(p.Steps[a.I].Ops) {
				ctxSeen = true
			}
		case "event", "open":
			e := p.Events[a.I]
			if ctxSeen && hasGetCtx(e.Ops) {
				getAfter = true
			}
			if hasCtx(e.Ops) {
				ctxSeen = true
			}
		}
		if a.K == "open" {
			labels = append(labels, "open-event")
		}
	}
	if branching {
		labels = append(labels, "branching-with-appends")
	}
	if getAfter {
		labels = append(labels, "getctx-after-ctx-event")
	}
	return branching || getAfter, labels
}

func norm(p *lp.Program) {
	p.Set.ErrMarshal = ""
	if p.Set.StackMarshal != "" && p.Set.StackMarshal != "string" {
		p.Set.StackMarshal = ""
	}
	p.Set.FloatPrec = -1
}

func check(t interface{ Fatalf(string, ...interface{}) }, name string, p *lp.Program) {
	b, _ := json.Marshal(p)
	nt, labels := nontrivial(p)
	rec.Case(b, nt, labels...)
	rec.Sample(json.RawMessage(b))
	if is := lp.Check(p, "fullctx"); len(is) > 0 {
		if is[0].Kind == "invalid" {
			rec.Excluded("unparseable-line (C01's domain)")
			return
		}
		fail(t, name, p, is[0].String())
	}
}

func cfg() lp.Cfg {
	c := lp.DefaultCfg()
	c.Tree = true
	c.UniqueKeys = true
	c.MaxOps = 4
	c.MaxDepth = 2
	return c
}

func TestRapidTrees(t *testing.T) {
	steps, events := 10, 8
	if ev.Thorough() {
		steps, events = 20, 14
	}
	rapid.Check(t, func(rt *rapid.T) {
		g := lp.NewG(rt, cfg())
		p := g.Program(steps, events)
		norm(p)
		check(rt, "tree", p)
	})
}

func replayFile(t *testing.T, f string) {
	b, err := os.ReadFile(f)
	if err != nil {
		t.Fatal(err)
	}
	var p lp.Program
	if err := json.Unmarshal(b, &p); err != nil {
		t.Fatal(err)
	}
	rec.Case(b, true, "replay")
	rec.Case(append(b, 1), true, "replay")
	rec.Sample(json.RawMessage(b))
	if is := lp.Check(&p, "fullctx"); len(is) > 0 {
		fail(t, "replay", &p, is[0].String())
	}
}

func TestReplay(t *testing.T) {
	f := os.Getenv("VERIF_REPLAY")
	if f == "" {
		t.Skip("no VERIF_REPLAY")
	}
	replayFile(t, f)
}

func TestRegress(t *testing.T) {
	dir := os.Getenv("VERIF_ROOT") + "/known/regress/C05"
	fs, _ := os.ReadDir(dir)
	for _, e := range fs {
		replayFile(t, dir+"/"+e.Name())
	}
}
