//go:build binary_log

// C09 — binary output is well-formed CBOR that carries the logged values.
package c09

import (
	"encoding/json"
	"fmt"
	"math"
	"os"
	"testing"
	"verif/harness/cborref"

	"pgregory.net/rapid"
	"verif/harness/ev"
	"verif/harness/lp"
)

const rule = "cases = logging programs of the C01/C02 generator executed under -tags binary_log, plus a boundary campaign (string/bytes lengths and slice counts on both sides of 23/24, 255/256, 65535/65536; integers around every width boundary); oracle = independent RFC 8949 parser (well-formedness, indefinite map, text keys, even item count, no trailing bytes) + expected-value model in zerolog's CBOR representation; non-trivial = item contains a multi-byte length/argument head, a tag or a nested container; distinct = FNV-64 of the serialised program"

var rec = ev.New("C09", rule)

func TestMain(m *testing.M) {
	code := m.Run()
	rec.Flush()
	os.Exit(code)
}

func fail(t interface{ Fatalf(string, ...interface{}) }, name string, p *lp.Program, msg string) {
	ev.SaveReplay("C09-"+name, p)
	fmt.Printf("VERIF-FAIL: %s\n", msg)
	t.Fatalf("%s", msg)
}

func nontrivial(p *lp.Program) bool {
	c := lp.Classify(p)
	if c.MaxDepth >= 2 {
		return true
	}
	for t := range c.Types {
		switch t {
		case "time", "times", "hex", "rawjson", "rawcbor", "ip", "ipnet", "mac", "iface", "any", "dict", "arr", "obj", "timestamp", "float32", "float64":
			return true
		}
	}
	return c.NonASCII
}

func check(t interface{ Fatalf(string, ...interface{}) }, name string, p *lp.Program) {
	b, _ := json.Marshal(p)
	rec.Case(b, nontrivial(p), lp.Classify(p).Labels()...)
	rec.Sample(json.RawMessage(b))
	mode := "full"
	if p.Set.ErrMarshal != "" || p.Set.StackMarshal != "" && p.Set.StackMarshal != "string" {
		// what a custom error/stack marshal function returns is the caller's; the event must still be
		// one well-formed item: an indefinite map of text keys and complete values
		mode = "valid"
	}
	if is := lp.CheckCBOR(p, mode); len(is) > 0 {
		fail(t, name, p, is[0].String())
	}
}

// norm: the error/stack marshal functions are part of the generator's settings (C01's quantifier) and
// stay in; programs that set them are judged for well-formedness only (see check).
func norm(p *lp.Program) {
	// the binary build carries a RawJSON payload verbatim inside a byte string, so trailing white
	// space or a final line feed (what json.Encoder produces) is legal here, unlike in the JSON build
	// where it would break the one-line rule: decorate every third RawJSON value that way
	k := 0
	var ops func([]lp.Op)
	ops = func(os []lp.Op) {
		for i := range os {
			if os[i].V.T == "rawjson" {
				k++
				if k%3 == 0 {
					os[i].V.S = append(append([]byte{}, os[i].V.S...), [][]byte{[]byte("\n"), []byte(" \n"), []byte("\r\n")}[k/3%3]...)
				}
			}
			ops(os[i].V.Ops)
		}
	}
	for i := range p.Events {
		ops(p.Events[i].Ops)
	}
	for i := range p.Steps {
		ops(p.Steps[i].Ops)
	}
}

func TestRapidPrograms(t *testing.T) {
	rapid.Check(t, func(rt *rapid.T) {
		cfg := lp.DefaultCfg()
		cfg.Binary = true
		g := lp.NewG(rt, cfg)
		p := g.Program(4, 3)
		norm(p)
		check(rt, "rapid", p)
	})
}

func TestRapidTrees(t *testing.T) {
	rapid.Check(t, func(rt *rapid.T) {
		cfg := lp.DefaultCfg()
		cfg.Binary = true
		cfg.Tree = true
		cfg.MaxOps = 4
		g := lp.NewG(rt, cfg)
		p := g.Program(8, 5)
		norm(p)
		check(rt, "tree", p)
	})
}

// TestBoundaries: lengths and counts on both sides of every head-size boundary, and
// integers around every width boundary, through Event, Context, Array, Dict and Fields.
func TestBoundaries(t *testing.T) {
	set := lp.DefaultSettings()
	lens := []int{0, 1, 22, 23, 24, 25, 254, 255, 256, 257, 65534, 65535, 65536, 65537}
	mk := func(n int, c byte) []byte {
		b := make([]byte, n)
		for i := range b {
			b[i] = c
		}
		return b
	}
	var n int
	for _, l := range lens {
		s := mk(l, 'x')
		k := mk(l, 'k')
		vals := []lp.Val{{T: "str", S: s}, {T: "bytes", S: s}, {T: "hex", S: s}, {T: "rawcbor", S: s}, {T: "anerr", EK: "plain", S: s}, {T: "stringer", S: s}, {T: "iface", If: &lp.Iface{K: "str", S: s}}}
		var ops []lp.Op
		for i, v := range vals {
			ops = append(ops, lp.KV(fmt.Sprintf("v%d", i), v))
		}
		ops = append(ops, lp.Op{K: k, V: lp.Val{T: "int", I: 1}})
		ops = append(ops, lp.KV("a", lp.Val{T: "arr", L: []lp.Val{{T: "str", S: s}, {T: "bytes", S: s}}}))
		ops = append(ops, lp.KV("d", lp.Val{T: "dict", Ops: []lp.Op{{K: k, V: lp.Val{T: "str", S: s}}}}))
		ops = append(ops, lp.Op{V: lp.Val{T: "fieldsslice", Ops: []lp.Op{{K: k, V: lp.Val{T: "str", S: s}}, {K: []byte("b"), V: lp.Val{T: "bytes", S: s}}}}})
		p := lp.P(set, []lp.Step{lp.With(lp.KV("c", lp.Val{T: "str", S: s}), lp.Op{K: k, V: lp.Val{T: "bool", B: true}})}, lp.EventSpec{Method: "info", Ops: ops, Fin: "msg", Msg: s})
		n++
		check(t, "boundary-len", p)
		if l <= 65537 {
			// element counts
			for _, st := range []string{"strs", "bools", "ints", "ints8", "ints16", "ints32", "ints64", "uints", "uints8", "uints16", "uints32", "uints64", "floats32", "floats64", "times", "durs", "errs", "stringers"} {
				if l > 300 && st != "ints" && st != "bools" && st != "strs" {
					continue
				}
				e := lp.Val{T: lp.ElemType[st], I: -7, U: 300, B: true, S: []byte("e"), Sec: 5, EK: "plain"}
				if st == "uints8" {
					e.U = 200
				}
				if st == "floats32" {
					e.U = uint64(math.Float32bits(1.5))
				}
				if st == "floats64" {
					e.U = math.Float64bits(1.5)
				}
				lst := make([]lp.Val, l)
				for i := range lst {
					lst[i] = e
				}
				p := lp.P(set, nil, lp.Ev(lp.KV("s", lp.Val{T: st, L: lst}), lp.Op{V: lp.Val{T: "fieldsslice", Ops: fieldsOf(st, lst)}}))
				n++
				check(t, "boundary-count", p)
			}
		}
	}
	ib := []int64{math.MinInt64, -1 << 32, -1<<32 - 1, -1 << 31, -65537, -65536, -257, -256, -25, -24, -1, 0, 23, 24, 255, 256, 65535, 65536, 1<<32 - 1, 1 << 32, math.MaxInt64}
	for _, b := range ib {
		for d := int64(-2); d <= 2; d++ {
			x := b + d
			if (d < 0 && x > b) || (d > 0 && x < b) {
				continue
			}
			ops := []lp.Op{lp.KV("i", lp.Val{T: "int", I: x}), lp.KV("i64", lp.Val{T: "int64", I: x}), lp.KV("i32", lp.Val{T: "int32", I: int64(int32(x))}), lp.KV("i16", lp.Val{T: "int16", I: int64(int16(x))}), lp.KV("i8", lp.Val{T: "int8", I: int64(int8(x))}),
				lp.KV("u", lp.Val{T: "uint", U: uint64(x)}), lp.KV("u64", lp.Val{T: "uint64", U: uint64(x)}), lp.KV("u32", lp.Val{T: "uint32", U: uint64(uint32(x))}), lp.KV("u16", lp.Val{T: "uint16", U: uint64(uint16(x))}), lp.KV("u8", lp.Val{T: "uint8", U: uint64(uint8(x))}),
				lp.KV("us", lp.Val{T: "uints", L: []lp.Val{{U: uint64(x)}}}), lp.KV("is", lp.Val{T: "ints64", L: []lp.Val{{I: x}}}),
				lp.KV("d", lp.Val{T: "dur", I: x}), lp.KV("t", lp.Val{T: "time", Sec: clampSec(x)}), lp.KV("a", lp.Val{T: "arr", L: []lp.Val{{T: "uint", U: uint64(x)}, {T: "int", I: x}}}),
				lp.Op{V: lp.Val{T: "fieldsmap", Ops: []lp.Op{lp.KV("fu", lp.Val{T: "uint", U: uint64(x)}), lp.KV("fi", lp.Val{T: "int64", I: x}), lp.KV("fp", lp.Val{T: "uint64", U: uint64(x), Ptr: true})}}}}
			s2 := set
			s2.DurInt, s2.DurUnit = true, 1
			p := lp.P(s2, []lp.Step{lp.With(lp.KV("cu", lp.Val{T: "uint", U: uint64(x)}), lp.KV("ci", lp.Val{T: "int", I: x}))}, lp.Ev(ops...))
			n++
			check(t, "boundary-int", p)
		}
	}
	// every special float, in both widths, through every entry point that carries a float
	f64s := []float64{0, math.Copysign(0, -1), 1, -1, 0.5, math.NaN(), math.Inf(1), math.Inf(-1), math.MaxFloat64, -math.MaxFloat64, math.SmallestNonzeroFloat64, math.MaxFloat32, -math.MaxFloat32, math.SmallestNonzeroFloat32, 65504, 65520, 5.960464477539063e-08, 1e-7, 1e21, 16777217, 3.4028235677973366e38, math.Float64frombits(0x7ff8000000000001), math.Float64frombits(0xfff8000000000000)}
	for _, f := range f64s {
		for _, prec := range []int{-1, 0, 3} {
			b64, b32 := math.Float64bits(f), uint64(math.Float32bits(float32(f)))
			ops := []lp.Op{lp.KV("f64", lp.Val{T: "float64", U: b64}), lp.KV("f32", lp.Val{T: "float32", U: b32}),
				lp.KV("fs64", lp.Val{T: "floats64", L: []lp.Val{{U: b64}, {U: math.Float64bits(1.5)}, {U: b64}}}), lp.KV("fs32", lp.Val{T: "floats32", L: []lp.Val{{U: b32}, {U: uint64(math.Float32bits(1.5))}, {U: b32}}}),
				lp.KV("a", lp.Val{T: "arr", L: []lp.Val{{T: "float64", U: b64}, {T: "float32", U: b32}}}),
				lp.KV("d", lp.Val{T: "dict", Ops: []lp.Op{lp.KV("f64", lp.Val{T: "float64", U: b64}), lp.KV("f32", lp.Val{T: "float32", U: b32})}}),
				lp.Op{V: lp.Val{T: "fieldsmap", Ops: []lp.Op{lp.KV("m64", lp.Val{T: "float64", U: b64}), lp.KV("m32", lp.Val{T: "float32", U: b32}), lp.KV("p64", lp.Val{T: "float64", U: b64, Ptr: true}), lp.KV("p32", lp.Val{T: "float32", U: b32, Ptr: true}),
					lp.KV("ms64", lp.Val{T: "floats64", L: []lp.Val{{U: b64}}}), lp.KV("ms32", lp.Val{T: "floats32", L: []lp.Val{{U: b32}}})}}}}
			s2 := set
			s2.FloatPrec = prec
			p := lp.P(s2, []lp.Step{lp.With(lp.KV("c64", lp.Val{T: "float64", U: b64}), lp.KV("c32", lp.Val{T: "float32", U: b32}))}, lp.Ev(ops...))
			n++
			check(t, "boundary-float", p)
		}
	}
	rec.Exhaustive(fmt.Sprintf("boundary grid: %d programs over 14 lengths x 7 text-carrying types x {event,context,array,dict,fields,key,message}, 18 slice types x counts, 21 integer boundaries +-2 x 10 widths x entry points, 23 special floats x {float64,float32} x {event,context,slice,array,dict,fields,pointer} x 3 precisions", n))
}

func clampSec(x int64) int64 {
	if x < -62135596800 {
		return -62135596800
	}
	if x > 253402300799 {
		return 253402300799
	}
	return x
}

func fieldsOf(st string, l []lp.Val) []lp.Op {
	if st == "uints8" || st == "stringers" {
		return nil
	}
	return []lp.Op{lp.KV("f", lp.Val{T: st, L: l})}
}

func replayFile(t *testing.T, f string) {
	b, err := os.ReadFile(f)
	if err != nil {
		t.Fatal(err)
	}
	var p lp.Program
	if err := json.Unmarshal(b, &p); err != nil {
		t.Fatal(err)
	}
	rec.Case(b, true, "replay")
	rec.Case(append(b, 1), true, "replay")
	rec.Sample(json.RawMessage(b))
	if is := lp.CheckCBOR(&p, "full"); len(is) > 0 {
		fail(t, "replay", &p, is[0].String())
	}
}

func TestReplay(t *testing.T) {
	f := os.Getenv("VERIF_REPLAY")
	if f == "" {
		t.Skip("no VERIF_REPLAY")
	}
	replayFile(t, f)
}

func TestRegress(t *testing.T) {
	dir := os.Getenv("VERIF_ROOT") + "/known/regress/C09"
	fs, _ := os.ReadDir(dir)
	for _, e := range fs {
		replayFile(t, dir+"/"+e.Name())
	}
}

// TestConcurrentPrograms: the events of a generated program are emitted from several goroutines at the
// same time (zerolog's pools are all they share): every write is still exactly one well-formed item,
// and the same items arrive as when the events are emitted one after the other.
func TestConcurrentPrograms(t *testing.T) {
	rapid.Check(t, func(rt *rapid.T) {
		cfg := lp.DefaultCfg()
		cfg.Binary = true
		cfg.Tree = true
		cfg.MaxOps = 5
		g := lp.NewG(rt, cfg)
		p := g.Program(4, 8)
		norm(p)
		for i := range p.Steps {
			if p.Steps[i].Kind == "sample" && p.Steps[i].Sampler != "nil" {
				p.Steps[i].Sampler = "all"
			}
			for k := range p.Steps[i].Hooks {
				if w := p.Steps[i].Hooks[k].Wrap; w == "nilptr" || w == "nilfield" {
					p.Steps[i].Hooks[k].Wrap = ""
				}
			}
		}
		if p.Set.StackMarshal == "pkgerrors" {
			p.Set.StackMarshal = "frames" // real stack traces differ between the goroutine that emits alone and those that emit together
		}
		p.Order = nil
		ng := rapid.IntRange(3, 8).Draw(rt, "G")
		reps := rapid.IntRange(10, 60).Draw(rt, "reps")
		seq := lp.RunConcurrent(p, 1, reps)
		if seq.Panic != nil {
			return
		}
		conc := lp.RunConcurrent(p, ng, reps)
		b, _ := json.Marshal(p)
		rec.Case(b, len(p.Events) >= 3, "concurrent-program", fmt.Sprintf("goroutines:%d", ng))
		bad := ""
		if conc.Panic != nil {
			bad = fmt.Sprintf("a logging call panicked with %d goroutines building events at once: %v", ng, conc.Panic)
		}
		for d := 0; d < len(seq.Dests) && d < len(conc.Dests) && bad == ""; d++ {
			want := map[string]int{}
			for _, w := range seq.Dests[d] {
				want[string(w.Data)]++
			}
			for _, w := range conc.Dests[d] {
				if _, err := cborref.ParseExactly(w.Data); err != nil {
					bad = fmt.Sprintf("with %d goroutines building events at once a write is not one well-formed item: %v: %x", ng, err, w.Data)
					break
				}
				if want[string(w.Data)] == 0 {
					bad = fmt.Sprintf("with %d goroutines building events at once destination %d received %x, which no event produces when they are emitted one after the other (or not that often)", ng, d, w.Data)
					break
				}
				want[string(w.Data)]--
			}
		}
		if bad != "" {
			fail(rt, "concurrent", p, bad)
		}
	})
}
