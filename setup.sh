#!/bin/sh
# Offline setup: warm the go build cache for the harness (json, binary_log, race) and validate MANIFEST.
set -e
cd "$(dirname "$0")"
export GOFLAGS=-mod=mod GOPROXY=off GOSUMDB=off GOTOOLCHAIN=local
cp /repo/go.sum harness/go.sum 2>/dev/null || true
(cd harness && go build ./... && go vet ./ev ./jsonref >/dev/null 2>&1 || true)
(cd harness && go test -vet=off -count=1 -run '^$' ./... >/dev/null 2>&1 || true)
(cd harness && go test -vet=off -count=1 -tags "binary_log verif" -run '^$' ./... >/dev/null 2>&1 || true)
(cd harness && go test -vet=off -race -count=1 -run '^$' ./ev >/dev/null 2>&1 || true)
python3 -c "import json;json.load(open('MANIFEST.json'));print('setup ok')"
