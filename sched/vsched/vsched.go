// Package vsched is a cooperative scheduler for schedule exploration. Logical threads are
// goroutines that run one at a time; every synchronisation operation of the code under
// test (rewritten by tools/instrument onto vsync / vatomic / vsched) is a yield point at
// which the scheduler picks the next thread from the *schedule*, which is the generated
// input (a byte string, a PCT priority assignment, or a DFS decision stack).
package vsched

import (
	"fmt"
	"reflect"
	"runtime"
	"time"
)

type Thread struct {
	ID       int
	Name     string
	resume   chan struct{}
	pred     func() bool // non-nil: blocked until pred() is true
	done     bool
	LowPrio  bool
	sleeping bool
	killed   bool
	started  bool
	Idle     int // consecutive Sleep calls since the last Progress()
	prio     int // PCT
}

type Event struct {
	T  int    // thread id
	Op string // operation
	A  uint64 // argument / address tag
	R  uint64 // result
	OK bool
}

// Chooser picks an index into cands. cur is the index of the thread that ran last (-1 if
// it is not a candidate).
type Chooser interface {
	Choose(step int, cands []*Thread, cur int) int
}

type Sched struct {
	Threads   []*Thread
	cur       *Thread
	back      chan struct{}
	chooser   Chooser
	Steps     int
	MaxSteps  int
	Deadlock  bool
	StepLimit bool
	Trace     []Event
	KeepTrace bool
	Preempt   int
	MaxSleep  time.Duration // longest duration any thread asked Sleep / After for
	Panics    []string      // panics raised by logical threads (recovered so that the run can be judged)
	dead      bool
}

// S is the scheduler of the run in progress (nil outside a run: shims pass through).
var S *Sched

func (s *Sched) record(e Event) {
	if s.KeepTrace {
		s.Trace = append(s.Trace, e)
	}
}

// Record appends an event to the history (harness markers, shim results).
func Record(op string, a, r uint64, ok bool) {
	if S != nil && S.cur != nil {
		S.record(Event{S.cur.ID, op, a, r, ok})
	}
}

func (s *Sched) spawn(name string, f func()) *Thread {
	t := &Thread{ID: len(s.Threads), Name: name, resume: make(chan struct{})}
	s.Threads = append(s.Threads, t)
	go func() {
		<-t.resume
		if t.killed {
			s.back <- struct{}{}
			return
		}
		defer func() {
			// normal end, a panic in the code under test, or unwinding through Goexit after a kill
			if r := recover(); r != nil {
				s.Panics = append(s.Panics, fmt.Sprintf("thread %s: %v", t.Name, r))
			}
			t.done = true
			s.back <- struct{}{}
		}()
		f()
	}()
	return t
}

// Go starts a logical thread (replacement for the go statement).
func Go(f func()) {
	if S == nil || S.dead {
		go f()
		return
	}
	t := S.spawn(fmt.Sprintf("t%d", len(S.Threads)), f)
	Record("go", uint64(t.ID), 0, true)
}

// GoNamed is Go with a name (harness use).
func GoNamed(name string, f func()) *Thread {
	t := S.spawn(name, f)
	Record("go", uint64(t.ID), 0, true)
	return t
}

// yield hands control to the scheduler and waits to be resumed.
func (s *Sched) yield(t *Thread) {
	s.back <- struct{}{}
	<-t.resume
	if t.killed {
		runtime.Goexit()
	}
}

// Yield is a scheduling point before a non-blocking operation.
func Yield(op string) {
	s := S
	if s == nil || s.dead || s.cur == nil {
		return
	}
	s.yield(s.cur)
}

// Block parks the current thread until pred holds.
func Block(op string, pred func() bool) {
	s := S
	if s == nil || s.dead || s.cur == nil {
		// outside a run: spin politely (only reachable during teardown)
		for !pred() {
			time.Sleep(time.Microsecond)
		}
		return
	}
	t := s.cur
	t.pred = pred
	s.yield(t)
}

// Sleep models time.Sleep in a polling loop: the thread becomes runnable again as soon as
// another thread has taken a step, or when nothing else is runnable ("time passes").
func Sleep(d time.Duration) {
	s := S
	if s == nil || s.dead || s.cur == nil {
		return
	}
	t := s.cur
	if d > s.MaxSleep {
		s.MaxSleep = d // the scheduler owns the clock; what the code asked for is all that is left of real time
	}
	t.sleeping = true
	t.Idle++
	s.yield(t)
}

// Progress resets the idle-poll counters (called by the harness on every delivery/alert).
func Progress() {
	if S == nil {
		return
	}
	for _, t := range S.Threads {
		t.Idle = 0
	}
}

// RecvDone replaces a blocking receive from a done-style channel.
func RecvDone(ch <-chan struct{}) {
	if S == nil || S.dead || S.cur == nil {
		<-ch
		return
	}
	closed := func() bool {
		select {
		case <-ch:
			return true
		default:
			return false
		}
	}
	Yield("recv")
	if !closed() {
		Block("recv", closed)
	}
}

// SendReady precedes a blocking send on a buffered channel: the thread is blocked, visibly to the
// scheduler, until room() holds. A send on an unbuffered channel (capacity 0) is not modelled: it is
// left to the runtime (a send nobody receives then shows as the run's timeout, which is inconclusive).
func SendReady(room func() bool, capacity int) {
	if S == nil || S.dead || S.cur == nil || capacity == 0 {
		return
	}
	Yield("send")
	if !room() {
		Block("send", room)
	}
}

// Cur returns the running logical thread.
func Cur() *Thread {
	if S == nil {
		return nil
	}
	return S.cur
}

// Quiescent reports whether every thread other than the caller is finished, blocked, or a
// poller that completed at least two consecutive idle poll rounds.
func Quiescent() bool {
	s := S
	for _, t := range s.Threads {
		if t == s.cur || t.done {
			continue
		}
		if t.pred != nil {
			if t.pred() {
				return false
			}
			continue
		}
		if t.sleeping && t.Idle >= 2 {
			continue
		}
		return false
	}
	return true
}

// WaitQuiescent blocks the caller until Quiescent() holds.
func WaitQuiescent() {
	me := S.cur
	Block("quiesce", func() bool {
		for _, t := range S.Threads {
			if t == me || t.done {
				continue
			}
			if t.pred != nil {
				if t.pred() {
					return false
				}
				continue
			}
			if t.sleeping && t.Idle >= 2 {
				continue
			}
			return false
		}
		return true
	})
}

// Run executes main under the scheduler with the given chooser. It returns when every
// thread finished, on deadlock, or when the step bound is hit; remaining threads are
// unwound.
func Run(ch Chooser, maxSteps int, keepTrace bool, main func()) *Sched {
	s := &Sched{back: make(chan struct{}), chooser: ch, MaxSteps: maxSteps, KeepTrace: keepTrace}
	S = s
	s.spawn("main", main)
	var cands []*Thread
	for {
		// enabled threads by class: normal > low priority > sleeping
		var normal, low, sleepers []*Thread
		alive := 0
		for _, t := range s.Threads {
			if t.done {
				continue
			}
			alive++
			if t.pred != nil && !t.pred() {
				continue
			}
			switch {
			case t.sleeping:
				sleepers = append(sleepers, t)
			case t.LowPrio:
				low = append(low, t)
			default:
				normal = append(normal, t)
			}
		}
		if alive == 0 {
			break
		}
		switch {
		case len(normal) > 0:
			cands = normal
		case len(low) > 0:
			cands = low
		case len(sleepers) > 0:
			cands = sleepers
		default:
			s.Deadlock = true
		}
		if s.Deadlock {
			break
		}
		if s.Steps >= s.MaxSteps {
			s.StepLimit = true
			break
		}
		curIdx := -1
		for i, t := range cands {
			if t == s.cur {
				curIdx = i
			}
		}
		k := 0
		if len(cands) > 1 {
			k = s.chooser.Choose(s.Steps, cands, curIdx)
			if k < 0 || k >= len(cands) {
				k = 0
			}
		}
		t := cands[k]
		if curIdx >= 0 && k != curIdx {
			s.Preempt++
		}
		// any step by another thread wakes the sleepers
		for _, o := range s.Threads {
			if o != t {
				o.sleeping = false
			}
		}
		t.sleeping = false
		t.pred = nil
		s.cur = t
		s.Steps++
		t.resume <- struct{}{}
		<-s.back
	}
	s.teardown()
	return s
}

// teardown unwinds every thread that is still parked.
func (s *Sched) teardown() {
	s.dead = true
	for _, t := range s.Threads {
		if !t.done {
			t.killed = true
			s.cur = t
			t.resume <- struct{}{}
			<-s.back
		}
	}
	s.cur = nil
	S = nil
}

// ---------------------------------------------------------------- choosers

// Bytes: the schedule is a byte string; after it is exhausted a fair non-preemptive
// round-robin tail runs the program to completion.
type Bytes struct {
	B []byte
}

func (b *Bytes) Choose(step int, cands []*Thread, cur int) int {
	if step < len(b.B) {
		return int(b.B[step]) % len(cands)
	}
	if cur >= 0 {
		return cur
	}
	return step % len(cands)
}

// PCT: random thread priorities with d priority change points.
type PCT struct {
	state  uint64
	change map[int]bool
	low    int
}

func NewPCT(seed uint64, d, horizon int) *PCT {
	p := &PCT{state: seed*2685821657736338717 + 1442695040888963407, change: map[int]bool{}}
	for i := 0; i < d; i++ {
		p.change[int(p.next()%uint64(horizon))] = true
	}
	return p
}

func (p *PCT) next() uint64 {
	p.state ^= p.state << 13
	p.state ^= p.state >> 7
	p.state ^= p.state << 17
	return p.state
}

func (p *PCT) Choose(step int, cands []*Thread, cur int) int {
	for _, t := range cands {
		if t.prio == 0 {
			t.prio = int(p.next()%1000000) + 1000
		}
	}
	best := 0
	for i, t := range cands {
		if t.prio > cands[best].prio {
			best = i
		}
	}
	if p.change[step] {
		// priority change point: the running thread drops below every other thread
		p.low++
		cands[best].prio = -p.low
		best = 0
		for i, t := range cands {
			if t.prio > cands[best].prio {
				best = i
			}
		}
	}
	return best
}

// DFS explores all schedules with at most Bound preemptions by stateless re-execution.
type DFS struct {
	Bound int
	stack []dfsNode
	depth int
	used  int
}

type dfsNode struct {
	n      int // number of admissible options at this point
	chosen int
}

func (d *DFS) Begin() { d.depth, d.used = 0, 0 }

// Choose orders the options so that index 0 is "continue the current thread" when that is
// possible; switching away from an enabled current thread costs one preemption.
func (d *DFS) Choose(step int, cands []*Thread, cur int) int {
	n := len(cands)
	if cur >= 0 && d.used >= d.Bound {
		n = 1 // no budget: must continue the current thread
	}
	var c int
	if d.depth < len(d.stack) {
		c = d.stack[d.depth].chosen
	} else {
		d.stack = append(d.stack, dfsNode{n: n, chosen: 0})
	}
	d.stack[d.depth].n = n
	d.depth++
	// map option index -> candidate index: option 0 = cur (if any), then the others in order
	if cur < 0 {
		return c
	}
	if c == 0 {
		return cur
	}
	d.used++
	if c <= cur {
		return c - 1
	}
	return c
}

// Next advances to the next schedule; false when the space is exhausted.
func (d *DFS) Next() bool {
	d.stack = d.stack[:d.depth]
	for len(d.stack) > 0 {
		top := &d.stack[len(d.stack)-1]
		if top.chosen+1 < top.n {
			top.chosen++
			return true
		}
		d.stack = d.stack[:len(d.stack)-1]
	}
	return false
}

// Choices returns the option index taken at every decision point of the last run.
func (d *DFS) Choices() []int {
	out := make([]int, d.depth)
	for i := range out {
		out[i] = d.stack[i].chosen
	}
	return out
}

// Active reports whether a run is in progress and not being torn down.
func Active() bool { return S != nil && !S.dead }

// ---------------------------------------------------------------- select / timers

var timers = map[interface{}]bool{}

// After replaces time.After: the returned channel counts as ready once the thread has
// slept (another thread stepped, or nothing else could run).
func After(d time.Duration) <-chan time.Time {
	if !Active() {
		return time.After(d)
	}
	ch := make(chan time.Time, 1)
	var ro <-chan time.Time = ch
	timers[ro] = true
	return ro
}

// Select replaces a blocking select whose cases are all receives; it returns the index of
// the case that fired. Channels that are ready win over timers.
func Select(chs ...interface{}) int {
	if !Active() || S.cur == nil {
		cases := make([]reflect.SelectCase, len(chs))
		for i, c := range chs {
			cases[i] = reflect.SelectCase{Dir: reflect.SelectRecv, Chan: reflect.ValueOf(c)}
		}
		i, _, _ := reflect.Select(cases)
		return i
	}
	timer := -1
	for i, c := range chs {
		if timers[c] {
			timer = i
		}
	}
	ready := func() int {
		for i, c := range chs {
			if i == timer {
				continue
			}
			cases := []reflect.SelectCase{{Dir: reflect.SelectRecv, Chan: reflect.ValueOf(c)}, {Dir: reflect.SelectDefault}}
			if k, _, _ := reflect.Select(cases); k == 0 {
				return i
			}
		}
		return -1
	}
	Yield("select")
	if i := ready(); i >= 0 {
		return i
	}
	if timer >= 0 {
		Sleep(0)
		delete(timers, chs[timer])
		if i := ready(); i >= 0 {
			return i
		}
		return timer
	}
	Block("select", func() bool { return ready() >= 0 })
	return ready()
}
