// Package logcheck drives the instrumented root package (event/array pools as LIFO
// vsync.Pool, SyncWriter and TriggerLevelWriter mutexes, sampler and global-level atomics)
// under the cooperative scheduler: the deterministic tier of C06, and schedule search for
// the concurrent parts of C13 and C15.
package logcheck

import (
	"encoding/json"
	"fmt"
	"io"
	"os"
	"sort"
	"strings"
	"syscall"
	"testing"
	"time"

	"github.com/rs/zerolog"
	"github.com/rs/zerolog/vsched"
	"github.com/rs/zerolog/vsched/ev"
	"pgregory.net/rapid"
)

var prop = os.Getenv("VERIF_PROP")

var rec = ev.New(prop, "deterministic scheduler tier: logical threads log through a shared logger (C06), share a BasicSampler (C13) or a TriggerLevelWriter (C15); every pool, mutex and atomic operation of the instrumented root package is a scheduling point and the writer yields inside Write; schedules from bounded-preemption DFS, PCT and rapid byte strings. non-trivial = schedule with >=1 preemption; distinct = FNV-64 of (config, schedule)")

func TestMain(m *testing.M) {
	code := m.Run()
	rec.Flush()
	os.Exit(code)
}

type Case struct {
	What     string `json:"what"` // log | sampler | trigger
	T        int    `json:"threads"`
	K        int    `json:"per_thread"`
	Sync     bool   `json:"sync_writer,omitempty"`
	Explicit bool   `json:"explicit_trigger,omitempty"` // trigger workload: thread 0 ends with Trigger() instead of an error-level line
	ErrAt    int    `json:"writer_eagain_at,omitempty"` // the destination's n-th Write reports a transient errno (EAGAIN) with a partial count: still exactly one call per event
	PanicAt  int    `json:"writer_panics_at,omitempty"` // the destination's n-th Write panics (the logging thread recovers, as an HTTP server would): that event is lost, nothing else is, and nobody hangs
	Dest     string `json:"dest,omitempty"`             // "" plain writer | console (ConsoleWriter, pooled render buffer) | multi (MultiLevelWriter over two writers)
	N        uint32 `json:"sampler_n,omitempty"`
	Kind     string `json:"schedule_kind"`
	Bytes    []byte `json:"bytes,omitempty"`
	Seed     uint64 `json:"seed,omitempty"`
	D        int    `json:"d,omitempty"`
	Choices  []int  `json:"dfs_choices,omitempty"`
}

type replayChoices struct {
	c []int
	i int
}

func (r *replayChoices) Choose(step int, cands []*vsched.Thread, cur int) int {
	c := 0
	if r.i < len(r.c) {
		c = r.c[r.i]
	}
	r.i++
	if cur < 0 {
		if c >= len(cands) {
			c = 0
		}
		return c
	}
	if c == 0 {
		return cur
	}
	if c <= cur {
		return c - 1
	}
	if c >= len(cands) {
		return cur
	}
	return c
}

func chooser(c *Case) vsched.Chooser {
	switch c.Kind {
	case "pct":
		return vsched.NewPCT(c.Seed, c.D, 40+30*c.T*c.K)
	case "dfs":
		return &replayChoices{c.Choices, 0}
	}
	return &vsched.Bytes{B: c.Bytes}
}

// ---------------------------------------------------------------- C06: shared logger

type hook struct{}

func (hook) Run(e *zerolog.Event, l zerolog.Level, m string) { e.Str("hooked", "yes") }

type discardDebug struct{}

func (discardDebug) Run(e *zerolog.Event, l zerolog.Level, m string) {
	if l == zerolog.DebugLevel {
		e.Discard()
	}
}

type obj struct{ id int }

func (o *obj) MarshalZerologObject(e *zerolog.Event) { e.Int("id", o.id).Str("k", "v") }

// shapes of events; each carries the (thread, index) pair so that it is unique
var shapes = []func(ls []*zerolog.Logger, t, i int){
	func(ls []*zerolog.Logger, t, i int) { ls[0].Info().Int("t", t).Int("i", i).Msg("plain") },
	func(ls []*zerolog.Logger, t, i int) {
		ls[1].Warn().Int("t", t).Int("i", i).Dict("d", zerolog.Dict().Str("a", "b").Int("n", i)).Array("arr", zerolog.Arr().Str("x").Int(t)).Msg("nested")
	},
	func(ls []*zerolog.Logger, t, i int) {
		ls[2].Error().Int("t", t).Int("i", i).Object("o", &obj{i}).Msg("hooked")
	},
	func(ls []*zerolog.Logger, t, i int) {
		ls[0].Info().Int("t", t).Int("i", i).Str("pad", strings.Repeat("P", 600)).Msg("above 500")
	},
	func(ls []*zerolog.Logger, t, i int) {
		ls[3].Debug().Int("t", t).Int("i", i).Msg("discarded by the first hook")
	},
	func(ls []*zerolog.Logger, t, i int) { ls[3].Info().Int("t", t).Int("i", i).Msg("not discarded") },
	func(ls []*zerolog.Logger, t, i int) {
		ls[1].Info().Int("t", t).Int("i", i).Str("pad", strings.Repeat("Q", 70000)).Msg("above 64K")
	},
	// Panic(): written like any other event, then the call panics with the message (the thread recovers and counts)
	func(ls []*zerolog.Logger, t, i int) { ls[1].Panic().Int("t", t).Int("i", i).Msg(panicMsg) },
}

const panicMsg = "panics after it was written"

const panicShape = 7

type recWriter struct {
	errAt   int
	panicAt int
	calls   int
	got     []string
	inside  int
	overlap bool
	mutated bool
	yields  bool
}

func (w *recWriter) Write(p []byte) (int, error) {
	w.calls++
	if w.calls == w.panicAt {
		panic("destination blew up")
	}
	w.inside++
	if w.inside > 1 {
		w.overlap = true
	}
	s := string(p)
	if w.yields {
		vsched.Yield("writer")
		vsched.Yield("writer")
	}
	if string(p) != s {
		w.mutated = true
	}
	w.got = append(w.got, s)
	w.inside--
	if w.calls == w.errAt {
		return len(p) / 2, &os.SyscallError{Syscall: "write", Err: syscall.EAGAIN}
	}
	return len(p), nil
}

// Close is one more call on the wrapped writer (Logger.Fatal and shutdown paths close the writer):
// under SyncWriter it must not overlap a Write.
func (w *recWriter) Close() error {
	w.inside++
	if w.inside > 1 {
		w.overlap = true
	}
	if w.yields {
		vsched.Yield("closer")
	}
	w.inside--
	return nil
}

var lastSync io.Writer

func mkLoggers(ws []*recWriter, syncW bool, dest string) []*zerolog.Logger {
	var l0 zerolog.Logger
	var w io.Writer = ws[0]
	switch dest {
	case "console":
		w = zerolog.ConsoleWriter{Out: ws[0], NoColor: true, TimeLocation: time.UTC}
	case "multi":
		w = zerolog.MultiLevelWriter(ws[0], ws[1])
	case "multisame":
		// two destinations of the fan-out end in the same (non-thread-safe) writer, e.g. a file opened once
		w = zerolog.MultiLevelWriter(ws[0], ws[0])
	}
	if syncW {
		lastSync = zerolog.SyncWriter(w)
		l0 = zerolog.New(lastSync)
	} else {
		l0 = zerolog.New(w)
	}
	l1 := l0.With().Str("svc", "api").Logger()
	l2 := l1.Hook(hook{})
	l3 := l1.Hook(discardDebug{}, hook{}, hook{})
	return []*zerolog.Logger{&l0, &l1, &l2, &l3}
}

func shapeOf(t, i int) int { return (t*3 + i*5) % len(shapes) }

func runLog(c *Case, ch vsched.Chooser) (string, *vsched.Sched) {
	// expected: each event alone, outside the scheduler
	solo := []*recWriter{{}, {}}
	sl := mkLoggers(solo, false, c.Dest)
	wantPanics := 0
	for t := 0; t < c.T; t++ {
		for i := 0; i < c.K; i++ {
			if shapeOf(t, i) == panicShape {
				wantPanics++
			}
			func() {
				defer func() { recover() }()
				shapes[shapeOf(t, i)](sl, t, i)
			}()
		}
	}
	gotPanics := 0
	ws := []*recWriter{{yields: true, panicAt: c.PanicAt, errAt: c.ErrAt}, {yields: true}}
	oldEH := zerolog.ErrorHandler
	zerolog.ErrorHandler = func(error) {}
	defer func() { zerolog.ErrorHandler = oldEH }()
	s := vsched.Run(ch, 40000, false, func() {
		ls := mkLoggers(ws, c.Sync, c.Dest)
		done := 0
		for t := 0; t < c.T; t++ {
			t := t
			vsched.GoNamed(fmt.Sprintf("logger%d", t), func() {
				for i := 0; i < c.K; i++ {
					func() {
						defer func() {
							// the destination's own panic, or the one a Panic() event ends with
							if r := recover(); r == panicMsg {
								gotPanics++
							}
						}()
						shapes[shapeOf(t, i)](ls, t, i)
					}()
				}
				done++
			})
		}
		if c.Sync {
			// a closer thread: Close goes through the same lock as Write
			sw := lastSync
			vsched.GoNamed("closer", func() {
				if cl, ok := sw.(io.Closer); ok {
					cl.Close()
					cl.Close()
				}
			})
		}
		vsched.Block("join", func() bool { return done == c.T })
	})
	if s.Deadlock || s.StepLimit {
		return fmt.Sprintf("logging threads did not finish (deadlock=%v, step bound=%v)", s.Deadlock, s.StepLimit), s
	}
	if gotPanics != wantPanics && c.PanicAt == 0 {
		return fmt.Sprintf("%d Panic() events were logged, %d of the calls panicked", wantPanics, gotPanics), s
	}
	for k, w := range ws {
		if w.mutated {
			return "the byte slice handed to Write was modified before Write returned", s
		}
		if c.Sync && w.overlap {
			return "SyncWriter let two calls overlap in the wrapped writer", s
		}
		got := append([]string{}, w.got...)
		want := append([]string{}, solo[k].got...)
		sort.Strings(got)
		sort.Strings(want)
		if k == 0 && c.PanicAt > 0 && c.PanicAt <= len(want) && c.Dest == "" {
			// exactly the event whose Write panicked is missing
			if len(got) != len(want)-1 {
				return fmt.Sprintf("the destination's Write panicked once: %d of %d events arrived, want all but one", len(got), len(want)), s
			}
			j := 0
			for _, g := range got {
				for j < len(want) && want[j] != g {
					j++
				}
				if j == len(want) {
					return fmt.Sprintf("received %.120q, which no thread emitted", g), s
				}
				j++
			}
			continue
		}
		if len(got) != len(want) {
			return fmt.Sprintf("destination %d received %d writes for %d emitted events", k, len(got), len(want)), s
		}
		for i := range got {
			if got[i] != want[i] {
				return fmt.Sprintf("destination %d: received events differ from the events produced alone: got %.160q, want %.160q", k, got[i], want[i]), s
			}
		}
	}
	return "", s
}

// ---------------------------------------------------------------- C13: shared BasicSampler

func runSampler(c *Case, ch vsched.Chooser) (string, *vsched.Sched) {
	admitted := 0
	s := vsched.Run(ch, 20000, false, func() {
		sm := &zerolog.BasicSampler{N: c.N}
		done := 0
		for t := 0; t < c.T; t++ {
			vsched.GoNamed(fmt.Sprintf("sampler%d", t), func() {
				for i := 0; i < c.K; i++ {
					if sm.Sample(zerolog.InfoLevel) {
						admitted++
					}
				}
				done++
			})
		}
		vsched.Block("join", func() bool { return done == c.T })
	})
	if s.Deadlock || s.StepLimit {
		return "sampler threads did not finish", s
	}
	total := c.T * c.K
	want := 0
	if c.N == 1 {
		want = total
	} else if c.N > 1 {
		want = (total + int(c.N) - 1) / int(c.N)
	}
	if admitted != want {
		return fmt.Sprintf("BasicSampler{N:%d} shared by %d threads: %d of %d admitted, want %d", c.N, c.T, admitted, total, want), s
	}
	return "", s
}

// ---------------------------------------------------------------- C15: shared TriggerLevelWriter

type line struct {
	l zerolog.Level
	s string
}

type dest struct {
	log     []line
	inside  int
	overlap bool
}

func (d *dest) Write(p []byte) (int, error) { return d.WriteLevel(-100, p) }
func (d *dest) WriteLevel(l zerolog.Level, p []byte) (int, error) {
	d.inside++
	if d.inside > 1 {
		d.overlap = true
	}
	vsched.Yield("dest")
	d.log = append(d.log, line{l, string(p)})
	d.inside--
	return len(p), nil
}

// levels of thread t's lines: debug lines (held), one warn (immediate), one error (trigger) for thread 0
func trigLevel(t, i, k int) zerolog.Level {
	if t == 0 && i == k-1 {
		return zerolog.ErrorLevel
	}
	if i%2 == 1 {
		return zerolog.WarnLevel
	}
	return zerolog.DebugLevel
}

func runTrigger(c *Case, ch vsched.Chooser) (string, *vsched.Sched) {
	d := &dest{}
	heldForSure := map[string]bool{} // debug lines whose WriteLevel had returned when Trigger() was called
	inFlight := map[string]bool{}    // debug lines whose WriteLevel had started by then: they may already sit in the buffer, anywhere
	s := vsched.Run(ch, 20000, false, func() {
		tw := &zerolog.TriggerLevelWriter{Writer: d, ConditionalLevel: zerolog.DebugLevel, TriggerLevel: zerolog.ErrorLevel}
		done := 0
		returned, started := map[string]bool{}, map[string]bool{}
		for t := 0; t < c.T; t++ {
			t := t
			vsched.GoNamed(fmt.Sprintf("trig%d", t), func() {
				for i := 0; i < c.K; i++ {
					if c.Explicit && t == 0 && i == c.K-1 {
						for ln := range returned {
							heldForSure[ln] = true
						}
						for ln := range started {
							inFlight[ln] = true
						}
						tw.Trigger()
						continue
					}
					ln := fmt.Sprintf("g%d-%d\n", t, i)
					lvl := trigLevel(t, i, c.K)
					if lvl == zerolog.DebugLevel {
						started[ln] = true
					}
					tw.WriteLevel(lvl, []byte(ln))
					if lvl == zerolog.DebugLevel {
						returned[ln] = true
					}
				}
				done++
			})
		}
		vsched.Block("join", func() bool { return done == c.T })
	})
	if s.Deadlock || s.StepLimit {
		return "trigger-writer threads did not finish", s
	}
	if d.overlap {
		return "destination entered by two threads at the same time", s
	}
	if c.Explicit {
		// every line reaches the destination once, and the lines that were certainly held when
		// Trigger() was called come out as one block: nothing written meanwhile gets in between
		if len(d.log) != c.T*c.K-1 {
			return fmt.Sprintf("destination has %d of %d lines after an explicit Trigger()", len(d.log), c.T*c.K-1), s
		}
		first, last, nHeld := -1, -1, 0
		seen := map[string]bool{}
		for i, ln := range d.log {
			if seen[ln.s] {
				return fmt.Sprintf("line %q delivered twice", ln.s), s
			}
			seen[ln.s] = true
			if heldForSure[ln.s] {
				if first < 0 {
					first = i
				}
				last = i
				nHeld++
			}
		}
		if nHeld != len(heldForSure) {
			return fmt.Sprintf("%d of the %d lines held when Trigger() was called reached the destination", nHeld, len(heldForSure)), s
		}
		for i := first; nHeld > 0 && i <= last; i++ {
			if !inFlight[d.log[i].s] {
				return fmt.Sprintf("line %q, written after Trigger() was called (or above ConditionalLevel), was delivered in the middle of the block of lines held at that moment (positions %d..%d)", d.log[i].s, first, last), s
			}
		}
		return "", s
	}
	if len(d.log) != c.T*c.K {
		return fmt.Sprintf("destination has %d of %d lines although a trigger-level line was written", len(d.log), c.T*c.K), s
	}
	seen := map[string]bool{}
	trigAt := -1
	for i, ln := range d.log {
		var t, k int
		if _, err := fmt.Sscanf(ln.s, "g%d-%d\n", &t, &k); err != nil || t >= c.T || k >= c.K {
			return fmt.Sprintf("destination line %q is not one of the written lines", ln.s), s
		}
		if ln.l != trigLevel(t, k, c.K) {
			return fmt.Sprintf("line %q delivered with level %d", ln.s, ln.l), s
		}
		if seen[ln.s] {
			return fmt.Sprintf("line %q delivered twice", ln.s), s
		}
		seen[ln.s] = true
		if ln.l == zerolog.ErrorLevel {
			trigAt = i
		}
	}
	// everything before the triggering line is either an immediate (warn) line or part of the held
	// block, and the held block (debug lines written before the trigger) sits contiguously right
	// before the triggering line
	j := trigAt - 1
	for j >= 0 && d.log[j].l == zerolog.DebugLevel {
		j--
	}
	for ; j >= 0; j-- {
		if d.log[j].l == zerolog.DebugLevel {
			return fmt.Sprintf("held line %q was delivered before the trigger, separated from the held block by %q", d.log[j].s, d.log[j+1].s), s
		}
	}
	// per-thread order inside the held block and inside the immediate stream
	lastHeld, lastImm := map[int]int{}, map[int]int{}
	for i, ln := range d.log {
		var t, k int
		fmt.Sscanf(ln.s, "g%d-%d\n", &t, &k)
		m := lastImm
		if ln.l == zerolog.DebugLevel && i < trigAt {
			m = lastHeld
		}
		if v, ok := m[t]; ok && k < v {
			return fmt.Sprintf("thread %d: line %d delivered after its line %d", t, k, v), s
		}
		m[t] = k
	}
	return "", s
}

// ---------------------------------------------------------------- driving

func run(c *Case, ch vsched.Chooser) (string, *vsched.Sched) {
	switch c.What {
	case "sampler":
		return runSampler(c, ch)
	case "trigger":
		return runTrigger(c, ch)
	}
	return runLog(c, ch)
}

func fail(t interface{ Fatalf(string, ...interface{}) }, c *Case, msg string) {
	ev.SaveReplay(prop+"-sched-"+os.Getenv("VERIF_JOB")+os.Getenv("VERIF_SHARD"), c)
	fmt.Printf("VERIF-FAIL: [%s%s T%d K%d sync=%v N=%d] %s\n", c.What, c.Dest, c.T, c.K, c.Sync, c.N, msg)
	t.Fatalf("%s", msg)
}

func whats() []string {
	switch prop {
	case "C13":
		return []string{"sampler"}
	case "C15":
		return []string{"trigger"}
	}
	return []string{"log"}
}

func TestDFS(t *testing.T) {
	sh, nsh := ev.Shard()
	type cfg struct {
		c     Case
		bound int
	}
	var cfgs []cfg
	b := 2
	for _, w := range whats() {
		switch w {
		case "log":
			cfgs = append(cfgs, cfg{Case{What: w, T: 2, K: 2, Sync: true, ErrAt: 2}, b}, cfg{Case{What: w, T: 2, K: 2, Sync: true, Dest: "multisame"}, b})
			cfgs = append(cfgs, cfg{Case{What: w, T: 2, K: 2, Sync: true, PanicAt: 1}, b}, cfg{Case{What: w, T: 2, K: 2, Sync: true, PanicAt: 2}, b}, cfg{Case{What: w, T: 2, K: 2, PanicAt: 2}, b})
			cfgs = append(cfgs, cfg{Case{What: w, T: 2, K: 2, Dest: "console"}, b}, cfg{Case{What: w, T: 2, K: 2, Dest: "multi"}, b})
			cfgs = append(cfgs, cfg{Case{What: w, T: 2, K: 1}, 3}, cfg{Case{What: w, T: 2, K: 2}, b}, cfg{Case{What: w, T: 2, K: 2, Sync: true}, b}, cfg{Case{What: w, T: 3, K: 1}, b}, cfg{Case{What: w, T: 2, K: 3}, b})
			if ev.Thorough() {
				cfgs = append(cfgs, cfg{Case{What: w, T: 3, K: 2}, 2}, cfg{Case{What: w, T: 2, K: 4}, 2}, cfg{Case{What: w, T: 2, K: 2}, 3}, cfg{Case{What: w, T: 3, K: 2, Sync: true}, 2})
			}
		case "sampler":
			for _, n := range []uint32{2, 3} {
				cfgs = append(cfgs, cfg{Case{What: w, T: 2, K: 2, N: n}, 3}, cfg{Case{What: w, T: 2, K: 3, N: n}, 3}, cfg{Case{What: w, T: 3, K: 2, N: n}, 2})
				if ev.Thorough() {
					cfgs = append(cfgs, cfg{Case{What: w, T: 3, K: 3, N: n}, 3}, cfg{Case{What: w, T: 4, K: 2, N: n}, 2})
				}
			}
		case "trigger":
			cfgs = append(cfgs, cfg{Case{What: w, T: 2, K: 2}, 3}, cfg{Case{What: w, T: 2, K: 3}, 2}, cfg{Case{What: w, T: 3, K: 2}, 2})
			cfgs = append(cfgs, cfg{Case{What: w, T: 2, K: 3, Explicit: true}, 2}, cfg{Case{What: w, T: 3, K: 3, Explicit: true}, 2})
			if ev.Thorough() {
				cfgs = append(cfgs, cfg{Case{What: w, T: 3, K: 3}, 2}, cfg{Case{What: w, T: 2, K: 4}, 3})
			}
		}
	}
	for i, cf := range cfgs {
		if i%nsh != sh {
			continue
		}
		d := &vsched.DFS{Bound: cf.bound}
		var n, nt int64
		for {
			d.Begin()
			c := cf.c
			msg, s := run(&c, d)
			n++
			if s.Preempt >= 1 {
				nt++
			}
			if msg != "" {
				c.Kind, c.Choices = "dfs", d.Choices()
				fail(t, &c, fmt.Sprintf("%s (DFS schedule #%d, preemption bound %d)", msg, n, cf.bound))
			}
			if !d.Next() {
				break
			}
		}
		rec.Bulk(n, nt, fmt.Sprintf("dfs:%s%s T%d K%d", cf.c.What, cf.c.Dest, cf.c.T, cf.c.K))
		rec.Exhaustive(fmt.Sprintf("%s%s T%d K%d sync=%v N=%d: all %d schedules with <= %d preemptions", cf.c.What, cf.c.Dest, cf.c.T, cf.c.K, cf.c.Sync, cf.c.N, n, cf.bound))
		rec.Sample(map[string]interface{}{"config": cf.c, "preemption_bound": cf.bound, "schedules": n})
	}
}

func TestRapidSchedules(t *testing.T) {
	ws := whats()
	rapid.Check(t, func(rt *rapid.T) {
		c := &Case{What: rapid.SampledFrom(ws).Draw(rt, "what"), T: rapid.IntRange(2, 4).Draw(rt, "T"), K: rapid.IntRange(1, 5).Draw(rt, "K")}
		c.Sync = rapid.Bool().Draw(rt, "sync")
		c.Explicit = c.What == "trigger" && rapid.IntRange(0, 2).Draw(rt, "explicit") == 0
		if c.What == "log" {
			c.Dest = rapid.SampledFrom([]string{"", "", "console", "multi", "multisame"}).Draw(rt, "dest")
			if c.Dest == "" && rapid.IntRange(0, 3).Draw(rt, "panics") == 0 {
				c.PanicAt = rapid.IntRange(1, 3).Draw(rt, "panicat")
			} else if c.Dest != "console" && rapid.IntRange(0, 3).Draw(rt, "eagain") == 0 {
				c.ErrAt = rapid.IntRange(1, 3).Draw(rt, "errat")
			}
		}
		c.N = uint32(rapid.IntRange(0, 5).Draw(rt, "N"))
		if rapid.Bool().Draw(rt, "pct") {
			c.Kind, c.Seed, c.D = "pct", rapid.Uint64().Draw(rt, "seed"), rapid.IntRange(1, 3).Draw(rt, "d")
		} else {
			c.Kind, c.Bytes = "bytes", rapid.SliceOfN(rapid.Byte(), 0, 100).Draw(rt, "schedule")
		}
		msg, s := run(c, chooser(c))
		b, _ := json.Marshal(c)
		rec.Case(b, s.Preempt >= 1, "what:"+c.What, "kind:"+c.Kind)
		if msg != "" {
			fail(rt, c, msg)
		}
	})
}

func TestReplay(t *testing.T) {
	f := os.Getenv("VERIF_REPLAY")
	if f == "" {
		t.Skip("no VERIF_REPLAY")
	}
	b, err := os.ReadFile(f)
	if err != nil {
		t.Fatal(err)
	}
	var c Case
	if err := json.Unmarshal(b, &c); err != nil || c.What == "" {
		t.Skip("not a logcheck case")
	}
	rec.Case(b, true, "replay")
	rec.Case(append(b, 1), true, "replay")
	if msg, _ := run(&c, chooser(&c)); msg != "" {
		fail(t, &c, msg)
	}
}
