// Package vsync mirrors the parts of package sync used by the code under test with
// scheduler-aware models that have the documented semantics.
package vsync

import (
	"github.com/rs/zerolog/vsched"
)

type Locker interface {
	Lock()
	Unlock()
}

type Mutex struct {
	locked bool
	owner  int
}

func (m *Mutex) Lock() {
	vsched.Yield("Lock")
	if m.locked {
		vsched.Block("Lock", func() bool { return !m.locked })
	}
	m.locked = true
	vsched.Record("Lock", 0, 0, true)
}

func (m *Mutex) TryLock() bool {
	vsched.Yield("TryLock")
	if m.locked {
		return false
	}
	m.locked = true
	return true
}

func (m *Mutex) Unlock() {
	if !vsched.Active() {
		m.locked = false // unwinding a killed thread: deferred unlocks must not trip
		return
	}
	vsched.Yield("Unlock")
	if !m.locked {
		panic("vsync: unlock of unlocked mutex")
	}
	m.locked = false
	vsched.Record("Unlock", 0, 0, true)
	vsched.Yield("Unlock-after") // see Pool.Put
}

func (m *Mutex) unlockNoYield() { m.locked = false }

type RWMutex struct {
	w       bool
	readers int
}

func (m *RWMutex) Lock() {
	vsched.Yield("Lock")
	if m.w || m.readers > 0 {
		vsched.Block("Lock", func() bool { return !m.w && m.readers == 0 })
	}
	m.w = true
}
func (m *RWMutex) Unlock() { vsched.Yield("Unlock"); m.w = false }
func (m *RWMutex) RLock() {
	vsched.Yield("RLock")
	if m.w {
		vsched.Block("RLock", func() bool { return !m.w })
	}
	m.readers++
}
func (m *RWMutex) RUnlock() { vsched.Yield("RUnlock"); m.readers-- }

// Cond: Wait atomically unlocks and enqueues (the point at which the real sync.Cond takes
// its notify ticket); Signal/Broadcast wake only current waiters.
type Cond struct {
	L  Locker
	ws []*bool
}

func NewCond(l Locker) *Cond { return &Cond{L: l} }

func (c *Cond) Wait() {
	vsched.Yield("Wait")
	w := new(bool)
	c.ws = append(c.ws, w)
	vsched.Record("Wait", 0, uint64(len(c.ws)), true)
	switch l := c.L.(type) {
	case *Mutex:
		l.unlockNoYield()
	default:
		c.L.Unlock()
	}
	vsched.Block("cond", func() bool { return *w })
	c.L.Lock()
}

func (c *Cond) Broadcast() {
	vsched.Yield("Broadcast")
	vsched.Record("Broadcast", 0, uint64(len(c.ws)), len(c.ws) > 0)
	for _, w := range c.ws {
		*w = true
	}
	c.ws = nil
}

func (c *Cond) Signal() {
	vsched.Yield("Signal")
	vsched.Record("Signal", 0, uint64(len(c.ws)), len(c.ws) > 0)
	if len(c.ws) > 0 {
		*c.ws[0] = true
		c.ws = c.ws[1:]
	}
}

// Pool is a LIFO stack: one legal behaviour of sync.Pool, so any violation found under it
// is real, and Put-then-Get reuse is deterministic.
type Pool struct {
	New   func() interface{}
	items []interface{}
}

func (p *Pool) Get() interface{} {
	vsched.Yield("PoolGet")
	if n := len(p.items); n > 0 {
		x := p.items[n-1]
		p.items = p.items[:n-1]
		return x
	}
	if p.New != nil {
		return p.New()
	}
	return nil
}

func (p *Pool) Put(x interface{}) {
	vsched.Yield("PoolPut")
	p.items = append(p.items, x)
	// a second scheduling point *after* the release: plain (uninstrumented) accesses the
	// releasing thread still makes to x afterwards can then interleave with the next owner
	vsched.Yield("PoolPut-after")
}

// Reset drops pooled items (harness: between runs).
func (p *Pool) Reset() { p.items = nil }

type Once struct {
	m    Mutex
	done bool
}

func (o *Once) Do(f func()) {
	vsched.Yield("Once")
	if o.done {
		return
	}
	o.m.Lock()
	defer o.m.Unlock()
	if !o.done {
		defer func() { o.done = true }()
		f()
	}
}

type WaitGroup struct{ n int }

func (w *WaitGroup) Add(d int) { vsched.Yield("WgAdd"); w.n += d }
func (w *WaitGroup) Done()     { vsched.Yield("WgDone"); w.n-- }
func (w *WaitGroup) Wait() {
	vsched.Yield("WgWait")
	if w.n > 0 {
		vsched.Block("WgWait", func() bool { return w.n <= 0 })
	}
}
