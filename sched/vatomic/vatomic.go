// Package vatomic mirrors sync/atomic: every operation is a scheduling point followed by
// the real atomic operation; the result is recorded in the history.
package vatomic

import (
	"sync/atomic"
	"unsafe"

	"github.com/rs/zerolog/vsched"
)

func tag(p unsafe.Pointer) uint64 { return uint64(uintptr(p)) }

func AddUint64(addr *uint64, delta uint64) uint64 {
	vsched.Yield("AddUint64")
	v := atomic.AddUint64(addr, delta)
	vsched.Record("AddUint64", tag(unsafe.Pointer(addr)), v, true)
	return v
}
func AddUint32(addr *uint32, delta uint32) uint32 {
	vsched.Yield("AddUint32")
	v := atomic.AddUint32(addr, delta)
	vsched.Record("AddUint32", tag(unsafe.Pointer(addr)), uint64(v), true)
	return v
}
func AddInt32(addr *int32, delta int32) int32 {
	vsched.Yield("AddInt32")
	v := atomic.AddInt32(addr, delta)
	vsched.Record("AddInt32", tag(unsafe.Pointer(addr)), uint64(v), true)
	return v
}
func AddInt64(addr *int64, delta int64) int64 {
	vsched.Yield("AddInt64")
	v := atomic.AddInt64(addr, delta)
	vsched.Record("AddInt64", tag(unsafe.Pointer(addr)), uint64(v), true)
	return v
}
func LoadUint64(addr *uint64) uint64 {
	vsched.Yield("LoadUint64")
	v := atomic.LoadUint64(addr)
	vsched.Record("LoadUint64", tag(unsafe.Pointer(addr)), v, true)
	return v
}
func LoadUint32(addr *uint32) uint32 {
	vsched.Yield("LoadUint32")
	v := atomic.LoadUint32(addr)
	vsched.Record("LoadUint32", tag(unsafe.Pointer(addr)), uint64(v), true)
	return v
}
func LoadInt32(addr *int32) int32 {
	vsched.Yield("LoadInt32")
	v := atomic.LoadInt32(addr)
	vsched.Record("LoadInt32", tag(unsafe.Pointer(addr)), uint64(v), true)
	return v
}
func LoadInt64(addr *int64) int64 {
	vsched.Yield("LoadInt64")
	v := atomic.LoadInt64(addr)
	vsched.Record("LoadInt64", tag(unsafe.Pointer(addr)), uint64(v), true)
	return v
}
func StoreUint64(addr *uint64, v uint64) {
	vsched.Yield("StoreUint64")
	atomic.StoreUint64(addr, v)
	vsched.Record("StoreUint64", tag(unsafe.Pointer(addr)), v, true)
}
func StoreUint32(addr *uint32, v uint32) {
	vsched.Yield("StoreUint32")
	atomic.StoreUint32(addr, v)
	vsched.Record("StoreUint32", tag(unsafe.Pointer(addr)), uint64(v), true)
}
func StoreInt32(addr *int32, v int32) {
	vsched.Yield("StoreInt32")
	atomic.StoreInt32(addr, v)
	vsched.Record("StoreInt32", tag(unsafe.Pointer(addr)), uint64(v), true)
}
func StoreInt64(addr *int64, v int64) {
	vsched.Yield("StoreInt64")
	atomic.StoreInt64(addr, v)
	vsched.Record("StoreInt64", tag(unsafe.Pointer(addr)), uint64(v), true)
}
func SwapUint64(addr *uint64, v uint64) uint64 {
	vsched.Yield("SwapUint64")
	o := atomic.SwapUint64(addr, v)
	vsched.Record("SwapUint64", tag(unsafe.Pointer(addr)), o, true)
	return o
}
func SwapUint32(addr *uint32, v uint32) uint32 {
	vsched.Yield("SwapUint32")
	o := atomic.SwapUint32(addr, v)
	vsched.Record("SwapUint32", tag(unsafe.Pointer(addr)), uint64(o), true)
	return o
}
func SwapInt32(addr *int32, v int32) int32 {
	vsched.Yield("SwapInt32")
	o := atomic.SwapInt32(addr, v)
	vsched.Record("SwapInt32", tag(unsafe.Pointer(addr)), uint64(o), true)
	return o
}
func CompareAndSwapUint64(addr *uint64, old, new uint64) bool {
	vsched.Yield("CASUint64")
	ok := atomic.CompareAndSwapUint64(addr, old, new)
	vsched.Record("CASUint64", tag(unsafe.Pointer(addr)), new, ok)
	return ok
}
func CompareAndSwapUint32(addr *uint32, old, new uint32) bool {
	vsched.Yield("CASUint32")
	ok := atomic.CompareAndSwapUint32(addr, old, new)
	vsched.Record("CASUint32", tag(unsafe.Pointer(addr)), uint64(new), ok)
	return ok
}
func CompareAndSwapInt32(addr *int32, old, new int32) bool {
	vsched.Yield("CASInt32")
	ok := atomic.CompareAndSwapInt32(addr, old, new)
	vsched.Record("CASInt32", tag(unsafe.Pointer(addr)), uint64(new), ok)
	return ok
}
func CompareAndSwapInt64(addr *int64, old, new int64) bool {
	vsched.Yield("CASInt64")
	ok := atomic.CompareAndSwapInt64(addr, old, new)
	vsched.Record("CASInt64", tag(unsafe.Pointer(addr)), uint64(new), ok)
	return ok
}
func LoadPointer(addr *unsafe.Pointer) unsafe.Pointer {
	vsched.Yield("LoadPointer")
	v := atomic.LoadPointer(addr)
	vsched.Record("LoadPointer", tag(unsafe.Pointer(addr)), tag(v), true)
	return v
}
func StorePointer(addr *unsafe.Pointer, v unsafe.Pointer) {
	vsched.Yield("StorePointer")
	atomic.StorePointer(addr, v)
	vsched.Record("StorePointer", tag(unsafe.Pointer(addr)), tag(v), true)
}
func SwapPointer(addr *unsafe.Pointer, v unsafe.Pointer) unsafe.Pointer {
	vsched.Yield("SwapPointer")
	o := atomic.SwapPointer(addr, v)
	vsched.Record("SwapPointer", tag(unsafe.Pointer(addr)), tag(o), true)
	return o
}
func CompareAndSwapPointer(addr *unsafe.Pointer, old, new unsafe.Pointer) bool {
	vsched.Yield("CASPointer")
	ok := atomic.CompareAndSwapPointer(addr, old, new)
	vsched.Record("CASPointer", tag(unsafe.Pointer(addr)), tag(new), ok)
	return ok
}

// typed values (Go 1.19+ API) used by possible future code
type Bool struct{ v int32 }

func (b *Bool) Load() bool { return LoadInt32(&b.v) != 0 }
func (b *Bool) Store(x bool) {
	var i int32
	if x {
		i = 1
	}
	StoreInt32(&b.v, i)
}

type Int32 struct{ v int32 }

func (i *Int32) Load() int32                    { return LoadInt32(&i.v) }
func (i *Int32) Store(x int32)                  { StoreInt32(&i.v, x) }
func (i *Int32) Add(d int32) int32              { return AddInt32(&i.v, d) }
func (i *Int32) CompareAndSwap(o, n int32) bool { return CompareAndSwapInt32(&i.v, o, n) }

type Uint32 struct{ v uint32 }

func (i *Uint32) Load() uint32        { return LoadUint32(&i.v) }
func (i *Uint32) Store(x uint32)      { StoreUint32(&i.v, x) }
func (i *Uint32) Add(d uint32) uint32 { return AddUint32(&i.v, d) }

type Uint64 struct{ v uint64 }

func (i *Uint64) Load() uint64        { return LoadUint64(&i.v) }
func (i *Uint64) Store(x uint64)      { StoreUint64(&i.v, x) }
func (i *Uint64) Add(d uint64) uint64 { return AddUint64(&i.v, d) }

type Int64 struct{ v int64 }

func (i *Int64) Load() int64       { return LoadInt64(&i.v) }
func (i *Int64) Store(x int64)     { StoreInt64(&i.v, x) }
func (i *Int64) Add(d int64) int64 { return AddInt64(&i.v, d) }

// ---- the rest of the sync/atomic API, so that code that starts using it still builds and is scheduled

func SwapInt64(addr *int64, v int64) int64 {
	vsched.Yield("SwapInt64")
	o := atomic.SwapInt64(addr, v)
	vsched.Record("SwapInt64", tag(unsafe.Pointer(addr)), uint64(o), true)
	return o
}
func AddUintptr(addr *uintptr, delta uintptr) uintptr {
	vsched.Yield("AddUintptr")
	v := atomic.AddUintptr(addr, delta)
	vsched.Record("AddUintptr", tag(unsafe.Pointer(addr)), uint64(v), true)
	return v
}
func LoadUintptr(addr *uintptr) uintptr {
	vsched.Yield("LoadUintptr")
	v := atomic.LoadUintptr(addr)
	vsched.Record("LoadUintptr", tag(unsafe.Pointer(addr)), uint64(v), true)
	return v
}
func StoreUintptr(addr *uintptr, v uintptr) {
	vsched.Yield("StoreUintptr")
	atomic.StoreUintptr(addr, v)
	vsched.Record("StoreUintptr", tag(unsafe.Pointer(addr)), uint64(v), true)
}
func SwapUintptr(addr *uintptr, v uintptr) uintptr {
	vsched.Yield("SwapUintptr")
	o := atomic.SwapUintptr(addr, v)
	vsched.Record("SwapUintptr", tag(unsafe.Pointer(addr)), uint64(o), true)
	return o
}
func CompareAndSwapUintptr(addr *uintptr, old, new uintptr) bool {
	vsched.Yield("CASUintptr")
	ok := atomic.CompareAndSwapUintptr(addr, old, new)
	vsched.Record("CASUintptr", tag(unsafe.Pointer(addr)), uint64(new), ok)
	return ok
}
func AndInt32(addr *int32, mask int32) int32 {
	vsched.Yield("AndInt32")
	o := atomic.AndInt32(addr, mask)
	vsched.Record("AndInt32", tag(unsafe.Pointer(addr)), uint64(o), true)
	return o
}
func AndUint32(addr *uint32, mask uint32) uint32 {
	vsched.Yield("AndUint32")
	o := atomic.AndUint32(addr, mask)
	vsched.Record("AndUint32", tag(unsafe.Pointer(addr)), uint64(o), true)
	return o
}
func AndInt64(addr *int64, mask int64) int64 {
	vsched.Yield("AndInt64")
	o := atomic.AndInt64(addr, mask)
	vsched.Record("AndInt64", tag(unsafe.Pointer(addr)), uint64(o), true)
	return o
}
func AndUint64(addr *uint64, mask uint64) uint64 {
	vsched.Yield("AndUint64")
	o := atomic.AndUint64(addr, mask)
	vsched.Record("AndUint64", tag(unsafe.Pointer(addr)), o, true)
	return o
}
func OrInt32(addr *int32, mask int32) int32 {
	vsched.Yield("OrInt32")
	o := atomic.OrInt32(addr, mask)
	vsched.Record("OrInt32", tag(unsafe.Pointer(addr)), uint64(o), true)
	return o
}
func OrUint32(addr *uint32, mask uint32) uint32 {
	vsched.Yield("OrUint32")
	o := atomic.OrUint32(addr, mask)
	vsched.Record("OrUint32", tag(unsafe.Pointer(addr)), uint64(o), true)
	return o
}
func OrInt64(addr *int64, mask int64) int64 {
	vsched.Yield("OrInt64")
	o := atomic.OrInt64(addr, mask)
	vsched.Record("OrInt64", tag(unsafe.Pointer(addr)), uint64(o), true)
	return o
}
func OrUint64(addr *uint64, mask uint64) uint64 {
	vsched.Yield("OrUint64")
	o := atomic.OrUint64(addr, mask)
	vsched.Record("OrUint64", tag(unsafe.Pointer(addr)), o, true)
	return o
}

func (b *Bool) Swap(x bool) bool {
	var i int32
	if x {
		i = 1
	}
	return SwapInt32(&b.v, i) != 0
}
func (b *Bool) CompareAndSwap(o, n bool) bool {
	var oi, ni int32
	if o {
		oi = 1
	}
	if n {
		ni = 1
	}
	return CompareAndSwapInt32(&b.v, oi, ni)
}
func (i *Int32) Swap(x int32) int32               { return SwapInt32(&i.v, x) }
func (i *Int32) And(m int32) int32                { return AndInt32(&i.v, m) }
func (i *Int32) Or(m int32) int32                 { return OrInt32(&i.v, m) }
func (i *Uint32) Swap(x uint32) uint32            { return SwapUint32(&i.v, x) }
func (i *Uint32) CompareAndSwap(o, n uint32) bool { return CompareAndSwapUint32(&i.v, o, n) }
func (i *Uint32) And(m uint32) uint32             { return AndUint32(&i.v, m) }
func (i *Uint32) Or(m uint32) uint32              { return OrUint32(&i.v, m) }
func (i *Uint64) Swap(x uint64) uint64            { return SwapUint64(&i.v, x) }
func (i *Uint64) CompareAndSwap(o, n uint64) bool { return CompareAndSwapUint64(&i.v, o, n) }
func (i *Uint64) And(m uint64) uint64             { return AndUint64(&i.v, m) }
func (i *Uint64) Or(m uint64) uint64              { return OrUint64(&i.v, m) }
func (i *Int64) Swap(x int64) int64               { return SwapInt64(&i.v, x) }
func (i *Int64) CompareAndSwap(o, n int64) bool   { return CompareAndSwapInt64(&i.v, o, n) }
func (i *Int64) And(m int64) int64                { return AndInt64(&i.v, m) }
func (i *Int64) Or(m int64) int64                 { return OrInt64(&i.v, m) }

type Uintptr struct{ v uintptr }

func (i *Uintptr) Load() uintptr                    { return LoadUintptr(&i.v) }
func (i *Uintptr) Store(x uintptr)                  { StoreUintptr(&i.v, x) }
func (i *Uintptr) Add(d uintptr) uintptr            { return AddUintptr(&i.v, d) }
func (i *Uintptr) Swap(x uintptr) uintptr           { return SwapUintptr(&i.v, x) }
func (i *Uintptr) CompareAndSwap(o, n uintptr) bool { return CompareAndSwapUintptr(&i.v, o, n) }

// Pointer mirrors atomic.Pointer[T].
type Pointer[T any] struct{ p atomic.Pointer[T] }

func (x *Pointer[T]) Load() *T {
	vsched.Yield("Pointer.Load")
	v := x.p.Load()
	vsched.Record("Pointer.Load", tag(unsafe.Pointer(x)), tag(unsafe.Pointer(v)), true)
	return v
}
func (x *Pointer[T]) Store(v *T) {
	vsched.Yield("Pointer.Store")
	x.p.Store(v)
	vsched.Record("Pointer.Store", tag(unsafe.Pointer(x)), tag(unsafe.Pointer(v)), true)
}
func (x *Pointer[T]) Swap(v *T) *T {
	vsched.Yield("Pointer.Swap")
	o := x.p.Swap(v)
	vsched.Record("Pointer.Swap", tag(unsafe.Pointer(x)), tag(unsafe.Pointer(o)), true)
	return o
}
func (x *Pointer[T]) CompareAndSwap(o, n *T) bool {
	vsched.Yield("Pointer.CAS")
	ok := x.p.CompareAndSwap(o, n)
	vsched.Record("Pointer.CAS", tag(unsafe.Pointer(x)), tag(unsafe.Pointer(n)), ok)
	return ok
}

// Value mirrors atomic.Value.
type Value struct{ v atomic.Value }

func (x *Value) Load() interface{} {
	vsched.Yield("Value.Load")
	v := x.v.Load()
	vsched.Record("Value.Load", tag(unsafe.Pointer(x)), 0, true)
	return v
}
func (x *Value) Store(v interface{}) {
	vsched.Yield("Value.Store")
	x.v.Store(v)
	vsched.Record("Value.Store", tag(unsafe.Pointer(x)), 0, true)
}
func (x *Value) Swap(v interface{}) interface{} {
	vsched.Yield("Value.Swap")
	o := x.v.Swap(v)
	vsched.Record("Value.Swap", tag(unsafe.Pointer(x)), 0, true)
	return o
}
func (x *Value) CompareAndSwap(o, n interface{}) bool {
	vsched.Yield("Value.CAS")
	ok := x.v.CompareAndSwap(o, n)
	vsched.Record("Value.CAS", tag(unsafe.Pointer(x)), 0, ok)
	return ok
}
