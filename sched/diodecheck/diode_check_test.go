// Package diodecheck drives the real (instrumented) diode sources under the cooperative
// scheduler and checks C10, C11 and C12 over generated schedules.
package diodecheck

import (
	"encoding/json"
	"errors"
	"fmt"
	"io"
	"log"
	"os"
	"runtime"
	"sort"
	"strconv"
	"strings"
	"testing"
	"time"

	"github.com/rs/zerolog/diode"
	"github.com/rs/zerolog/vsched"
	"github.com/rs/zerolog/vsched/ev"
	"pgregory.net/rapid"
)

var prop = os.Getenv("VERIF_PROP")

var rules = map[string]string{
	"C10": "cases = (P producers x W writes x ring size x mode {waiter, poller} x wrapped-writer behaviour {returns, yields inside Write, blocks forever}) x schedule over individual atomic/mutex/cond/pool/channel operations of the real diode sources run on a cooperative scheduler: bounded-preemption DFS for small configurations, PCT priorities and rapid byte-string schedules beyond. oracle = history invariants: every producer's Write returns; each delivered buffer equals exactly one earlier Write argument and is unchanged while inside the wrapped Write; no duplicate; deliveries never overlap; delivered claim positions strictly increase; sum of alerter counts <= ring positions claimed. non-trivial = schedule with >=1 preemption in which lapping, a Set retry or a producer/consumer overlap occurred; distinct = FNV-64 of (config, schedule)",
	"C11": "cases = as C10 (wrapped writer always returns) with Close called by the main thread after all producers returned, at every point the schedule allows. oracle = after Close returned: delivered + reported >= written, with equality when no producer retried a ring position, and every undelivered message covered by reports made after its Write began (a report cannot account for a message written later); nothing dropped while fewer than size messages were outstanding; no delivery after Close returned. non-trivial = Close raced with a non-empty ring or lapping occurred; distinct = FNV-64 of (config, schedule)",
	"C12": "cases = as C10 in waiter and poller mode; the main thread (lowest priority) observes the quiescent state after all producers returned and before Close, then calls Close. oracle = at quiescence delivered + reported >= written and every undelivered message covered by reports made after its Write began (a parked consumer with an undelivered, unreported message is a violation; poller: after two idle poll rounds); after Close is called every thread terminates (no deadlock, step bound not hit under the fair tail). non-trivial = a producer's Set/Broadcast fell between the consumer's empty TryNext and its Wait, or cancel raced with Wait, or >=1 preemption with the ring non-empty; distinct = FNV-64 of (config, schedule)",
}

var rec = ev.New(prop, rules[prop])

func TestMain(m *testing.M) {
	log.SetOutput(io.Discard) // "Diode set collision" notices
	code := m.Run()
	rec.Flush()
	os.Exit(code)
}

// ---------------------------------------------------------------- configuration

type Config struct {
	P         int    `json:"producers"`
	W         int    `json:"writes"`
	Size      int    `json:"size"`
	Poller    bool   `json:"poller"`
	LongPoll  bool   `json:"long_poll,omitempty"`         // poll interval 300 ms instead of 1 ms (the scheduler owns the clock: only code that looks at the duration can tell)
	Writer    string `json:"writer"`                      // returns | yields | blocks
	Big       bool   `json:"big,omitempty"`               // one message larger than 64 KiB
	Early     bool   `json:"early_close,omitempty"`       // Close right after the last Write returned, without waiting for quiescence
	NilAlert  bool   `json:"nil_alerter,omitempty"`       // NewWriter(w, size, poll, nil)
	BigCap    bool   `json:"big_cap,omitempty"`           // producers write from a reused buffer of capacity 128 KiB
	LateWrite bool   `json:"late_write,omitempty"`        // writer "blocks" only: Close is called (and hangs behind the stuck consumer), then one more Write arrives: it returns like every other
	Errs      string `json:"writer_errors,omitempty"`     // what the wrapped writer returns: "" (len, nil) | zero: (0, err) on every 2nd call | partial: (len/2, err) on every 2nd call | closed: an error wrapping os.ErrClosed on the 2nd call | temporary: a Temporary() error from the 2nd call on
	TwoClose  bool   `json:"two_closers,omitempty"`       // a second thread calls Close concurrently (deferred Close + Fatal's Close)
	Reentrant bool   `json:"reentrant_alerter,omitempty"` // the alerter logs through the same diode.Writer (it runs on the consumer)
}

func (c Config) String() string {
	m := "waiter"
	if c.Poller {
		m = "poller"
	}
	if c.Early {
		m += " early-close"
	}
	if c.NilAlert {
		m += " nil-alerter"
	}
	if c.BigCap {
		m += " bigcap"
	}
	if c.Reentrant {
		m += " reentrant-alerter"
	}
	if c.TwoClose {
		m += " two-closers"
	}
	if c.Errs != "" {
		m += " writer-errors=" + c.Errs
	}
	if c.LongPoll {
		m += " poll=300ms"
	}
	if c.LateWrite {
		m += " late-write"
	}
	return fmt.Sprintf("P%d W%d size%d %s writer=%s", c.P, c.W, c.Size, m, c.Writer)
}

type Case struct {
	Cfg     Config `json:"config"`
	Kind    string `json:"schedule_kind"` // bytes | pct | dfs
	Bytes   []byte `json:"bytes,omitempty"`
	Seed    uint64 `json:"seed,omitempty"`
	D       int    `json:"d,omitempty"`
	Choices []int  `json:"dfs_choices,omitempty"` // replay of a DFS schedule: option index per decision point
}

// ---------------------------------------------------------------- one run

type delivery struct {
	msg string
	pos uint64 // effective claim position (filled in afterwards)
}

type result struct {
	written                            int
	delivered                          []string
	reported                           int
	alerts                             []int
	claimed                            int
	retries                            int
	overlap                            bool
	mutated                            bool
	unknown                            string
	dupe                               string
	producersDone                      int
	quiescentSeen                      bool
	qDelivered                         int
	qReported                          int
	lateStarted, lateReturned          bool
	closeReturned                      bool
	close2Started, close2Returned      bool
	c2Delivered, c2Reported, c2Written int
	afterClose                         int
	sched                              *vsched.Sched
	effPos                             map[string]uint64
	lapped                             bool
	// a logical clock over write starts, deliveries and alerts: a report can only cover messages
	// whose Write had begun when it was made
	clock    int
	startAt  map[string]int
	alertAt  []int
	qAlerts  int
	returned map[string]bool
	// insideAtClose: Close returned while the wrapped writer was still inside Write
	insideAtClose bool
	// qUncovered: at the quiescent observation, a returned message nothing accounts for
	qUncovered string
}

// uncovered returns a message whose Write has returned, which is not among the first nDelivered
// deliveries and which the first nAlerts reports cannot account for: a report made before a Write
// began says nothing about that Write's message. With nested eligibility (a later message can only
// be covered by later reports) Hall's condition reduces to one inequality per start time.
func (r *result) uncovered(nDelivered, nAlerts int) (string, bool) {
	got := map[string]bool{}
	for _, d := range r.delivered[:nDelivered] {
		got[d] = true
	}
	type lost struct {
		m  string
		at int
	}
	var ls []lost
	for m := range r.returned {
		if !got[m] {
			ls = append(ls, lost{m, r.startAt[m]})
		}
	}
	sort.Slice(ls, func(i, j int) bool { return ls[i].at > ls[j].at })
	for i, l := range ls {
		// i+1 undelivered messages began at or after l.at
		capacity := 0
		for k := 0; k < nAlerts; k++ {
			if r.alertAt[k] > l.at {
				capacity += r.alerts[k]
			}
		}
		if capacity < i+1 {
			return l.m, true
		}
	}
	return "", false
}

type wrapped struct {
	r       *result
	cfg     Config
	inside  int
	sent    map[string]bool
	closed  *bool
	blocked bool
	calls   int
}

func (w *wrapped) Write(p []byte) (int, error) {
	w.inside++
	if w.inside != 1 {
		w.r.overlap = true
	}
	vsched.Progress()
	s := string(p)
	if !w.sent[s] {
		w.r.unknown = trunc(s)
	}
	for _, d := range w.r.delivered {
		if d == s {
			w.r.dupe = trunc(s)
		}
	}
	w.r.delivered = append(w.r.delivered, s)
	w.r.clock++
	if *w.closed {
		w.r.afterClose++
	}
	vsched.Record("deliver", 0, uint64(len(w.r.delivered)), true)
	switch w.cfg.Writer {
	case "yields":
		vsched.Yield("writer")
		vsched.Yield("writer")
	case "blocks":
		vsched.Block("writer-blocked-forever", func() bool { return false })
	case "goexit":
		// the destination ends the goroutine it is called on (what t.FailNow does in a test's sink): the
		// consumer is gone, Close must still return
		runtime.Goexit()
	}
	if string(p) != s {
		w.r.mutated = true
	}
	w.inside--
	w.calls++
	switch w.cfg.Errs {
	case "zero":
		if w.calls%2 == 0 {
			return 0, errWrapped
		}
	case "partial":
		if w.calls%2 == 0 {
			return len(p) / 2, errWrapped
		}
	case "closed":
		if w.calls == 2 {
			return 0, &os.PathError{Op: "write", Path: "/var/log/app.log", Err: os.ErrClosed}
		}
	case "temporary":
		if w.calls >= 2 {
			return 0, tempErr{}
		}
	}
	return len(p), nil
}

var errWrapped = errors.New("wrapped writer failed")

type tempErr struct{}

func (tempErr) Error() string   { return "resource temporarily unavailable" }
func (tempErr) Temporary() bool { return true }
func (tempErr) Timeout() bool   { return true }

func trunc(s string) string {
	if len(s) > 40 {
		return s[:40] + "..."
	}
	return s
}

func message(p, k int, cfg Config) []byte {
	base := fmt.Sprintf("p%d-%d|", p, k)
	n := 8 + (p*7+k*13)%40
	if (p+k)%5 == 4 {
		n = 520 // crosses the 500-byte pooled buffer capacity
	}
	if (p+k)%5 == 2 {
		n = []int{499, 500, 501}[(p*3+k)%3] // exactly the pooled capacity, and one either side
	}
	if cfg.Big && p == 0 && k == 0 {
		n = 65537 + 16
	}
	return []byte(base + strings.Repeat("m", n-len(base)))
}

// runOnce executes one schedule.
func runOnce(cfg Config, ch vsched.Chooser, keepTrace bool) *result {
	r := &result{effPos: map[string]uint64{}, startAt: map[string]int{}, returned: map[string]bool{}}
	closed := false
	sent := map[string]bool{}
	for p := 0; p < cfg.P; p++ {
		for k := 0; k < cfg.W; k++ {
			sent[string(message(p, k, cfg))] = true
		}
	}
	maxSteps := 4000 + 600*cfg.P*cfg.W
	r.sched = vsched.Run(ch, maxSteps, true, func() {
		me := vsched.Cur()
		ww := &wrapped{r: r, cfg: cfg, sent: sent, closed: &closed}
		poll := time.Duration(0)
		if cfg.Poller {
			poll = time.Millisecond
			if cfg.LongPoll {
				poll = 300 * time.Millisecond
			}
		}
		var dw diode.Writer
		nalert := 0
		var alerter diode.Alerter = func(missed int) {
			vsched.Progress()
			r.alerts = append(r.alerts, missed)
			r.clock++
			r.alertAt = append(r.alertAt, r.clock)
			r.reported += missed
			vsched.Record("alert", 0, uint64(missed), true)
			if cfg.Reentrant && nalert < 3 {
				// "Dropped N messages" logged through the very writer that is alerting
				nalert++
				m := fmt.Sprintf("alert-%d|dropped", nalert)
				sent[m] = true
				vsched.Record("awrite-start", uint64(nalert), 0, true)
				r.clock++
				r.startAt[m] = r.clock
				dw.Write([]byte(m))
				vsched.Record("awrite-end", uint64(nalert), 0, true)
				r.written++
				r.returned[m] = true
			}
		}
		if cfg.NilAlert {
			alerter = nil
		}
		dw = diode.NewWriter(ww, cfg.Size, poll, alerter)
		done := 0
		for p := 0; p < cfg.P; p++ {
			p := p
			vsched.GoNamed("producer"+strconv.Itoa(p), func() {
				bufCap := 1024
				if cfg.BigCap {
					bufCap = 128 << 10
				}
				buf := make([]byte, 0, bufCap)
				for k := 0; k < cfg.W; k++ {
					buf = append(buf[:0], message(p, k, cfg)...)
					vsched.Record("write-start", uint64(p), uint64(k), true)
					r.clock++
					r.startAt[string(buf)] = r.clock
					dw.Write(buf)
					vsched.Record("write-end", uint64(p), uint64(k), true)
					vsched.Progress() // idle poll rounds count from the last returned Write
					r.written++
					r.returned[string(message(p, k, cfg))] = true
					for i := range buf { // the caller reuses its buffer, as zerolog does
						buf[i] = '#'
					}
				}
				done++
				r.producersDone++
			})
		}
		vsched.Block("join", func() bool { return done == cfg.P })
		if cfg.Writer == "blocks" {
			// producers all returned although the consumer is stuck inside the wrapped writer
			if cfg.LateWrite {
				vsched.GoNamed("closer-stuck", func() { dw.Close() }) // never returns: the consumer never does
				for i := 0; i < 6; i++ {
					vsched.Yield("let-close-start")
				}
				late := []byte("late|after Close was called")
				sent[string(late)] = true
				r.lateStarted = true
				vsched.Record("write-start", 99, 0, true)
				dw.Write(late)
				vsched.Record("write-end", 99, 0, true)
				r.lateReturned = true
			}
			return
		}
		if !cfg.Early {
			me.LowPrio = true
			vsched.WaitQuiescent()
			r.quiescentSeen = true
			r.qDelivered, r.qReported, r.qAlerts = len(r.delivered), r.reported, len(r.alerts)
			r.qUncovered, _ = r.uncovered(r.qDelivered, r.qAlerts)
			vsched.Record("quiescent", uint64(r.qDelivered), uint64(r.qReported), true)
		}
		if cfg.TwoClose {
			r.close2Started = true
			vsched.GoNamed("closer2", func() {
				dw.Close()
				r.c2Delivered, r.c2Reported, r.c2Written = len(r.delivered), r.reported, r.written
				r.close2Returned = true
				vsched.Record("close2-returned", uint64(r.c2Delivered), uint64(r.c2Reported), true)
			})
		}
		dw.Close()
		closed = true
		r.closeReturned = true
		r.insideAtClose = ww.inside > 0 && cfg.Writer != "goexit"
		vsched.Record("close-returned", 0, 0, true)
		if cfg.TwoClose {
			vsched.Block("join-closer2", func() bool { return r.close2Returned })
		}
	})
	// effective claim position of each message = last AddUint64 result inside its Write
	cur := map[int]string{}
	perWrite := map[string]int{}
	for _, e := range r.sched.Trace {
		switch e.Op {
		case "write-start":
			cur[e.T] = string(message(int(e.A), int(e.R), cfg))
		case "awrite-start":
			cur[e.T] = fmt.Sprintf("alert-%d|dropped", e.A)
		case "write-end", "awrite-end":
			delete(cur, e.T)
		case "AddUint64":
			if m, ok := cur[e.T]; ok {
				r.effPos[m] = e.R
				r.claimed++
				perWrite[m]++
				if e.R >= uint64(cfg.Size) {
					r.lapped = true
				}
			}
		}
	}
	for _, n := range perWrite {
		if n > 1 {
			r.retries += n - 1
		}
	}
	return r
}

// ---------------------------------------------------------------- oracles

type verdict struct {
	msg        string // "" = held
	known      string // id of a matching known finding ("" = none)
	nontrivial bool
}

// traceFacts derives what the known-finding signatures need from the history.
type traceFacts struct {
	abandoned        map[uint64]bool // claimed positions whose Set gave up (CAS failed or newer-bucket test) without filling them
	emptyBroadcast   bool            // a Set's Broadcast found no waiter after the consumer's last empty TryNext and before its Wait
	consumerWaits    bool            // consumer is parked in Cond.Wait at the end
	lastDeliveredPos int64
}

func facts(r *result, cfg Config) traceFacts {
	f := traceFacts{abandoned: map[uint64]bool{}, lastDeliveredPos: -1}
	// per producer thread: position claimed by the latest AddUint64; resolved by a successful CAS
	pending := map[int]uint64{}
	has := map[int]bool{}
	window, pendingBC := false, false
	consumer := -1
	for _, e := range r.sched.Trace {
		if e.Op == "quiescent" {
			break // the signatures describe the state at the quiescent observation point
		}
		switch e.Op {
		case "AddUint64":
			if has[e.T] {
				f.abandoned[pending[e.T]] = true
			}
			pending[e.T], has[e.T] = e.R, true
		case "CASPointer":
			if e.OK {
				has[e.T] = false
			}
		case "write-end", "awrite-end":
			if has[e.T] {
				f.abandoned[pending[e.T]] = true
				has[e.T] = false
			}
		case "SwapPointer":
			// a TryNext of the consumer starts here; whether it succeeded shows in what follows
			window, pendingBC = true, false
		case "Broadcast":
			if window && !e.OK && e.T != consumer {
				pendingBC = true
			}
		case "deliver":
			window, pendingBC = false, false
			f.consumerWaits, f.emptyBroadcast = false, false
		case "Wait":
			// the TryNext before this Wait came back empty
			f.consumerWaits = true
			f.emptyBroadcast = pendingBC
			window = false
		case "Lock":
			if f.consumerWaits && e.T == consumer {
				f.consumerWaits, f.emptyBroadcast = false, false // woke up
			}
		}
		if e.Op == "SwapPointer" || e.Op == "Wait" {
			consumer = e.T
		}
	}
	return f
}

func judge(cfg Config, r *result) verdict {
	v := verdict{}
	s := r.sched
	v.nontrivial = s.Preempt >= 1 && (r.lapped || r.retries > 0 || len(r.delivered) > 0 && r.written > 0)
	if len(s.Panics) > 0 {
		v.msg = "panic in the diode: " + s.Panics[0]
		return v
	}
	if cfg.NilAlert && prop != "C10" {
		// without an alerter the reported count is unobservable: only termination is judged
		if (r.quiescentSeen || cfg.Early) && r.producersDone == cfg.P && cfg.Writer != "blocks" && !r.closeReturned {
			v.msg = fmt.Sprintf("Close did not return (nil alerter; deadlock=%v, step bound hit=%v)", s.Deadlock, s.StepLimit)
		}
		return v
	}
	switch prop {
	case "C10":
		switch {
		case r.producersDone != cfg.P && (s.Deadlock || s.StepLimit):
			v.msg = fmt.Sprintf("only %d of %d producers returned from Write (deadlock=%v, step bound hit=%v)", r.producersDone, cfg.P, s.Deadlock, s.StepLimit)
		case r.lateStarted && !r.lateReturned:
			v.msg = "a Write issued while Close was pending behind a blocked wrapped writer did not return"
		case r.unknown != "":
			v.msg = fmt.Sprintf("wrapped writer received %q, which is not the argument of any Write", r.unknown)
		case r.mutated:
			v.msg = "a delivered buffer changed while the wrapped writer was still inside Write"
		case r.dupe != "":
			v.msg = fmt.Sprintf("message %q delivered twice", r.dupe)
		case r.overlap:
			v.msg = "two deliveries overlapped in the wrapped writer"
		}
		if v.msg == "" {
			last := int64(-1)
			for _, d := range r.delivered {
				p, ok := r.effPos[d]
				if !ok {
					continue
				}
				if int64(p) <= last {
					v.msg = fmt.Sprintf("message %q (ring position %d) delivered after position %d: reordered", trunc(d), p, last)
					break
				}
				last = int64(p)
			}
		}
		if v.msg == "" {
			sum := 0
			for _, a := range r.alerts {
				sum += a
				if a <= 0 {
					v.msg = fmt.Sprintf("alerter called with %d", a)
				}
			}
			if sum > r.claimed {
				v.msg = fmt.Sprintf("alerter reported %d missed messages but only %d ring positions were claimed", sum, r.claimed)
			}
		}
	case "C11":
		if cfg.Writer == "blocks" {
			return v
		}
		switch {
		case !r.closeReturned:
			// Close not returning is C12's finding; C11 judges the state after Close returned
			return v
		case r.afterClose > 0:
			v.msg = fmt.Sprintf("%d deliveries after Close returned", r.afterClose)
		case r.insideAtClose:
			v.msg = "Close returned while the wrapped writer was still inside Write: that message had not been delivered when Close returned"
		case r.close2Returned && r.c2Delivered+r.c2Reported < r.c2Written:
			v.msg = fmt.Sprintf("a second, concurrent Close returned with delivered %d + reported %d < written %d: messages still in the ring", r.c2Delivered, r.c2Reported, r.c2Written)
		case len(r.delivered)+r.reported < r.written:
			v.msg = fmt.Sprintf("after Close: delivered %d + reported %d < written %d (silent loss)", len(r.delivered), r.reported, r.written)
		case finalUncovered(r) != "":
			v.msg = fmt.Sprintf("after Close: message %q is neither delivered nor covered by a report made after its Write began (delivered %d, reported %d, written %d): silent loss", trunc(finalUncovered(r)), len(r.delivered), r.reported, r.written)
		case r.retries == 0 && len(r.delivered)+r.reported != r.written:
			v.msg = fmt.Sprintf("no producer retried, yet delivered %d + reported %d != written %d", len(r.delivered), r.reported, r.written)
		case cfg.P*cfg.W < cfg.Size && r.reported > 0 && r.retries == 0:
			v.msg = fmt.Sprintf("%d messages reported dropped although fewer messages (%d) than the ring size (%d) were ever outstanding", r.reported, cfg.P*cfg.W, cfg.Size)
		}
		v.nontrivial = s.Preempt >= 1 && (r.lapped || r.qDelivered < r.written)
	case "C12":
		if cfg.Writer == "blocks" {
			return v
		}
		if cfg.Writer == "goexit" {
			// the consumer goroutine was ended by the destination: nothing more can be delivered, but
			// Close must not wait for it forever
			if (r.quiescentSeen || cfg.Early) && r.producersDone == cfg.P && !r.closeReturned {
				v.msg = fmt.Sprintf("Close did not return after the destination ended the consumer goroutine with runtime.Goexit (deadlock=%v, step bound hit=%v)", s.Deadlock, s.StepLimit)
			}
			v.nontrivial = true
			return v
		}
		switch {
		case r.producersDone == cfg.P && !r.quiescentSeen && (s.Deadlock || s.StepLimit):
			v.msg = fmt.Sprintf("system never became quiescent after all Writes returned (deadlock=%v step bound=%v)", s.Deadlock, s.StepLimit)
		case r.quiescentSeen && r.qDelivered+r.qReported < r.written:
			v.msg = fmt.Sprintf("quiescent with nothing left to run, yet delivered %d + reported %d < written %d: a returned Write needs a later Write or Close to be delivered", r.qDelivered, r.qReported, r.written)
		case r.quiescentSeen && r.qUncovered != "":
			v.msg = fmt.Sprintf("quiescent with nothing left to run, yet message %q is neither delivered nor covered by a report made after its Write began (delivered %d, reported %d, written %d): a returned Write needs a later Write or Close to be delivered", trunc(r.qUncovered), r.qDelivered, r.qReported, r.written)
		case (r.quiescentSeen || cfg.Early) && r.producersDone == cfg.P && !r.closeReturned:
			v.msg = fmt.Sprintf("Close did not return (deadlock=%v, step bound hit=%v)", s.Deadlock, s.StepLimit)
		case cfg.Poller && s.MaxSleep > pollInterval(cfg):
			// the scheduler owns the clock, so "promptly" is judged by what the code asks for: in polling mode
			// a message waits at most one poll interval for the consumer to look; a consumer that decides to
			// sleep longer than the interval it was configured with (a back-off) breaks that bound
			v.msg = fmt.Sprintf("the poller asked to sleep %v although it was configured to poll every %v", s.MaxSleep, pollInterval(cfg))
		case r.closeReturned && !cfg.NilAlert && len(r.delivered)+r.reported < r.written:
			// every one of these Writes had returned before Close was called: each message reaches the
			// wrapped writer or the alerter, at the latest through Close (also judged by C11)
			v.msg = fmt.Sprintf("the system has come to rest after Close, yet delivered %d + reported %d < written %d: a returned Write reached neither the wrapped writer nor the alerter", len(r.delivered), r.reported, r.written)
		}
		v.nontrivial = s.Preempt >= 1
	}
	return v
}

func finalUncovered(r *result) string {
	m, _ := r.uncovered(len(r.delivered), len(r.alerts))
	return m
}

func pollInterval(cfg Config) time.Duration {
	if cfg.LongPoll {
		return 300 * time.Millisecond
	}
	return time.Millisecond
}

// ---------------------------------------------------------------- driving

func chooserFor(c *Case) vsched.Chooser {
	switch c.Kind {
	case "pct":
		return vsched.NewPCT(c.Seed, c.D, 60+40*c.Cfg.P*c.Cfg.W)
	case "dfs":
		return &replayChoices{c.Choices, 0}
	}
	return &vsched.Bytes{B: c.Bytes}
}

// replayChoices replays a recorded DFS schedule (option 0 = continue the current thread).
type replayChoices struct {
	c []int
	i int
}

func (r *replayChoices) Choose(step int, cands []*vsched.Thread, cur int) int {
	c := 0
	if r.i < len(r.c) {
		c = r.c[r.i]
	}
	r.i++
	if cur < 0 {
		if c >= len(cands) {
			c = 0
		}
		return c
	}
	if c == 0 {
		return cur
	}
	if c <= cur {
		return c - 1
	}
	if c >= len(cands) {
		return cur
	}
	return c
}

func failCase(t interface{ Fatalf(string, ...interface{}) }, c *Case, msg string) {
	ev.SaveReplay(prop+"-sched-"+os.Getenv("VERIF_JOB")+os.Getenv("VERIF_SHARD"), c)
	fmt.Printf("VERIF-FAIL: [%s] %s\n", c.Cfg, msg)
	t.Fatalf("[%s] %s", c.Cfg, msg)
}

func key(c *Case) []byte { b, _ := json.Marshal(c); return b }

// known findings: loaded from the committed file; a violation whose signature matches a
// listed finding is counted and not reported.
type knownEntry struct {
	ID, Property, Status, Signature string
}

var known = loadKnown()

func loadKnown() map[string]bool {
	out := map[string]bool{}
	b, err := os.ReadFile(os.Getenv("VERIF_ROOT") + "/known_findings.json")
	if err != nil {
		return out
	}
	var f struct {
		Findings []struct {
			ID       string `json:"id"`
			Property string `json:"property"`
			Status   string `json:"status"`
		} `json:"findings"`
	}
	json.Unmarshal(b, &f)
	for _, k := range f.Findings {
		if k.Status == "known" && k.Property == prop {
			out[k.ID] = true
		}
	}
	return out
}

// classify returns the id of the known finding a violation matches, or "".
func classify(cfg Config, r *result, v verdict) string {
	if v.msg == "" {
		return ""
	}
	f := facts(r, cfg)
	switch prop {
	case "C12":
		// KF-C12-1: lost wake-up — the consumer is parked in Cond.Wait, its next message is in the
		// ring, and a producer's Broadcast found no waiter between the consumer's last empty
		// TryNext and its Wait
		if known["KF-C12-1"] && !cfg.Poller && r.quiescentSeen && f.consumerWaits && f.emptyBroadcast {
			return "KF-C12-1"
		}
	}
	return ""
}

func checkCase(t interface{ Fatalf(string, ...interface{}) }, c *Case) {
	r := runOnce(c.Cfg, chooserFor(c), true)
	v := judge(c.Cfg, r)
	rec.Case(key(c), v.nontrivial, "cfg:"+c.Cfg.String(), "kind:"+c.Kind)
	if v.msg != "" {
		if id := classify(c.Cfg, r, v); id != "" {
			rec.Excluded(id)
			return
		}
		failCase(t, c, v.msg)
	}
}

func genConfig(rt *rapid.T, small bool) Config {
	c := Config{}
	if small {
		c.P = rapid.IntRange(0, 2).Draw(rt, "P")
		c.W = rapid.IntRange(1, 3).Draw(rt, "W")
		c.Size = rapid.IntRange(1, 3).Draw(rt, "size")
	} else {
		c.P = rapid.IntRange(1, 4).Draw(rt, "P")
		c.W = rapid.IntRange(1, 6).Draw(rt, "W")
		c.Size = rapid.IntRange(1, 8).Draw(rt, "size")
		if rapid.IntRange(0, 9).Draw(rt, "backlog") == 0 {
			c.W, c.Size = rapid.SampledFrom([]int{40, 65, 70}).Draw(rt, "bigW"), rapid.SampledFrom([]int{64, 100, 128}).Draw(rt, "bigsize")
		}
	}
	c.Poller = rapid.Bool().Draw(rt, "poller")
	c.LongPoll = c.Poller && rapid.IntRange(0, 2).Draw(rt, "longpoll") == 0
	c.Writer = rapid.SampledFrom([]string{"returns", "returns", "yields", "blocks"}).Draw(rt, "writer")
	if prop != "C10" && c.Writer == "blocks" {
		c.Writer = "yields"
	}
	c.Big = prop == "C10" && rapid.IntRange(0, 15).Draw(rt, "big") == 0
	c.Early = rapid.Bool().Draw(rt, "early") // for C10 too: Close racing the consumer must not change what is delivered, or how
	c.NilAlert = rapid.IntRange(0, 7).Draw(rt, "nilalert") == 0
	c.BigCap = prop == "C10" && rapid.IntRange(0, 5).Draw(rt, "bigcap") == 0
	if prop == "C12" && rapid.IntRange(0, 9).Draw(rt, "goexit") == 0 {
		c.Writer = "goexit"
	}
	c.LateWrite = c.Writer == "blocks" && rapid.Bool().Draw(rt, "latewrite")
	if c.Writer != "blocks" && rapid.IntRange(0, 3).Draw(rt, "errs") == 0 {
		c.Errs = rapid.SampledFrom([]string{"zero", "partial", "closed", "temporary"}).Draw(rt, "errkind")
	}
	c.TwoClose = (prop == "C11" || prop == "C12") && rapid.IntRange(0, 3).Draw(rt, "twoclose") == 0
	c.Reentrant = !c.NilAlert && rapid.IntRange(0, 4).Draw(rt, "reentrant") == 0
	return c
}

func TestRapidSchedules(t *testing.T) {
	rapid.Check(t, func(rt *rapid.T) {
		c := &Case{Cfg: genConfig(rt, rapid.Bool().Draw(rt, "small"))}
		if rapid.Bool().Draw(rt, "usepct") {
			c.Kind = "pct"
			c.Seed = rapid.Uint64().Draw(rt, "seed")
			c.D = rapid.IntRange(1, 3).Draw(rt, "d")
		} else {
			c.Kind = "bytes"
			c.Bytes = rapid.SliceOfN(rapid.Byte(), 0, 120).Draw(rt, "schedule")
		}
		if rapid.IntRange(0, 30).Draw(rt, "sample") == 0 {
			rec.Sample(c)
		}
		checkCase(rt, c)
	})
}

// dfsConfigs: configurations explored exhaustively up to a preemption bound.
func dfsConfigs() []struct {
	Cfg   Config
	Bound int
} {
	type cb = struct {
		Cfg   Config
		Bound int
	}
	var out []cb
	add := func(p, w, size, bound int) {
		for _, poller := range []bool{false, true} {
			out = append(out, cb{Config{P: p, W: w, Size: size, Poller: poller, Writer: "returns"}, bound})
		}
	}
	add(0, 0, 1, 2) // no Write at all: Close must still return
	add(0, 0, 2, 2)
	if ev.Thorough() {
		add(1, 1, 1, 3)
		add(1, 1, 2, 3)
		add(1, 2, 1, 3)
		add(2, 1, 1, 3)
		add(2, 2, 1, 2)
		add(2, 1, 2, 3)
		add(1, 3, 2, 3)
		add(2, 2, 2, 2)
		add(2, 2, 3, 2)
		add(3, 1, 2, 2)
		add(1, 3, 1, 3)
	} else {
		add(1, 1, 1, 2)
		add(1, 2, 1, 2)
		add(1, 1, 2, 2)
		add(2, 1, 1, 2)
		add(1, 3, 2, 2)
	}
	// a partial lap (the consumer held with one message while three more go into a ring of two), the
	// consumer catching up, then a fresh Write: stale buckets behind the read head, a message in front
	add(1, 5, 2, 2)
	out = append(out, cb{Config{P: 1, W: 3, Size: 1, Writer: "returns", NilAlert: true}, 2}, cb{Config{P: 1, W: 3, Size: 1, Poller: true, Writer: "returns", NilAlert: true}, 2})
	if prop == "C10" {
		out = append(out, cb{Config{P: 2, W: 1, Size: 1, Writer: "returns", BigCap: true}, 2})
	}
	if prop == "C11" || prop == "C12" {
		out = append(out, cb{Config{P: 1, W: 2, Size: 2, Writer: "returns", Early: true, TwoClose: true}, 2}, cb{Config{P: 1, W: 2, Size: 2, Poller: true, Writer: "returns", Early: true, TwoClose: true}, 2})
	}
	// a long poll interval, Close at any point
	out = append(out, cb{Config{P: 1, W: 2, Size: 2, Poller: true, LongPoll: true, Writer: "returns", Early: prop != "C10"}, 2}, cb{Config{P: 2, W: 1, Size: 2, Poller: true, LongPoll: true, Writer: "returns"}, 2})
	// a wrapped writer that reports failures: what it returns must not change what it is handed
	for _, ek := range []string{"zero", "partial", "closed", "temporary"} {
		out = append(out, cb{Config{P: 1, W: 3, Size: 4, Writer: "returns", Errs: ek}, 2}, cb{Config{P: 1, W: 3, Size: 4, Poller: true, Writer: "returns", Errs: ek}, 2})
	}
	// lapping with an alerter that writes to its own diode (waiter and poller)
	out = append(out, cb{Config{P: 1, W: 3, Size: 1, Writer: "returns", Reentrant: true}, 2}, cb{Config{P: 1, W: 3, Size: 1, Poller: true, Writer: "returns", Reentrant: true}, 2})
	if prop == "C11" || prop == "C12" {
		n := len(out)
		for i := 0; i < n; i++ {
			c := out[i]
			c.Cfg.Early = true
			out = append(out, c)
		}
	}
	if prop == "C11" || prop == "C12" {
		// a backlog of 70 messages in a ring of 128 when the consumer first looks (or Close arrives)
		out = append(out, cb{Config{P: 1, W: 70, Size: 128, Writer: "returns", Early: true}, 1}, cb{Config{P: 1, W: 70, Size: 128, Poller: true, Writer: "returns"}, 1})
	}
	if prop == "C11" {
		// ring sizes that are not powers of two, filled to one below the size before the consumer looks
		out = append(out, cb{Config{P: 1, W: 6, Size: 7, Writer: "returns", Early: true}, 1}, cb{Config{P: 1, W: 5, Size: 6, Poller: true, Writer: "returns", Early: true}, 1}, cb{Config{P: 2, W: 5, Size: 11, Writer: "returns", Early: true}, 1})
	}
	if prop == "C11" || prop == "C12" {
		// Close arriving while the consumer is inside the wrapped writer and the ring is full again behind it
		for _, poller := range []bool{false, true} {
			out = append(out, cb{Config{P: 1, W: 3, Size: 2, Poller: poller, Writer: "yields", Early: true}, 2}, cb{Config{P: 1, W: 4, Size: 3, Poller: poller, Writer: "yields", Early: true}, 2})
		}
	}
	if prop == "C11" && !ev.Thorough() {
		// two producers a lap apart on a ring of two, Close right behind them (in the thorough tier this
		// configuration is part of the general list)
		out = append(out, cb{Config{P: 2, W: 2, Size: 2, Poller: true, Writer: "returns", Early: true}, 2}, cb{Config{P: 2, W: 2, Size: 2, Writer: "returns", Early: true}, 2})
	}
	if prop == "C11" {
		// Close arriving while the consumer is inside the wrapped writer with the last message, the ring empty behind it
		for _, poller := range []bool{false, true} {
			out = append(out, cb{Config{P: 1, W: 1, Size: 1, Poller: poller, Writer: "yields", Early: true}, 2}, cb{Config{P: 1, W: 2, Size: 4, Poller: poller, Writer: "yields", Early: true}, 2})
		}
	}
	if prop == "C12" {
		// a destination that ends the consumer goroutine (runtime.Goexit, as t.FailNow does): Close returns all the same
		for _, poller := range []bool{false, true} {
			out = append(out, cb{Config{P: 1, W: 2, Size: 2, Poller: poller, Writer: "goexit"}, 2}, cb{Config{P: 1, W: 1, Size: 1, Poller: poller, Writer: "goexit", Early: true}, 2})
		}
	}
	if prop == "C10" {
		// Close while the consumer is inside the wrapped writer: still one delivery at a time, in order, once
		for _, poller := range []bool{false, true} {
			out = append(out, cb{Config{P: 1, W: 2, Size: 2, Poller: poller, Writer: "yields", Early: true}, 2}, cb{Config{P: 2, W: 1, Size: 2, Poller: poller, Writer: "yields", Early: true}, 2})
		}
	}
	if prop == "C10" {
		n := len(out)
		for i := 0; i < n && i < 4; i++ {
			c := out[i]
			c.Cfg.Writer = "blocks"
			c.Cfg.LateWrite = i%2 == 1
			out = append(out, c)
		}
	}
	return out
}

func TestDFS(t *testing.T) {
	cfgs := dfsConfigs()
	sh, nsh := ev.Shard()
	for i, cb := range cfgs {
		if i%nsh != sh {
			continue
		}
		d := &vsched.DFS{Bound: cb.Bound}
		var n, nt, excl int64
		for {
			d.Begin()
			r := runOnce(cb.Cfg, d, true)
			v := judge(cb.Cfg, r)
			n++
			if v.nontrivial {
				nt++
			}
			if v.msg != "" {
				if id := classify(cb.Cfg, r, v); id != "" {
					excl++
					rec.Excluded(id)
				} else {
					c := &Case{Cfg: cb.Cfg, Kind: "dfs", Choices: dfsChoices(d)}
					failCase(t, c, fmt.Sprintf("%s (DFS schedule #%d, preemption bound %d)", v.msg, n, cb.Bound))
				}
			}
			if !d.Next() {
				break
			}
		}
		rec.Bulk(n, nt, "dfs:"+cb.Cfg.String())
		rec.Exhaustive(fmt.Sprintf("%s: all %d schedules with <= %d preemptions", cb.Cfg, n, cb.Bound))
		rec.Sample(map[string]interface{}{"config": cb.Cfg, "preemption_bound": cb.Bound, "schedules": n, "excluded_known": excl})
	}
}

func dfsChoices(d *vsched.DFS) []int { return d.Choices() }

func TestReplay(t *testing.T) {
	f := os.Getenv("VERIF_REPLAY")
	if f == "" {
		t.Skip("no VERIF_REPLAY")
	}
	replayFile(t, f, false)
}

func replayFile(t *testing.T, f string, expectKnown bool) bool {
	b, err := os.ReadFile(f)
	if err != nil {
		t.Fatal(err)
	}
	var c Case
	if err := json.Unmarshal(b, &c); err != nil {
		t.Fatal(err)
	}
	rec.Case(b, true, "replay")
	rec.Case(append(b, 1), true, "replay")
	rec.Sample(json.RawMessage(b))
	r := runOnce(c.Cfg, chooserFor(&c), true)
	v := judge(c.Cfg, r)
	if os.Getenv("VERIF_TRACE") != "" {
		for _, e := range r.sched.Trace {
			fmt.Printf("TRACE t%d(%s) %-12s a=%x r=%x ok=%v\n", e.T, r.sched.Threads[e.T].Name, e.Op, e.A&0xffff, e.R&0xffffff, e.OK)
		}
		fmt.Printf("TRACE delivered=%d reported=%d written=%d deadlock=%v steplimit=%v\n", len(r.delivered), r.reported, r.written, r.sched.Deadlock, r.sched.StepLimit)
	}
	if expectKnown {
		return v.msg != ""
	}
	if v.msg != "" {
		failCase(t, &c, v.msg)
	}
	return false
}

// TestKnown re-runs the committed replay of every listed known finding of this property and
// prints KNOWN-REPRODUCED <id> when it still reproduces.
func TestKnown(t *testing.T) {
	root := os.Getenv("VERIF_ROOT")
	for id := range known {
		f := root + "/known/" + id + ".json"
		if _, err := os.Stat(f); err != nil {
			continue
		}
		if replayFile(t, f, true) {
			fmt.Printf("KNOWN-REPRODUCED %s\n", id)
		}
	}
}
