# Per-property job tables for ./check. Each job is one `go test` binary
# invocation (optionally sharded). See DESIGN.md §2.
NOT_APPLICABLE = {}
HOOK_COMMITS = []

T = lambda q, t: {"quick": q, "thorough": t}

LP_ASSUME = [
    "RawJSON / json.RawMessage / custom marshal results generated as valid one-line JSON (documented precondition)",
    "time layouts contain no quote, backslash or control characters; times within year 1..9999 (UnixNano range for UNIXMS/MICRO/NANO); DurationFieldUnit > 0",
    "programs are those of the LP language (DESIGN.md §3.1); settings are package globals so programs run sequentially per process",
    "trusted: Go toolchain/runtime, encoding/json, strconv, net, time as references; rapid; harness jsonref (cross-checked with encoding/json.Valid)",
]

PROPS = {
    "C01": {
        "jobs": [
            {"name": "rapid", "pkg": "./c01", "run": "^TestRapidPrograms$", "rapid": T(10000, 20000), "shards": T(1, 8), "replay": "^TestReplay$"},
            {"name": "trees", "pkg": "./c01", "run": "^TestRapidTrees$", "rapid": T(10000, 20000), "shards": T(1, 8)},
            {"name": "exhaustive", "pkg": "./c01", "run": "^(TestEmptyShapes|TestRegress)$"},
            {"name": "sigma", "pkg": "./c01", "run": "^TestSigmaExhaustive$", "shards": T(1, 16)},
        ],
        "assumptions": LP_ASSUME,
        "claim": {"ref": "DESIGN.md §5 C01", "technique": "property-based testing (rapid) over a logging-program language + exhaustive class-alphabet strings and empty shapes; oracle: independent strict RFC 8259/UTF-8/single-line validator",
                  "text": "Generated-input search: every Write of every generated logging program (chains and trees of derived loggers, every field type and entry point, all global settings) is validated by an independent strict JSON recogniser; plus exhaustive enumeration of class-alphabet strings and of all empty/nil shapes. Held on everything explored; absence is not established.",
                  "note": "Trusts Go toolchain, rapid, harness jsonref (cross-checked against encoding/json.Valid). Generator restricted to the statement's exclusions (valid RawJSON/custom marshal output, sane time layouts)."},
    },
    "C02": {
        "jobs": [
            {"name": "float32", "pkg": "./c02", "run": "^TestFloat32Sweep$", "shards": T(1, 16), "timeout": T(600, 3600)},
            {"name": "grids", "pkg": "./c02", "run": "^(TestIntegerBoundaries|TestTimeAndDurationGrid|TestRegress)$"},
            {"name": "sigma", "pkg": "./c02", "run": "^TestSigmaStrings$", "shards": T(1, 16)},
            {"name": "rapid-values", "pkg": "./c02", "run": "^TestRapidValues$", "rapid": T(4000, 30000), "shards": T(1, 8)},
            {"name": "rapid-programs", "pkg": "./c02", "run": "^TestRapidPrograms$", "rapid": T(3000, 20000), "shards": T(1, 8), "replay": "^TestReplay$"},
        ],
        "assumptions": LP_ASSUME + ["value equality is checked at FloatingPointPrecision -1 and with the default ErrorMarshalFunc (the statement's quantifier)"],
        "claim": {"ref": "DESIGN.md §5 C02", "technique": "bounded-exhaustive enumeration (float32 patterns, integer boundaries, class-alphabet strings, time/duration grids) + rapid; oracles: expected-value model built on encoding/json/strconv/time, raw-byte identity across entry points",
                  "text": "Generated-input search: each (type, value) is logged through every entry point that can carry it; every occurrence must match an independent expected-value model (encoding/json float text and round-trip, exact integers, U+FFFD text, time/duration per settings) and all occurrences must be byte-identical. float32 patterns are swept exhaustively in the thorough tier (stratified in quick). Held on everything explored.",
                  "note": "Trusts encoding/json, strconv, time, net as references. Value equality at FloatingPointPrecision -1 and default ErrorMarshalFunc; pre-1970 sub-unit instants under UNIXMS/MICRO accept truncation or floor."},
    },
    "C03": {
        "jobs": [
            {"name": "rapid", "pkg": "./c03", "run": "^TestRapidChains$", "rapid": T(10000, 30000), "shards": T(1, 8), "replay": "^TestReplay$"},
            {"name": "trees", "pkg": "./c03", "run": "^TestRapidTrees$", "rapid": T(15000, 30000), "shards": T(1, 8)},
            {"name": "regress", "pkg": "./c03", "run": "^TestRegress$"},
        ],
        "assumptions": LP_ASSUME + ["hooks of the LP language: add fields, discard, read GetCtx, no-op; wrapped directly, as HookFunc or as LevelHook"],
        "claim": {"ref": "DESIGN.md §5 C03", "technique": "property-based testing (rapid) over derivation chains/trees with unique keys; oracle: logger-tree reference model on the ordered key sequence + hook invocation log",
                  "text": "Generated-input search: derivation chains and trees (With/Hook/Level/Output/Sample/UpdateContext, Context.Timestamp/Caller) with hook lists and all finalizers; the emitted key sequence must equal the reference model's (level, context, event, hook fields, message) and the hook invocation log (id, level, message) must equal the model's. Held on everything explored.",
                  "note": "Trusts the harness's tree model (validated against 10^5 programs on the unchanged tree) and jsonref. Values other than level/message are C02's concern and are not compared here; unparseable lines are left to C01."},
    },
}
