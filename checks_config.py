# Per-property job tables for ./check. Each job is one `go test` binary
# invocation (optionally sharded). See DESIGN.md §2.
T = lambda q, t: {"quick": q, "thorough": t}

PROPS = {
    "C01": {
        "jobs": [
            {"name": "rapid", "pkg": "./c01", "run": "^TestRapidPrograms$", "rapid": T(3000, 20000), "shards": T(1, 16), "replay": "^TestReplay$"},
        ],
        "assumptions": [
            "RawJSON / json.RawMessage / custom marshal results generated as valid one-line JSON (documented precondition)",
            "time layouts contain no quote, backslash or control characters (stated exclusion)",
            "encoding/json.Valid used only as a cross-check of the harness's own strict validator",
        ],
    },
}
