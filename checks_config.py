# Per-property job tables for ./check. Each job is one `go test` binary
# invocation (optionally sharded). See DESIGN.md §2.
NOT_APPLICABLE = {}
HOOK_COMMITS = ["3aa21f2"]

T = lambda q, t: {"quick": q, "thorough": t}

LP_ASSUME = [
    "RawJSON / json.RawMessage / custom marshal results generated as valid one-line JSON (documented precondition)",
    "time layouts contain no quote, backslash or control characters; times within year 1..9999 (UnixNano range for UNIXMS/MICRO/NANO); DurationFieldUnit > 0",
    "programs are those of the LP language (DESIGN.md §3.1); settings are package globals so programs run sequentially per process",
    "trusted: Go toolchain/runtime, encoding/json, strconv, net, time as references; rapid; harness jsonref (cross-checked with encoding/json.Valid)",
]

PROPS = {
    "C01": {
        "jobs": [
            {"name": "rapid", "pkg": "./c01", "run": "^TestRapidPrograms$", "rapid": T(10000, 100000), "shards": T(1, 16), "replay": "^TestReplay$"},
            {"name": "trees", "pkg": "./c01", "run": "^TestRapidTrees$", "rapid": T(10000, 100000), "shards": T(1, 16)},
            {"name": "exhaustive", "pkg": "./c01", "run": "^(TestEmptyShapes|TestRegress)$"},
            {"name": "sigma", "pkg": "./c01", "run": "^TestSigmaExhaustive$", "shards": T(1, 16)},
            {"name": "fuzz", "pkg": "./c01", "run": "^FuzzPrograms$", "fuzz": "^FuzzPrograms$", "fuzztime": T(0, 180), "thorough_only": True, "timeout": T(600, 3600)},
        ],
        "assumptions": LP_ASSUME,
        "claim": {"ref": "DESIGN.md §5 C01", "technique": "property-based testing (rapid) over a logging-program language + exhaustive class-alphabet strings and empty shapes; oracle: independent strict RFC 8259/UTF-8/single-line validator",
                  "text": "Generated-input search: every Write of every generated logging program (chains and trees of derived loggers, every field type and entry point, all global settings) is validated by an independent strict JSON recogniser; plus exhaustive enumeration of class-alphabet strings and of all empty/nil shapes. Held on everything explored; absence is not established.",
                  "note": "Trusts Go toolchain, rapid, harness jsonref (cross-checked against encoding/json.Valid). Generator restricted to the statement's exclusions (valid RawJSON/custom marshal output, sane time layouts)."},
    },
    "C02": {
        "jobs": [
            {"name": "float32", "pkg": "./c02", "run": "^TestFloat32Sweep$", "shards": T(1, 16), "timeout": T(600, 3600)},
            {"name": "grids", "pkg": "./c02", "run": "^(TestIntegerBoundaries|TestTimeAndDurationGrid|TestFloat64Stratified|TestRegress)$"},
            {"name": "sigma", "pkg": "./c02", "run": "^TestSigmaStrings$", "shards": T(1, 16)},
            {"name": "rapid-values", "pkg": "./c02", "run": "^TestRapidValues$", "rapid": T(4000, 100000), "shards": T(1, 16)},
            {"name": "rapid-programs", "pkg": "./c02", "run": "^TestRapidPrograms$", "rapid": T(3000, 60000), "shards": T(1, 16), "replay": "^TestReplay$"},
        ],
        "assumptions": LP_ASSUME + ["value equality is checked at FloatingPointPrecision -1 and with the default ErrorMarshalFunc (the statement's quantifier)"],
        "claim": {"ref": "DESIGN.md §5 C02", "technique": "bounded-exhaustive enumeration (float32 patterns, integer boundaries, class-alphabet strings, time/duration grids) + rapid; oracles: expected-value model built on encoding/json/strconv/time, raw-byte identity across entry points",
                  "text": "Generated-input search: each (type, value) is logged through every entry point that can carry it; every occurrence must match an independent expected-value model (encoding/json float text and round-trip, exact integers, U+FFFD text, time/duration per settings) and all occurrences must be byte-identical. float32 patterns are swept exhaustively in the thorough tier (stratified in quick). Held on everything explored.",
                  "note": "Trusts encoding/json, strconv, time, net as references. Value equality at FloatingPointPrecision -1 and default ErrorMarshalFunc; pre-1970 sub-unit instants under UNIXMS/MICRO accept truncation or floor."},
    },
    "C03": {
        "jobs": [
            {"name": "rapid", "pkg": "./c03", "run": "^TestRapidChains$", "rapid": T(10000, 150000), "shards": T(1, 16), "replay": "^TestReplay$"},
            {"name": "trees", "pkg": "./c03", "run": "^TestRapidTrees$", "rapid": T(15000, 150000), "shards": T(1, 16)},
            {"name": "regress", "pkg": "./c03", "run": "^TestRegress$"},
            {"name": "write-entry", "pkg": "./c03", "run": "^TestWriteEntryPoint$", "rapid": T(3000, 50000)},
        ],
        "assumptions": LP_ASSUME + ["hooks of the LP language: add fields, discard, read GetCtx, no-op; wrapped directly, as HookFunc or as LevelHook"],
        "claim": {"ref": "DESIGN.md §5 C03", "technique": "property-based testing (rapid) over derivation chains/trees with unique keys; oracle: logger-tree reference model on the ordered key sequence + hook invocation log",
                  "text": "Generated-input search: derivation chains and trees (With/Hook/Level/Output/Sample/UpdateContext, Context.Timestamp/Caller) with hook lists and all finalizers; the emitted key sequence must equal the reference model's (level, context, event, hook fields, message) and the hook invocation log (id, level, message) must equal the model's. Held on everything explored.",
                  "note": "Trusts the harness's tree model (validated against 10^5 programs on the unchanged tree) and jsonref. Values other than level/message are C02's concern and are not compared here; unparseable lines are left to C01."},
    },
    "C08": {
        "aux_builds": {"lpexec": {"pkg": "./tools/lpexec", "tags": "verif", "env": "VERIF_LPEXEC"}},
        "jobs": [
            {"name": "rapid", "pkg": "./c08", "tags": "binary_log verif", "run": "^TestRapidPrograms$", "rapid": T(4000, 60000), "shards": T(2, 16), "replay": "^TestReplay$"},
            {"name": "alignment", "pkg": "./c08", "tags": "binary_log verif", "run": "^TestBoundaryAlignment$"},
            {"name": "trees", "pkg": "./c08", "tags": "binary_log verif", "run": "^TestRapidTrees$", "rapid": T(3000, 60000), "shards": T(2, 16)},
            {"name": "regress", "pkg": "./c08", "tags": "binary_log verif", "run": "^TestRegress$"},
            {"name": "concurrent-decode", "pkg": "./c17", "tags": "binary_log verif", "run": "^TestRapidConcurrentDecode$", "rapid": T(300, 6000), "shards": T(1, 8)},
        ],
        "assumptions": LP_ASSUME + ["both builds are compiled from /repo's current working tree; the JSON build runs as a co-process (harness/tools/lpexec)",
                                    "generator restricted to the classes the statement names (precision -1, 4/16-byte IPs, 6-byte MACs, minute-resolution zones, sub-second instants within +-2^32 s)"],
        "claim": {"ref": "DESIGN.md §5 C08", "technique": "differential property-based testing (rapid): the same generated logging program runs under both build tags; decoded CBOR is compared value-wise with the JSON build's line",
                  "text": "Generated-input search with a differential oracle: each generated program is executed in the binary_log build (CBOR -> bundled decoder -> JSON text, which must itself be one valid JSON line) and in a co-process built from the same tree without the tag; keys must agree in order and values must be equal as decoded values (integers exactly, floats to the same float, text after unescaping, timestamps within 1 microsecond); the generated programs also run as a GOARCH=386 build of both sides. Held on everything explored (one genuine defect found this way was repaired: D15, negative integers cut to 32 bits by the decoder on 32-bit platforms).",
                  "note": "Trusts the harness comparator (time-equivalence is tried only where the two sides differ textually), jsonref, the Go time package."},
    },
    "C09": {
        "jobs": [
            {"name": "concurrent", "pkg": "./c09", "tags": "binary_log verif", "run": "^TestConcurrentPrograms$", "rapid": T(600, 12000), "shards": T(2, 16)},
            {"name": "concurrent-race", "pkg": "./c09", "tags": "binary_log verif", "race": True, "run": "^TestConcurrentPrograms$", "rapid": T(150, 3000), "shards": T(2, 16)},
            {"name": "rapid", "pkg": "./c09", "tags": "binary_log verif", "run": "^TestRapidPrograms$", "rapid": T(6000, 100000), "shards": T(1, 16), "replay": "^TestReplay$"},
            {"name": "trees", "pkg": "./c09", "tags": "binary_log verif", "run": "^TestRapidTrees$", "rapid": T(4000, 100000), "shards": T(1, 16)},
            {"name": "boundaries", "pkg": "./c09", "tags": "binary_log verif", "run": "^(TestBoundaries|TestRegress)$"},
        ],
        "assumptions": LP_ASSUME + ["NaN payloads are not required to survive (zerolog writes the canonical NaN); nil may be CBOR null or embedded JSON null"],
        "claim": {"ref": "DESIGN.md §5 C09", "technique": "property-based testing (rapid) + boundary-exhaustive grid under -tags binary_log; oracle: independent RFC 8949 parser + expected-value model in zerolog's CBOR representation",
                  "text": "Generated-input search: every Write of every generated program under binary_log must parse, with an independent RFC 8949 parser, as exactly one indefinite-length map with text keys, an even item count, matching nested lengths, no reserved additional information and no trailing bytes; the value tree must equal the expected-value model (exact integers, bit-exact floats, tags 1/260/261/262/263/63). A boundary grid covers both sides of every 23/24, 255/256, 65535/65536 length/count and every integer width boundary. Held on everything explored.",
                  "note": "Trusts harness cborref parser (written for this purpose, shares no code with internal/cbor) and the expected-value model."},
    },
}

PROPS["C05"] = {
    "jobs": [
        {"name": "trees", "pkg": "./c05", "run": "^TestRapidTrees$", "rapid": T(20000, 120000), "shards": T(2, 16), "replay": "^TestReplay$"},
        {"name": "regress", "pkg": "./c05", "run": "^(TestRegress|TestKnown)$"},
        {"name": "context-branch", "pkg": "./c05", "run": "^TestContextBranchProbe$", "rapid": T(2000, 20000)},
        {"name": "concurrent-trees", "pkg": "./c05", "run": "^TestConcurrentTrees$", "rapid": T(1500, 30000), "shards": T(2, 16)},
        {"name": "concurrent-trees-race", "pkg": "./c05", "race": True, "run": "^TestConcurrentTrees$", "rapid": T(300, 6000), "shards": T(2, 16)},
    ],
    "assumptions": LP_ASSUME + ["UpdateContext only on a logger just produced by With() and not yet derived from (documented caution)",
                                "branching happens at Logger values; two loggers derived from one intermediate Context value are probed separately (KF-C05-1)"],
    "claim": {"ref": "DESIGN.md §5 C05", "technique": "property-based testing (rapid) over derivation trees with interleaved derivations/events/open events; oracle: logger-tree reference model per destination incl. Go context seen through GetCtx",
              "text": "Generated-input search: trees of derived loggers are built and used in generated orders (derivations interleaved with events through any node, several events open at once); every event must carry exactly the context fields, hook fields, level gate, sampler decisions, stack flag and Go context of its own derivation path, per destination. Held on everything explored.",
              "note": "Sequential histories are deterministic (pool state is scrubbed before each program). Concurrent use of different nodes is exercised by the race-mode job only on schedules the Go runtime produces."},
}

GiB = 1 << 30
PROPS["C17"] = {
    "jobs": [
        {"name": "headers", "pkg": "./c17", "tags": "binary_log verif", "run": "^TestExhaustiveHeaders$", "shards": T(2, 16), "rlimit_as": 12 * GiB, "death_is_violation": True, "timeout": T(600, 3600)},
        {"name": "structured", "pkg": "./c17", "tags": "binary_log verif", "run": "^TestRapidStructured$", "rapid": T(6000, 150000), "shards": T(2, 16), "rlimit_as": 12 * GiB, "death_is_violation": True, "replay": "^TestReplay$"},
        {"name": "mutations", "pkg": "./c17", "tags": "binary_log verif", "run": "^TestRapidMutations$", "rapid": T(4000, 100000), "shards": T(2, 16), "rlimit_as": 12 * GiB, "death_is_violation": True},
        {"name": "cuts", "pkg": "./c17", "tags": "binary_log verif", "run": "^(TestRapidCutPoints|TestRegress)$", "rapid": T(600, 3000), "shards": T(2, 16), "rlimit_as": 12 * GiB},
        {"name": "concurrent", "pkg": "./c17", "tags": "binary_log verif", "run": "^TestRapidConcurrentDecode$", "rapid": T(300, 6000), "shards": T(1, 8)},
        {"name": "concurrent-race", "pkg": "./c17", "tags": "binary_log verif", "race": True, "run": "^TestRapidConcurrentDecode$", "rapid": T(100, 2000), "shards": T(1, 8)},
        {"name": "fuzz", "pkg": "./c17", "tags": "binary_log verif", "run": "^FuzzDecoder$", "fuzz": "^FuzzDecoder$", "fuzztime": T(0, 240), "thorough_only": True, "rlimit_as": 0, "timeout": T(600, 3600)},
    ],
    "assumptions": ["allocation is measured per call with runtime/metrics as a screen and runtime.ReadMemStats (exact) when the screen exceeds the bound; bound = 64 KiB + 64 x len(input), deliberately loose",
                    "valid streams are produced by the binary_log logger itself from generated logging programs",
                    "a process death (out of memory) while decoding is reported as a violation with the in-flight input as replay; the job runs under RLIMIT_AS=12GiB"],
    "claim": {"ref": "DESIGN.md §5 C17", "technique": "exhaustive header enumeration + structure-aware rapid generation + mutation of valid streams + exhaustive cut points (+ native go fuzzing in thorough); oracle: no escaping panic, allocation bound, prefix stability",
              "text": "Generated-input search over byte strings: every 1-2 byte string (and every 3-byte string in thorough) alone and before a valid event; structure-aware malformed CBOR (lying lengths, reserved additional info, misplaced breaks, wrong tag content, deep nesting); mutated logger output; and every cut offset of generated valid streams. Each call must return without any panic escaping, allocate no more than 64 KiB + 64 x input, decode all whole events of a prefix exactly as in the full stream and report a partial trailing event as an error. Held on everything explored.",
              "note": "Trusts Go runtime memory statistics, cborref (classification only). Native fuzzing cannot be seeded; its saved inputs are the reproducible unit."},
}

PROPS["C04"] = {
    "jobs": [
        {"name": "grid", "pkg": "./c04", "run": "^(TestLevelGrid)$", "shards": T(4, 16), "timeout": T(600, 3600)},
        {"name": "named", "pkg": "./c04", "run": "^(TestNamedMethods|TestLevelText|TestPanicBehaviour|TestFatalBehaviour|TestLevelsThroughTriggerWriter)$"},
        {"name": "random", "pkg": "./c04", "run": "^TestRandomTriples$", "rapid": T(50000, 2000000)},
        {"name": "inert", "pkg": "./c04", "run": "^TestFilteredEventsInert$", "rapid": T(20000, 300000), "shards": T(1, 16)},
        {"name": "inert-all", "pkg": "./c04", "run": "^TestFilteredEventsInertAllMethods$", "rapid": T(15, 200), "replay": "^TestReplay$"},
        {"name": "gate-concurrent", "pkg": "./c04", "run": "^TestGateUnderConcurrentGlobalChanges$", "rapid": T(40, 600), "shards": T(1, 4)},
        {"name": "gate-concurrent-race", "pkg": "./c04", "race": True, "run": "^TestGateUnderConcurrentGlobalChanges$", "rapid": T(15, 200), "shards": T(1, 4)},
    ],
    "assumptions": ["the global level is process state: jobs run in separate processes and restore TraceLevel",
                    "Fatal paths are observed by re-executing the test binary (exit status and output)",
                    "a filtered event is the nil *Event returned by the level methods / Discard(); a non-nil event kept after Discard() is not covered by the statement"],
    "claim": {"ref": "DESIGN.md §5 C04", "technique": "exhaustive enumeration of the level grid + reflection-driven property-based testing of every *Event method on filtered events + re-exec for Fatal; oracle: iff-formula, call counters",
              "text": "Generated-input search: the (logger, global, event) level grid is enumerated (all 256^3 in thorough) against the iff-formula, with a call-recording sampler (never consulted when a gate rejects); every exported *Event method found by reflection is invoked, with instrumented arguments, on filtered events of six origins and must neither panic, nor call back, nor write, nor return a live event; Level text forms round-trip for all 256 levels; Panic/Fatal/WithLevel(Panic|Fatal) behaviour is observed directly (Fatal in a re-executed child). Held on everything explored.",
              "note": "Trusts reflect and os/exec. Methods added to *Event later are picked up automatically; an argument type without a generator makes the check inconclusive, not green."},
}

PROPS["C13"] = {
    "jobs": [
        {"name": "exhaustive", "pkg": "./c13", "run": "^(TestExhaustiveBurst|TestExhaustiveBasic)$", "shards": T(4, 16), "timeout": T(600, 3600)},
        {"name": "long-lived", "pkg": "./c13", "run": "^(TestLongLivedBasic|TestCounterWrap|TestDeepChains|TestCopiedSamplers)$"},
        {"name": "compositions", "pkg": "./c13", "run": "^TestRapidCompositions$", "rapid": T(20000, 250000), "shards": T(1, 16), "replay": "^TestReplay$"},
        {"name": "logger", "pkg": "./c13", "run": "^TestRapidThroughLogger$", "rapid": T(10000, 100000), "shards": T(1, 16)},
        {"name": "concurrent", "pkg": "./c13", "run": "^TestConcurrentBasic$", "rapid": T(300, 3000), "shards": T(1, 4)},
        {"name": "concurrent-race", "pkg": "./c13", "race": True, "run": "^TestConcurrentBasic$", "rapid": T(60, 600)},
    ],
    "assumptions": ["clock readings are >= the epoch (TimestampFunc is replaced by a scripted clock)",
                    "the concurrent BasicSampler job sees only interleavings the Go scheduler produces (16 goroutines x up to 3000 calls); the race detector job covers unsynchronised access"],
    "claim": {"ref": "DESIGN.md §5 C13", "technique": "bounded-exhaustive enumeration of short call histories + property-based testing (rapid) of sampler compositions against a reference sampler model; concurrent count check",
              "text": "Generated-input search: all call histories up to length 5 (7 in thorough) over a 7-tick clock alphabet for every Burst/Period/NextSampler combination, BasicSampler prefix counts, random nested compositions (Burst->Burst->Basic, LevelSampler slots) with non-monotonic clocks, and the same behind a Logger with level gates, global level and DisableSampling toggles, are compared call by call with a reference model. Concurrently, G goroutines sharing one BasicSampler must admit exactly ceil(sum k/N). Held on everything explored.",
              "note": "The sequential part is deterministic. Goroutine interleavings are those the runtime happens to produce (plus -race); absence of a rare bad interleaving is not established."},
}

PROPS["C14"] = {
    "jobs": [
        {"name": "exhaustive", "pkg": "./c14", "run": "^TestExhaustive$", "shards": T(4, 16), "timeout": T(600, 3600)},
        {"name": "rapid", "pkg": "./c14", "run": "^TestRapid$", "rapid": T(15000, 300000), "shards": T(1, 16), "replay": "^TestReplay$"},
    ],
    "assumptions": ["every MultiLevelWriter (also nested) has at least one destination", "ErrorHandler is a package global: cases run sequentially"],
    "claim": {"ref": "DESIGN.md §5 C14", "technique": "bounded-exhaustive enumeration of (destination kind, event level, per-destination outcome) + property-based testing (rapid) incl. nested MultiLevelWriter; oracle: fan-out reference model + ErrorHandler log",
              "text": "Generated-input search: for every combination of up to 3 destinations (plain, LevelWriter, FilteredLevelWriter), up to 2 events (3 in thorough) at 3 levels and every per-(destination,event) outcome in {ok, error, short write}, and for random larger/nested configurations, each destination must receive exactly its events once, in order, byte-identical and with their level; the logging call must return; ErrorHandler must be called exactly once per failing event with the first failing destination's error (io.ErrShortWrite for a short write) and not otherwise. Held on everything explored.",
              "note": "Deterministic. The model numbers nested destinations depth-first."},
}
PROPS["C15"] = {
    "jobs": [
        {"name": "exhaustive", "pkg": "./c15", "run": "^TestExhaustive$", "shards": T(4, 16), "timeout": T(600, 3600)},
        {"name": "level-sweep", "pkg": "./c15", "run": "^TestLevelSweep$", "timeout": T(600, 600)},
        {"name": "rapid", "pkg": "./c15", "run": "^TestRapid$", "rapid": T(8000, 150000), "shards": T(2, 16), "replay": "^TestReplay$"},
        {"name": "faults", "pkg": "./c15", "run": "^TestRapidFaults$", "rapid": T(6000, 150000), "shards": T(1, 8), "replay": "^TestReplay$"},
        {"name": "concurrent", "pkg": "./c15", "run": "^TestConcurrent$", "rapid": T(400, 4000), "shards": T(1, 4)},
        {"name": "concurrent-race", "pkg": "./c15", "race": True, "run": "^TestConcurrent$", "rapid": T(100, 1000)},
    ],
    "assumptions": ["levels other than 10 (the separator byte); lines end in exactly one newline and contain no other",
                    "Close ends the held set (documented: held lines of an untriggered writer are never written) and leaves the trigger latch",
                    "concurrent job: interleavings the Go scheduler produces, plus -race"],
    "claim": {"ref": "DESIGN.md §5 C15", "technique": "bounded-exhaustive enumeration of short histories + rapid state sequences against a TriggerLevelWriter reference model; concurrent multiset/order check with overlap detector",
              "text": "Generated-input search: every history up to length 5 (6 in thorough) over {write at 4 levels, Trigger, Close, fresh instance} for 25 threshold pairs and both destination kinds, plus random histories over the whole int8 level range with lines crossing the pooled-buffer sizes and several instances in sequence (pool hand-over), must leave the destination equal to the model after every step. Concurrent writers must lose, duplicate or alter no line, keep per-goroutine order and never overlap in the destination. In fault histories (the destination refuses chosen calls) the accepted lines must be a subsequence of the fault-free delivery (nothing twice, altered, reordered or invented). Held on everything explored.",
              "note": "Sequential part deterministic; concurrent part limited to runtime-produced interleavings."},
}

PROPS["C19"] = {
    "jobs": [
        {"name": "product", "pkg": "./c19", "run": "^(TestExhaustiveProduct|TestSplitLines|TestWriteFromPackageNamedLog|TestDeepWrappers)$", "timeout": T(600, 3600)},
        {"name": "sequences", "pkg": "./c19", "run": "^TestRapidSequences$", "rapid": T(5000, 150000), "shards": T(1, 16), "replay": "^TestReplay$"},
    ],
    "assumptions": ["the expected site is captured by runtime.Callers on the same source line as the statement under test (the generated call sites are one line each and gofmt-stable)",
                    "CallerMarshalFunc is the default (file:line); std-library log.Logger writing through Logger.Write is outside the statement (its frame is inside package log)"],
    "claim": {"ref": "DESIGN.md §5 C19", "technique": "exhaustive enumeration of a generated product of call sites x mechanisms x skips x wrapper depths x hook arrangements + rapid sequences on shared loggers; oracle: runtime.Callers captured on the same source line",
              "text": "Generated-input search: 722 generated call sites (17 entry points x 6 finalizers x Event/Context caller mechanisms, the Print family on a Logger and in package log, direct Logger.Write) are executed through 0..3 (0..5 thorough) wrapper frames with skips 0..3 (0..5), under Context.Caller, CallerWithSkipFrameCount(2+j) and a global CallerSkipFrameCount of 2+j, with other hooks before/after; the caller field must be exactly one and equal the frame the oracle captured. Sequences on shared loggers check that pooled events do not inherit skip counts. Held on everything explored.",
              "note": "Trusts runtime.Callers/CallersFrames. Skips deeper than the harness's own stack are not cases."},
}

PROPS["C18"] = {
    "jobs": [
        {"name": "proxy", "pkg": "./c18", "run": "^(TestProxyExhaustive)$", "timeout": T(600, 3600)},
        {"name": "proxy-huge", "pkg": "./c18", "run": "^TestProxyHuge$"},
        {"name": "proxy-rapid", "pkg": "./c18", "run": "^TestProxyRapid$", "rapid": T(10000, 300000), "shards": T(1, 16), "replay": "^TestReplay$"},
        {"name": "isolation", "pkg": "./c18", "run": "^TestIsolation$", "rapid": T(400, 6000), "shards": T(2, 16)},
        {"name": "isolation-race", "pkg": "./c18", "race": True, "run": "^TestIsolation$", "rapid": T(120, 800), "shards": T(1, 4)},
    ],
    "assumptions": ["requests are served by direct ServeHTTP calls from goroutines and held in flight together by a barrier in the innermost handler",
                    "Tee is not part of the quantified call alphabet; Flush only after the header was sent",
                    "isolation jobs see the interleavings the Go scheduler produces (barrier-maximised overlap) plus -race"],
    "claim": {"ref": "DESIGN.md §5 C18", "technique": "bounded-exhaustive enumeration of ResponseWriter call sequences against a proxy accounting model + rapid-generated handler chains with concurrent in-flight requests (per-request value model, -race)",
              "text": "Generated-input search: (a) every call sequence up to length 4 (5 thorough) over WriteHeader/Write/ReadFrom/Flush on the AccessHandler proxy, over three capability sets and four byte-acceptance scripts of the underlying writer, and random longer sequences, must report (first WriteHeader | 200 if body first | 0, bytes the underlying writer accepted); (b) 2..16 (64 thorough) concurrent requests with pairwise distinct attributes through NewHandler + a generated subset/order of all 15 field handlers + AccessHandler must each log exactly their own values, with the base logger emitting the same probe event before and after. Held on everything explored.",
              "note": "Proxy part deterministic. Isolation part limited to runtime-produced interleavings with all requests in flight, plus the race detector."},
}

PROPS["C07"] = {
    "jobs": [
        {"name": "json", "pkg": "./c07", "run": "^(TestRapidChains|TestEachFamily|TestSizeSweep)$", "rapid": T(3000, 150000), "shards": T(1, 8), "replay": "^TestReplay$"},
        {"name": "cbor", "pkg": "./c07", "tags": "binary_log verif", "run": "^(TestRapidChains|TestEachFamily|TestSizeSweep)$", "rapid": T(3000, 150000), "shards": T(1, 8), "replay": "^TestReplay$"},
    ],
    "assumptions": ["testing.AllocsPerRun(100, chain) integer-averages: a path allocating less than once per 100 events is not seen",
                    "all arguments (slices, errors, boxed values, closures, marshalers) exist before the measured function; the race detector is off"],
    "claim": {"ref": "DESIGN.md §5 C07", "technique": "property-based testing (rapid) of chains over the allocation-free method set in both builds; oracle: testing.AllocsPerRun == 0 and no write when filtered",
              "text": "Generated-input search: random chains of 1..8 steps (nested Dict/Array/Object/Func to depth 2) over exactly the method families the statement lists, on bare/context/timestamp-hook/level-filtered/Nop loggers, finalised by Msg or Send, are measured with testing.AllocsPerRun(100) in the JSON and the binary_log build; additionally every family alone x 12 values x 6 logger kinds. Zero allocations are required, and zero writes for filtered loggers. Held on everything explored.",
              "note": "Measurement trusts the Go runtime's allocation counter. Arr().Dict(d) (not in the statement's method list) is not generated."},
}

PROPS["C16"] = {
    "jobs": [
        {"name": "rapid", "pkg": "./c16", "run": "^TestRapidEvents$", "rapid": T(6000, 200000), "shards": T(1, 16), "replay": "^TestReplay$"},
        {"name": "directed", "pkg": "./c16", "run": "^(TestDirected|TestRegress)$"},
    ],
    "assumptions": LP_ASSUME + ["NoColor, default formatters; PartsOrder is a permutation of a subset of the four standard parts",
                                "colour: with NO_COLOR set the bytes must equal the NoColor rendering; with colour on, the line must equal the NoColor rendering once SGR sequences are removed and runs of spaces squeezed (an empty part still takes a separator when wrapped in colour codes), judged only for events without escape characters",
                                "field names configured through the globals are valid UTF-8 (otherwise no decoded key can equal them)",
                                "names and the message are printed verbatim, so 'one line' is checked as: exactly the reference text followed by one newline",
                                "the parts prefix is compared exactly only when every configured part is present with its usual type (placeholders for absent parts are unspecified)"],
    "claim": {"ref": "DESIGN.md §5 C16", "technique": "property-based testing (rapid): events produced by the JSON logger from generated programs x generated ConsoleWriter options; oracle: reference renderer (fields section always, parts prefix for well-typed events), determinism",
              "text": "Generated-input search: each event emitted for a generated logging program (every value type, nesting, duplicate keys, keys equal to part names, the empty key) is rendered under generated PartsOrder/PartsExclude/FieldsOrder/FieldsExclude/TimeFormat/TimeLocation/TimeFieldFormat; Write must return (len, nil); the fields section must equal the reference (error first then lexical, or FieldsOrder first then lexical with the error field once anywhere; strings verbatim or strconv.Quote'd by the stated byte classes; numbers with their exact digits; other values as encoding/json's compact form of the decoded value); the parts prefix must equal the reference when all configured parts are well-typed; rendering twice must give identical bytes. Held on everything explored.",
              "note": "Trusts encoding/json (decoding and compact marshalling), strconv.Quote, time. The share of fully checked events is reported in the evidence notes."},
}

SCHED_ASSUME = ["the real diode sources are rewritten at check time (harness/tools/instrument) so that sync, sync/atomic, go, blocking receive, time.Sleep and select-with-default go through the cooperative scheduler in sched/; the rewrite is re-applied to /repo's current tree on every run",
                "vsync.Mutex/Cond/Pool model the documented semantics of package sync (Pool as a LIFO stack); the Go runtime's own implementation of these is trusted",
                "poller quiescence = two consecutive idle poll rounds without delivery; a sleeping thread becomes runnable when another thread stepped or nothing else can run",
                "a step bound hit or an instrumentation failure is inconclusive (exit 2), never a violation"]

def _sched_jobs(q_rapid, t_rapid):
    return [
        {"name": "dfs", "sched": True, "pkg": "./vsched/diodecheck", "tags": "", "run": "^TestDFS$", "shards": T(16, 16), "timeout": T(900, 7200), "replay": "^TestReplay$"},
        {"name": "random", "sched": True, "pkg": "./vsched/diodecheck", "tags": "", "run": "^TestRapidSchedules$", "rapid": T(q_rapid, t_rapid), "shards": T(4, 16), "timeout": T(900, 7200)},
        {"name": "known", "sched": True, "pkg": "./vsched/diodecheck", "tags": "", "run": "^TestKnown$"},
    ]

_SCHED_TECH = "schedule exploration as generated-input search: bounded-preemption DFS (exhaustive for small configurations), PCT priority schedules and rapid byte-string schedules drive the real diode sources on a cooperative scheduler; oracle: invariants over the recorded history"
PROPS["C10"] = {"jobs": _sched_jobs(8000, 120000), "assumptions": SCHED_ASSUME,
    "claim": {"ref": "DESIGN.md §3.6, §5 C10", "technique": _SCHED_TECH,
              "text": "Generated-input search over schedules at the granularity of individual atomic, mutex, condition-variable, pool and channel operations of the real diode code: all schedules with at most 2 (3 in thorough) preemptions for small (P, W, size) in waiter and poller mode, incl. a consumer blocked forever inside the wrapped writer, plus PCT and random byte-string schedules for P<=4, W<=6, size<=8 (incl. a message above the 64 KiB pool limit). Every producer's Write must return; every delivered buffer must equal exactly one Write argument and stay unchanged while inside the wrapped Write (producers scribble over their buffer after Write returns); no duplicates, no overlapping deliveries, ring positions strictly increasing, alert counts bounded by positions claimed. Held on everything explored.",
              "note": "Exhaustive only within the stated preemption bound and configurations; sync primitives are models with documented semantics."}}
PROPS["C11"] = {"jobs": _sched_jobs(8000, 120000), "assumptions": SCHED_ASSUME + ["Close is called after all producers returned: both at quiescence and immediately (early-close configurations)"],
    "claim": {"ref": "DESIGN.md §3.6, §5 C11", "technique": _SCHED_TECH,
              "text": "Same schedule search with Close called by the main thread after the last Write returned, both immediately and after quiescence: after Close returned, delivered + reported >= written (equality when no producer retried a position), nothing reported dropped while fewer than size messages were outstanding, and no delivery after Close returned. Held on everything explored (three genuine defects found this way were repaired: D10, D13, D14).",
              "note": "The Fatal path (Logger.Fatal -> Close) is covered by C04's re-executed children only for the exit status; the drain itself is this check."}}
PROPS["C12"] = {"jobs": _sched_jobs(8000, 120000), "assumptions": SCHED_ASSUME + ["liveness is decided as bounded liveness: deadlock states and the step bound under a fair non-preemptive tail"],
    "claim": {"ref": "DESIGN.md §3.6, §5 C12", "technique": _SCHED_TECH,
              "text": "Same schedule search in waiter and poller mode; the lowest-priority main thread observes the quiescent state after all Writes returned: delivered + reported >= written must hold there, each undelivered message being covered by reports made after its Write began (no later Write or Close needed), and after Close every thread must terminate. On the current tree the waiter-mode lost wake-up (KF-C12-1) is a recorded known finding, identified by its history signature; every other violation is reported.",
              "note": "Known finding KF-C12-1 is excluded by signature and counted (excluded_known in the evidence); its committed replay is re-run on every invocation."}}

PROPS["C06"] = {
    "jobs": [
        {"name": "workloads", "pkg": "./c06", "run": "^TestWorkloads$", "rapid": T(600, 6000), "shards": T(4, 16), "replay": "^TestReplay$"},
        {"name": "workloads-race", "pkg": "./c06", "race": True, "run": "^TestWorkloads$", "rapid": T(150, 1500), "shards": T(4, 16)},
        {"name": "samplers", "pkg": "./c06", "run": "^TestSamplersConcurrent$", "rapid": T(200, 3000), "shards": T(1, 4)},
        {"name": "samplers-race", "pkg": "./c06", "race": True, "run": "^TestSamplersConcurrent$", "rapid": T(100, 1500), "shards": T(1, 4)},
        {"name": "stack", "pkg": "./c06", "run": "^TestStackMarshalerConcurrent$", "rapid": T(150, 3000), "shards": T(1, 4)},
        {"name": "stack-race", "pkg": "./c06", "race": True, "run": "^TestStackMarshalerConcurrent$", "rapid": T(60, 1000), "shards": T(1, 4)},
    ],
    "assumptions": ["event content is deterministic (fixed clock, no caller); settings are the defaults",
                    "real goroutines: only interleavings the Go scheduler produces are seen; yields, sleeps and a gate inside the writer widen the windows; the race detector (race job) reports unsynchronised access without needing the bad interleaving",
                    "the togglers only switch between global levels / sampling states that do not filter any generated event"],
    "claim": {"ref": "DESIGN.md §5 C06", "technique": "property-based testing (rapid) of generated concurrent workloads on real goroutines (with and without -race) + schedule search (bounded-preemption DFS, PCT, rapid byte strings) over the instrumented root package on a cooperative scheduler; oracle: multiset identity with solo runs, entry/exit checksums, SyncWriter overlap counter",
              "text": "Generated-input search: workloads of 2..12 (32 thorough) goroutines, each emitting generated event chains (payloads on both sides of the 500-byte and 64-KiB pool thresholds, nested containers, hooks) through a shared logger, its children and the global logger, against writers that yield, sleep or block inside Write, plain and SyncWriter-wrapped, with concurrent global-level/sampling togglers. The multiset of received slices must equal the multiset obtained by running every chain alone; a slice must not change while Write is in progress; SyncWriter must never let two calls overlap; the race build must report nothing. Held on everything explored.",
              "note": "Absence of a schedule-dependent failure is not established: the schedule is the Go runtime's (DESIGN.md §7)."},
}

def _logsched_jobs(q, t):
    return [
        {"name": "sched-dfs", "sched": True, "pkg": "./vsched/logcheck", "tags": "", "run": "^TestDFS$", "shards": T(4, 16), "timeout": T(900, 7200)},
        {"name": "sched-random", "sched": True, "pkg": "./vsched/logcheck", "tags": "", "run": "^TestRapidSchedules$", "rapid": T(q, t), "shards": T(2, 8), "timeout": T(900, 7200)},
    ]
PROPS["C06"]["jobs"] += _logsched_jobs(3000, 60000)
PROPS["C05"]["jobs"] += _logsched_jobs(2000, 40000)  # goroutines logging through different nodes of one tree, under generated schedules
PROPS["C13"]["jobs"] += _logsched_jobs(3000, 60000)
PROPS["C15"]["jobs"] += _logsched_jobs(3000, 60000)
for _p in ("C05", "C06", "C13", "C15"):
    PROPS[_p]["assumptions"] = PROPS[_p]["assumptions"] + ["scheduler tier: the root package is rewritten onto the cooperative scheduler (sync.Pool as a LIFO stack, mutexes and atomics as scheduling points); see C10 assumptions"]

# the diode on the Go scheduler itself, natively and as a 32-bit build run on this machine (alignment of
# 64-bit atomics, int width): schedule-independent invariants only
for _j in PROPS["C10"]["jobs"]:
    if _j.get("replay"):
        _j["replay_skip"] = "realrt"
PROPS["C10"]["jobs"] = PROPS["C10"]["jobs"] + [
    {"name": "realrt", "pkg": "./c10rt", "run": "^TestRapidRealRuntime$", "rapid": T(300, 6000), "shards": T(1, 4), "replay": "^TestReplay$", "replay_match": "realrt-amd64"},
    {"name": "realrt-386", "pkg": "./c10rt", "goarch": "386", "run": "^TestRapidRealRuntime$", "rapid": T(300, 6000), "shards": T(1, 4), "replay": "^TestReplay$", "replay_match": "realrt-386"},
]
_SEQWRAP = [{"name": "bigmsg", "pkg": "./c10rt", "run": "^TestBigMessages$", "timeout": T(900, 900)},
            {"name": "seqwrap", "pkg": "./c10rt", "run": "^TestSequenceWrap$", "timeout": T(600, 600)},
            {"name": "seqwrap-386", "pkg": "./c10rt", "goarch": "386", "run": "^TestSequenceWrap$", "timeout": T(600, 600)}]
for _p in ("C10", "C11", "C12"):
    PROPS[_p]["jobs"] = PROPS[_p]["jobs"] + [dict(j) for j in _SEQWRAP]
    PROPS[_p]["assumptions"] = PROPS[_p]["assumptions"] + ["bigmsg job (real runtime): whether the consumer is parked is read from goroutine dumps (Cond.Wait in waiter mode; asleep in five dumps in a row with no delivery in polling mode)", "seqwrap jobs: the ring's sequence numbers are preset through reflection to just below 2^8, 2^16, 2^31, 2^32 (the state after that many messages), then a backlog smaller than the ring is written and drained on the real runtime"]
PROPS["C10"]["assumptions"] = PROPS["C10"]["assumptions"] + ["real-runtime jobs (native and GOARCH=386): only the interleavings the Go scheduler happens to produce; they add the platform dimension (32-bit alignment and int width), not schedule coverage"]
PROPS["C10"]["jobs"] = PROPS["C10"]["jobs"] + [{"name": "stdlog", "pkg": "./c10rt", "run": "^TestStdLogProducers$", "timeout": T(600, 600)},
                                               {"name": "stdlog-386", "pkg": "./c10rt", "goarch": "386", "run": "^TestStdLogProducers$", "timeout": T(600, 600), "thorough_only": True}]
PROPS["C11"]["jobs"] = PROPS["C11"]["jobs"] + [{"name": "fatal-path", "pkg": "./c11", "run": "^TestFatalDrains$", "timeout": T(600, 600)}]

# ---- 32-bit builds (GOARCH=386, run on this machine): alignment of 64-bit atomics and the width of int/uint
PROPS["C13"]["jobs"] = PROPS["C13"]["jobs"] + [
    {"name": "compositions-386", "pkg": "./c13", "goarch": "386", "run": "^TestRapidCompositions$", "rapid": T(4000, 40000), "shards": T(1, 4)},
    {"name": "concurrent-386", "pkg": "./c13", "goarch": "386", "run": "^TestConcurrentBasic$", "rapid": T(60, 600)},
]
import copy as _copy


def _add386(pid, names=None, thorough_only=False, rapid_div=4):
    """Clone jobs of pid as GOARCH=386 builds (by name; None = every plain job)."""
    extra = []
    for j in PROPS[pid]["jobs"]:
        if j.get("sched") or j.get("race") or j.get("fuzz") or j.get("goarch"):
            continue
        if names is not None and j["name"] not in names:
            continue
        c = _copy.deepcopy(j)
        c["name"] += "-386"
        c["goarch"] = "386"
        c.pop("replay", None)
        if c.get("rapid"):
            c["rapid"] = {k: max(100, v // rapid_div) for k, v in c["rapid"].items()}
        if isinstance(c.get("shards"), dict):
            c["shards"] = {k: max(1, v // 4) for k, v in c["shards"].items()}
        if thorough_only:
            c["thorough_only"] = True
        extra.append(c)
    PROPS[pid]["jobs"] = PROPS[pid]["jobs"] + extra
    PROPS[pid]["assumptions"] = PROPS[pid]["assumptions"] + ["jobs named *-386 run the same harness as a GOARCH=386 build (CGO off) on this machine: int and uint have 32 bits there and 64-bit atomics need 8-byte alignment" + ("; thorough tier only" if thorough_only else "")]


_add386("C02", ["rapid-values"])
_add386("C09", ["rapid"])
_add386("C08", ["rapid", "regress"])  # the JSON-build co-process is built for the same GOARCH
_add386("C04", None, rapid_div=1)
_add386("C07", ["json"])
_add386("C17", ["structured", "mutations"], rapid_div=6)  # lengths with bit 31 set meet a 32-bit int
_add386("C17", ["headers", "cuts", "concurrent"], thorough_only=True)
for _p in ("C01", "C03", "C05", "C14", "C15", "C16", "C18", "C19"):
    _add386(_p, None, thorough_only=True)

# ---- the binary_log build of checks whose property is not about an encoding: the same harness, output parsed
# as CBOR (lp.BinaryBuild) or compared as opaque bytes


def _addcbor(pid, names, rapid_div=3):
    extra = []
    for j in PROPS[pid]["jobs"]:
        if j["name"] not in names or j.get("goarch") or j.get("sched"):
            continue
        c = _copy.deepcopy(j)
        c["name"] += "-cbor"
        c["tags"] = "binary_log verif"
        c.pop("replay", None)
        if c.get("rapid"):
            c["rapid"] = {k: max(100, v // rapid_div) for k, v in c["rapid"].items()}
        extra.append(c)
    PROPS[pid]["jobs"] = PROPS[pid]["jobs"] + extra
    PROPS[pid]["assumptions"] = PROPS[pid]["assumptions"] + ["jobs named *-cbor run the same harness with -tags binary_log: events are parsed as CBOR and compared with the same expected events (or compared as opaque bytes where the check never parses them)"]


_addcbor("C03", ["rapid", "trees"])
_addcbor("C05", ["trees", "concurrent-trees"])
_addcbor("C04", ["grid", "random", "inert", "inert-all"], rapid_div=4)
_addcbor("C13", ["logger"])
_addcbor("C15", ["rapid", "concurrent"])
_addcbor("C19", ["product", "sequences"])
_addcbor("C18", ["isolation", "isolation-race"])
